#!/bin/sh
# usage: tools/try_mutant.sh <patch.diff> <Cxx> [--tier ..]   -- run a check against a scratch copy of /repo with the patch applied
PATCH="$1"; shift
D=$(mktemp -d /tmp/mutXXXXXX)
cp -r /repo/iodata "$D/iodata"
[ -d /repo/docs ] && mkdir -p "$D/docs" && cp -r /repo/docs/. "$D/docs/" 2>/dev/null
[ -d /repo/tools ] && cp -r /repo/tools "$D/tools"
cp /repo/pyproject.toml "$D/" 2>/dev/null
( cd "$D" && patch -p1 -s < "$PATCH" ) || { echo "patch failed"; rm -rf "$D"; exit 9; }
PYVC_REPO="$D" "$(dirname "$0")/../check" "$@"
rc=$?
rm -rf "$D"
exit $rc
