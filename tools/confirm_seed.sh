#!/bin/sh
# usage: tools/confirm_seed.sh <agent-out-dir> <k> <seed-id> <property>
# Confirms a seeded change independently: demo passes on pristine, fails with patch, test-suite still passes with patch.
SRC="$1/m$2"; ID="$3"; PROP="$4"
WT=/tmp/wt/confirm_$ID
LOG=/tmp/wt/confirm_$ID.log
rm -rf "$WT"; git -C /repo worktree prune; git -C /repo worktree add -q --detach "$WT" HEAD || exit 9
cd "$WT"
PYTHONPATH="$WT" /venv/bin/python "$SRC/demo.py" > "$LOG.pristine" 2>&1; P=$?
git apply "$SRC/patch.diff" || { echo "$ID: patch does not apply"; git -C /repo worktree remove --force "$WT"; exit 9; }
PYTHONPATH="$WT" /venv/bin/python "$SRC/demo.py" > "$LOG.patched" 2>&1; M=$?
/venv/bin/python -m pytest -q -p no:cacheprovider --timeout=900 --continue-on-collection-errors > "$LOG.tests" 2>&1
T=$(tail -3 "$LOG.tests" | tr '\n' ' ')
cd /; git -C /repo worktree remove --force "$WT"
OK=no
case "$T" in *"515 passed"*) case "$T" in *failed*) ;; *) [ "$P" = 0 ] && [ "$M" != 0 ] && OK=yes;; esac;; esac
echo "$ID demo_pristine_exit=$P demo_patched_exit=$M tests='$T' confirmed=$OK"
if [ "$OK" = yes ]; then
  D=/verif/seeded/$ID; mkdir -p "$D"; cp "$SRC/patch.diff" "$SRC/demo.py" "$D/"; cp "$SRC/notes.md" "$D/notes.md" 2>/dev/null
  python3 - "$ID" "$PROP" "$P" "$M" "$T" <<'PY'
import json,sys
id,prop,p,m,t=sys.argv[1:6]
notes=open(f"/verif/seeded/{id}/notes.md").read() if __import__("os").path.exists(f"/verif/seeded/{id}/notes.md") else ""
json.dump({"id":id,"breaks_property":prop,"needs_to_manifest":notes.strip(),"confirmed":{"demo_exit_pristine":int(p),"demo_exit_patched":int(m),"test_suite_with_patch":t.strip(),"how":"scratch git worktree of /repo; PYTHONPATH=<wt> /venv/bin/python demo.py before/after git apply; baseline pytest command with the patch applied (515 passed + the pre-existing test_overlap collection error, as on the pristine tree)"},"detected_by":[]},open(f"/verif/seeded/{id}/meta.json","w"),indent=1)
PY
fi
