#!/usr/bin/env python3
"""Regenerate MANIFEST.json from the table below (kept valid at all times)."""
import json
import os

HERE = os.path.dirname(os.path.dirname(os.path.abspath(__file__)))
PROPS = [json.loads(l) for l in open(os.path.join(HERE, "properties.jsonl"))]

TRUST = "trusted base: z3/cvc5, the Python-semantics model of pyvc (differential-tested against CPython on every run), the numpy/attrs axioms in pyvc/models.py, float arithmetic as real arithmetic (A-FP); see evidence.assumptions"

CHECKS = {
    "C09": dict(
        category="proof",
        text="Frame obligations by provenance analysis over the call graph of dump_one / dump_many / write_input (every function reachable, incl. callbacks and dynamic dispatch over all format modules): every mutating statement targets an object allocated in that activation, never one reachable from the arguments or from module state (key-sensitive tracking of containers and of elements stored into them; function summaries by fixpoint). The six prepare_dump functions return their argument or the announced conversion of prepare_* with allow_changes passed on, and raise only PrepareDumpError; dump_one returns the written object (C08); the equivalences of the conversions are C14. Deep snapshots over the driver pool are a bounded cross-check.",
        design_ref="DESIGN.md 6/C09",
        note=TRUST + "; numpy/builtin aliasing axioms; flow-insensitive within a function; C-level code of numpy/scipy does not write into inputs",
        technique="contract-based deductive verification: modifies/frame obligations discharged by a provenance analysis of the real AST over the call graph + bounded deep snapshots",
    ),
    "C16": dict(
        category="other",
        text="For sequential histories: no function of the package writes a module-level name or mutates an object of global provenance (tables, registries, conventions), none has a mutable default argument, closure or class-level state, no function reachable from the API reads mutable process state, and no loop iterates over a set (whose order depends on the hash seed); hence every call is a function of its arguments and file contents (lemma), independent of order and repetition. A pool of API calls run alone in fresh interpreters (incl. different hash seeds) vs. in several orders in one interpreter is a bounded cross-check. The thread-schedule half of the property is NOT decided by this technique: one fixed interleaving of two calls is replayed as a bounded case (a recorded finding: warnings are lost), everything else about threads is listed under not_covered.",
        design_ref="DESIGN.md 6/C16",
        note=TRUST + "; thread interleavings not covered beyond one replayed schedule (family silent on concurrency); standard library / numpy keep no result-affecting state",
        technique="contract-based deductive verification: frame obligations (no write to module state) by provenance analysis over the whole package + purity and iteration-order scans + bounded history permutations",
    ),
    "C10": dict(
        category="proof",
        text="Both conversion functions are verified against contracts taken from the statement for all label lists and all bases (loop invariants, no bound) by symbolic execution of the real AST + z3; round-trip/reverse/composition are lemmas over the contracts; all convention tables and all ordered table pairs are decided by exhaustive evaluation.",
        design_ref="DESIGN.md 6/C10",
        note=TRUST + "; pigeonhole (injective on range(n) => bijective) not re-proved; callee treated as a function of its arguments",
        technique="contract-based deductive verification (AST symbolic execution -> z3 VCs, loop invariants) + exhaustive ground evaluation of tables",
    ),
    "C17": dict(
        category="other",
        text="_select_format_module is verified for an arbitrary registry (any number of modules, patterns and operations; loop invariant 'no earlier module qualifies') and, for an explicit format, on the real registry: result determined by base name and fmt, explicit format wins without consulting patterns, FileFormatError otherwise, no file-system access. Registry order, patterns, operations, the CLI description and all declared attribute names of the 25 modules are decided by exhaustive evaluation; guaranteed attributes by a must-define analysis where the returned dict is a literal, otherwise only by the bounded corpus check (open known finding: orcalog on a non-ORCA *.out file).",
        design_ref="DESIGN.md 6/C17",
        note=TRUST + "; fnmatch/basename pure; S4 (guaranteed attributes) only partly decidable statically; S5 is C08",
        technique="contract-based deductive verification (loop invariant over a generic registry, z3) + exhaustive ground evaluation of the registry and declared lists + bounded corpus loads",
    ),
    "C18": dict(
        category="proof",
        text="convert() and main() are verified by symbolic execution with the four API functions havoc'ed: the only effects are np.seterr(divide/over/invalid='raise'), load_X(input, fmt=infmt) and dump_X(<what was loaded>, output, allow_changes=..., fmt=outfmt) with X selected by --many, every API exception propagates, nothing is swallowed; the real ArgumentParser is enumerated over its whole option structure. Byte equality with the API then follows from C16 (determinism); the subprocess comparison is a bounded cross-check.",
        design_ref="DESIGN.md 6/C18",
        note=TRUST + "; CPython exit-status behaviour and argparse internals trusted",
        technique="contract-based deductive verification (event-trace contract by AST symbolic execution) + exhaustive enumeration of the real parser + bounded subprocess comparison",
    ),
    "C19": dict(
        category="proof",
        text="write_input_base, the Gaussian/ORCA write_input functions and both default_atom_line functions are verified at field level for all molecules (any number of atoms), all charge/spin settings and user overrides: one geometry line per atom in order produced by the atom-line callback of that atom, element symbol and coordinates divided by the CODATA angstrom factor, multiplicity = |round(spinpol)|+1, charge rounded to the nearest integer, documented defaults and run-type tables, user/keyword fields last. Text rendering (str.format, f-strings) is trusted.",
        design_ref="DESIGN.md 6/C19",
        note=TRUST + "; str.format / str.join trusted; error classes of api.write_input are C08",
        technique="contract-based deductive verification (AST symbolic execution -> z3 VCs, comprehension over a symbolic atom count) + bounded seeded molecules through the real API",
    ),
    "C20": dict(
        category="proof",
        text="set_four_index_element, volume, strtobool, check_dm and derive_naturals are verified against contracts taken from the statement (array theory / nonlinear real arithmetic / finite maps in z3); the matrix-algebra consequence of the assumed scipy.linalg.eigh contract (reconstruction of the density matrix, orthonormality) is a Lean 4 + Mathlib lemma; the floating-point side is covered only by a bounded stand-in on random matrices, labelled bounded.",
        design_ref="DESIGN.md 6/C20",
        note=TRUST + "; assumed external contract of scipy.linalg.eigh; closed forms of norm/cross/det",
        technique="contract-based deductive verification (AST symbolic execution -> z3 VCs) + Lean lemma over contracts + bounded stand-in for float behaviour",
    ),
    "C13": dict(
        category="other",
        text="Order and laziness of the API (one object per frame in order; first frame checked before open, then one pull per written frame) are the proved obligations of C07/C08, re-run here; the six format-level load_many functions are executed symbolically with load_one havoc'ed: every yielded frame is one load_one result on the shared cursor, exceptions of load_one propagate, and the handlers that end the sequence may fire only at a frame boundary. The last obligation is refuted for all six formats (open known findings: a file cut inside its last frame ends the sequence silently), hence category `other`. Per-frame data equality is a bounded stand-in.",
        design_ref="DESIGN.md 6/C13",
        note=TRUST + "; load_one by havoc contract with a ghost `partial` flag; fchk.load_many only structurally (AST)",
        technique="contract-based deductive verification (event traces, havoc'ed load_one with ghost state) + bounded generated trajectories with truncation and corruption",
    ),
    "C14": dict(
        category="proof",
        text="convert_to_segmented (generic-iteration rule over shells and contractions: per-shell outputs are the same object or one new shell per contraction with the same center, angular momentum, kind, exponents and coefficient column, in order), convert_to_unrestricted (all kinds and array contents, compared through the real getters incl. electron count and spin polarisation via summation lemmas), and the prepare_* protocol (identity short-cut, PrepareDumpError, exactly one PrepareDumpWarning, shallow copy) are verified for all inputs; idempotence lemmas over the contracts.",
        design_ref="DESIGN.md 6/C14",
        note=TRUST + "; 'identical overlap matrix' follows from equality of the basis functions in order + determinism, the integral code itself is C06; flattening lemma stated, not mechanised",
        technique="contract-based deductive verification (AST symbolic execution -> z3 VCs, generic-iteration loop rule, induction lemmas) + bounded random bases/orbitals on the real functions",
    ),
    "C01": dict(
        category="other",
        text="Decided from the current source: every expression in the five wavefunction writers that combines the (permutation, signs) pair of convert_conventions (contract proved in C10) is evaluated by numpy on matrices of sympy symbols for all 24 x 16 permutations and sign vectors of size 4 and must equal rows_i = s_i coeffs[p_i] (orbitals) resp. D'_ij = s_i s_j D[p_i,p_j] (FCHK densities) exactly - complete for n = 4 and all coefficient values, other sizes by parametricity of numpy indexing (assumption); the basis handed to get_mocoeff_scales in the WFN/WFX writers carries the conventions the coefficients were converted to (AST contract). fchk.prepare_dump is executed symbolically for orbitals of any size and any occupation numbers (restricted with and without occs_aminusb, unrestricted; sum and rounding abstracted as arbitrary functions): whatever it accepts has alpha and beta occupations 1...1 0...0 and no more beta than alpha electrons, and only PrepareDumpError is raised (cross-checked by an exhaustive run on every occupation pattern with <= 5 orbitals, bounded). Bounded: bounded/wfn_probe.py writes random wavefunctions (shell order, conventions incl. every format module's and random permutations with sign flips, segmented / SP / generalized contractions, restricted / ROHF / occs_aminusb / unrestricted, with and without virtuals, ghost and ECP centres, pure / Cartesian / mixed) with every writer and allow_changes setting, reloads them and compares nuclei, occupations, energies, spin, orbital values at probe points and FCHK densities with an evaluator independent of iodata; failing cases are minimised feature by feature. Reader-side reconstruction is only covered by the bounded part, hence `other`. Five genuine defects were repaired (see known_findings.json), five groups are open known findings (Molekel with ECP / ghost / ROHF, WFN core charges).",
        design_ref="DESIGN.md 6/C01",
        note="trusted: numpy parametricity in n, contracts of C10/C14/C06, bounded/overlap_oracle.py as definition of the basis functions; command-line path not exercised separately",
        technique="use-site contracts for the convention conversion decided by exhaustive symbolic evaluation (numpy + sympy, n = 4), AST contract for normalisation scales, small-scope exhaustive guard check, randomised conversion probe with an independent orbital evaluator (bounded)",
    ),
    "C02": dict(
        category="other",
        text="Decided for all inputs from the current source: inverse tables (element symbols, bond types, FCHK run types through the writer's own header code, FCHK quadrupole permutation) by exhaustive evaluation; unpack(pack(A)) = A for every size n and symmetric A (z3 lemma over the C03 contract of _triangle_to_dense, row-major order of np.tril_indices checked to n = 40, the three writer sites and the reader calls matched in the AST); FCIDUMP index coverage for every norb (z3 over the loop bounds, triangle condition and index orders extracted from dump_one, load_one and set_four_index_element: every element of an 8-fold symmetric array lies in the orbit of a written record and the printed value belongs to that orbit); for every record the 12 text writers print: adjacent fields read by a white-space split are separated, fixed-column reader slices (PDB ATOM, WFN) hold whole writer fields, every factor applied to a printed value is a unit constant whose inverse the reader applies, no thousands separators. Bounded: dump -> load -> compare on generated objects of each format's domain (1..101 atoms quick / 1..12000 thorough, column-filling coordinates, all bond types, optional attributes, XYZ user columns, cube memory layouts, FCHK with all optional sections and run types) and on every corpus file converted to every format that accepts it. The value-level behaviour of the remaining reader code is only exercised by the bounded part, hence `other`. Open known findings: SDF touching columns (7), FCHK header columns (2), FCHK required-only object.",
        design_ref="DESIGN.md 6/C02",
        note="trusted: z3, numpy tril_indices beyond n=40, the reader-mode table (white space vs fixed columns), AST extraction of the FCIDUMP loop nest (fails closed); bounded part samples values",
        technique="contracts on writer records and index maps generated from the AST (z3 lemmas for packing and FCIDUMP coverage, static separation/column/unit-factor obligations, exhaustive tables) + bounded dump/load comparison",
    ),
    "C15": dict(
        category="other",
        text="For every float field the 12 text writers print (format specs re-extracted from the source on every run) a rounding inequality decides that text -> float -> unit factor -> inverse unit factor -> text is the identity: values printed as stored are idempotent after one cycle, values behind a unit factor need 6.02 u B < 10^-d (fixed point, B = what the column holds) or 30.1 u < 0.5 10^-d (scientific); unit factors must be iodata.utils constants with the inverse operation in the reader; no thousands separators. The margin lemma behind the two inequalities is machine-checked on every run (pyvc/rounding.py: z3 over exact rationals, one instance per precision and column bound in use, under the model fl(x) = x(1+d), |d| <= 2^-53); values printed as stored are under lemma.round.bare-fixed (fixed point, z3) or the mantissa lemma (scientific, <= 15 digits; 16 digits are refuted, >= 17 digits rest on the classical identification result, trusted). Bounded: three save/reload generations of generated objects and of every corpus file converted to every format that accepts it; generation 2 must equal generation 1 bit for bit (sha256 over dtype/shape/bytes of all attributes) and file 3 must equal file 2 byte for byte. Open known finding: POSCAR prints 16 decimals behind a unit factor / matrix product and drifts in the last digit (6 obligations + 6 bounded groups).",
        design_ref="DESIGN.md 6/C15",
        note="trusted: correctly rounded float()/format(), standard floating-point error model for float()/*// (margin lemma proved under it by z3), float() nearest / format() half-even, 17 digits identify a double, readers apply no arithmetic besides unit factors (Molden/Molekel fixes, WFN/WFX scales, json: bounded only)",
        technique="per-field stability contracts generated from the writers' format specs (rounding inequalities, each tied to a z3-discharged instance of the rounding lemma over exact rationals) + unit-factor inverse obligations + bounded three-generation cycles with bit/byte comparison",
    ),
    "C03": dict(
        category="other",
        text="Proved for all inputs: fchk._triangle_to_dense unpacks the packed lower triangle to dense[i,j] = packed[max(max+1)/2+min] for every matrix size (loop invariant, z3 nonlinear integer arithmetic); the column slices of the PDB ATOM/HETATM parser are exactly the PDB v3.3 columns and CONECT serials are read from columns 7-11, 12-16, ... Finite enumeration of width classes (digits sampled): record-level readers of SDF, PDB, GRO, XYZ, cube, Gaussian-log matrices and FCIDUMP are fed with files produced by independent writers that follow the published layouts, every field crossing its width boundaries. Three open known findings (SDF whitespace split, GRO x-field columns). The free-text log parsers and the section state machines are not covered (listed under not_covered), hence `other`.",
        design_ref="DESIGN.md 6/C03",
        note="trusted: the published layouts as typed into the check, numpy slice-store axioms; large parts of the 25 readers are outside reach and are named in the evidence",
        technique="contract-based deductive verification of index unpacking (loop invariant, z3) + column contracts + finite width-class enumeration against independent spec-following writers (bounded)",
    ),
    "C04": dict(
        category="other",
        text="The real readers and writers are executed with the unit constants of their modules as indeterminates (a constant is scaled; the exponent with which it enters each loaded / written number is read off exactly, for every element): per (format, attribute) the monomial must equal a unit table written from the format documentation, writer-then-reader must have total exponent 0, every unit-constant use site must lie on an executed path, the ten constants of iodata.utils must equal CODATA values, and absolute probes cover quantities for which the module has no constant (masses in GAMESS / Q-Chem / QCSchema, Q-Chem multipoles, CHGCAR density vs. cell volume). This decides the factor for all numeric values on the executed corpus / crafted paths, not for all files: hence `other`. Four obligations are refuted by open known findings (masses and multipoles stored as printed).",
        design_ref="DESIGN.md 6/C04",
        note="trusted: linearity of the conversions in the unit constants (checked: uniform integer exponent), the CODATA values and the unit table typed into checks/c04.py; coverage is per executed path",
        technique="symbolic run of the real readers/writers with unit constants as indeterminates against a unit table (contracts on factors), exhaustive check of constants, absolute probes",
    ),
    "C05": dict(
        category="other",
        text="Proved on every path of the real molden._fix_molden_from_buggy_codes (symbolic execution with z3, orbital coefficients arbitrary real matrices of arbitrary size, restricted / unrestricted / generalized orbitals, the norm test an arbitrary predicate, the _fix_* helpers arbitrary functions that may return None where the code allows it): a file that passes the norm test as it stands is returned untouched without warning after one test; whatever is returned (basis, alpha and beta coefficients, read back through the real MolecularOrbitals getters) is exactly the candidate of the last test and that test succeeded after all earlier ones failed; every test examines both spin blocks of one candidate; candidates are tried in the documented order; an accepted correction is announced by exactly one LoadWarning naming it; LoadError is raised only after every candidate failed and before anything was modified; generalized orbitals are rejected. Also proved (loop invariant over the columns, blocks of any size, the quadratic form an uninterpreted function): _is_normalized_properly returns True iff every column of the alpha block and, when given, of the beta block has |c^T S c - 1| <= threshold (cross-checked natively with an identity overlap, bounded). Bounded: bounded/vendor_probe.py encodes true wavefunctions the way ORCA, PSI4 <= 1.0, Turbomole, CFOUR 2.1, PSI4 <= 1.3.2 and unnormalised contractions deviate, as Molden (AU and Angs) and Molekel, and compares what iodata loads with the truth by an independent evaluator, incl. geometry scans in one process and corrupted encodings that must be rejected. The numerical correction factors and the selection of the right branch when several candidates pass are only covered by the bounded part, hence `other`.",
        design_ref="DESIGN.md 6/C05",
        note="trusted: callee contracts of the cascade (purity of the norm test, _fix_* helpers return new objects), C12 (coeffsa/coeffsb views), vendor encodings typed from the documentation of the deviations",
        technique="contract-based deductive verification of the correction cascade (AST symbolic execution -> z3, callees under contract) + bounded norm-test and vendor-encoding probes with an independent orbital evaluator",
    ),
    "C06": dict(
        category="other",
        text="The real 1-D kernel is run on sympy symbols for all 64 (n1,n2)<=7 and equals the Gaussian moment as an exact polynomial identity (all real centres/exponents); normalisation constants for all 120 Cartesian triples l<=7 and the Cartesian-to-pure tables tfs[0..7] are decided exhaustively against the definitions of docs/basis.rst (solid harmonics rebuilt from the associated-Legendre definition, independent of tools/harmonics.py); error contract, segmentation prologue, convention epilogue (reverse=True on rows by basis 0 and columns by basis 1) and the screening bound (z3 lemma) of compute_overlap are structural obligations. The assembled floating-point matrix (symmetry, PSD, transpose, translation, conventions, equality with the inner products) is a bounded stand-in against an independent oracle.",
        design_ref="DESIGN.md 6/C06",
        note="trusted: sympy normal forms, the documentation's definitions, C10/C14 contracts; float accumulation only bounded; the structural obligations of compute_overlap report `undecided` on refactoring",
        technique="direct symbolic execution of the real kernel (sympy), exhaustive evaluation of tables against documented definitions, z3 lemma, bounded independent oracle for the assembled matrix",
    ),
    "C07": dict(
        category="other",
        text="The format-level readers and the IOData constructor are havoc'ed (any result, any subclass of Exception, for every possible file content at once) and the real load_one / load_many / warning re-issuer / LineIterator / error classes are executed symbolically: only FileFormatError (before the file is opened) or LoadError escapes, the message names the file and the iterator's line number, the file is closed on every exit path incl. generator close, LineIterator keeps lineno == lines taken - pushed back. Termination: one `decreases` obligation per parser loop over the ghost measure lines-left + push-back depth, discharged by path enumeration; nine loops carry a declared, unproved argument (listed in the evidence). Corpus truncation/mutation is a bounded cross-check only.",
        design_ref="DESIGN.md 6/C07",
        note=TRUST + "; default warning filters; BaseExceptions other than GeneratorExit out of scope; GC-time close of dropped generators; nine declared termination arguments",
        technique="contract-based deductive verification: exception-flow/resource contracts by AST symbolic execution with havoc'ed callees, data-structure invariant of LineIterator, termination measure per loop; bounded corpus mutation as cross-check",
    ),
    "C08": dict(
        category="other",
        text="The real bodies of dump_one, dump_many (incl. the nested checking_iterator), write_input, _check_required and the warning re-issuer are executed symbolically with all format-level callees havoc'ed (they may raise any subclass of Exception at any call, every write may fail), for each of the 13 dump_one and 4 dump_many modules with their real `required` lists: escaping exception classes, PrepareDumpError/FileFormatError before any open event, DumpError/WriteInputError after it, close on every path, first-frame pre-flight and lazy one-pull-per-frame order of dump_many are proved for all inputs and all fault positions.",
        design_ref="DESIGN.md 6/C08",
        note=TRUST + "; BaseExceptions out of scope; format-level prepare_dump functions only by frame (no file event) here, their rejection logic is covered by C14/C01 and by the bounded driver",
        technique="contract-based deductive verification: exception-flow / ghost event traces by AST symbolic execution with havoc'ed callees (z3 for the symbolic exception classes) + bounded fault injection on the real API",
    ),
    "C11": dict(
        category="other",
        text="Inductive proof over all histories: a representation invariant on IOData's stored fields is shown to be established by the constructor and preserved by each of the 10 assignments and by reads, from an arbitrary state satisfying it (no bound on history length); the statement's clauses (charge = core charges - electrons, read-back, TypeError + unchanged observables on rejected assignments, orbitals take precedence, idempotent reads) are postconditions proved through the real getters/setters/validators with an attrs model. Category is `other` only because one obligation is refuted by an open known finding (stale lazy default of atcorenums), so discharged != obligations.",
        design_ref="DESIGN.md 6/C11",
        note=TRUST + "; attrs __init__/__setattr__ model cross-checked by the bounded exhaustive-history driver on the real class",
        technique="contract-based deductive verification: invariant + per-operation contracts (AST symbolic execution -> z3), exhaustive depth-2/3 histories on the real class as bounded cross-check",
    ),
    "C12": dict(
        category="other",
        text="MolecularOrbitals: invariant established by the constructor and preserved by every assignment of the quantifier's alphabet, getter/setter contracts for every kind and all array contents (element-wise array theory, summation lemmas proved by explicit induction); Shell: validators and nbasis loop invariant. Category `other` because four obligations are refuted by open known findings (length-1 arrays are broadcast by the occsa/occsb setters).",
        design_ref="DESIGN.md 6/C12",
        note=TRUST + "; (a+b)/2+(a-b)/2 == a exactly (A-FP)",
        technique="contract-based deductive verification (AST symbolic execution -> z3 VCs, induction lemmas for sums) + bounded enumeration on the real classes",
    ),
}

REASON_TODO = "check not built yet (build in progress); planned in DESIGN.md section 6"


def main():
    checks = []
    for pid, c in sorted(CHECKS.items()):
        checks.append(
            {
                "property_id": pid,
                "quick_cmd": f"./check {pid} --tier quick",
                "thorough_cmd": f"./check {pid} --tier thorough",
                "evidence_file": f"/verif/evidence/{pid}.json",
                "replay_cmd_template": "/venv/bin/python /verif/replay.py {path}",
                "engine": "pyvc",
                "level_claimed": {"category": c["category"], "text": c["text"], "design_ref": c["design_ref"]},
                "level_note": c["note"],
                "technique": c["technique"],
            }
        )
    na = [{"property_id": p["id"], "reason": NA.get(p["id"], REASON_TODO)} for p in PROPS if p["id"] not in CHECKS]
    m = {
        "version": 1,
        "setup_cmd": "cd /opt/veriftools/mathlib4 && lake env lean /verif/lemmas/NaturalOrbitals.lean",
        "hooks": {
            "guard": "IODATA_VERIF",
            "enable": "no source hooks: contracts are sidecars under /verif; checks read /repo's working tree directly (PYVC_REPO overrides the path for scratch copies)",
            "baseline_off_cmd": "cd /repo && /venv/bin/python -m pytest -ra -q -p no:cacheprovider --timeout=900 --continue-on-collection-errors",
            "source_commits": [],
            "add_only": True,
        },
        "engines": [{"name": "pyvc", "path": "/verif/pyvc", "serves_properties": sorted(CHECKS), "kind_free_text": "self-built VC generator: symbolic execution of the real Python AST against sidecar contracts, z3 (cvc5 for unknowns), exhaustive ground evaluation, bounded stand-ins labelled as such"}],
        "checks": checks,
        "notes": "exit codes of ./check: 0 held, 1 violation (VIOLATION line), 2 undecided (an obligation the solver or the executor's subset cannot decide, a contract whose loop or code shape a refactoring removed: re-annotation needed; never a violation), 3 checker fault. Known findings: /verif/known_findings.json (open findings are matched by exact obligation / bounded-group name; 'fixed:' lines suppress nothing). Every check also runs the witness cases under /verif/witness/<id>/ (concrete inputs that violate or once violated the property; bounded, never counted as proved). Self-tests of the machinery, not run by the registered commands: tools/seed_matrix.py (100 property-breaking changes under seeded/, all caught) and tools/neutral_matrix.py (80 behaviour-preserving refactorings under neutral/, none may alarm).",
        "not_applicable": na,
    }
    json.dump(m, open(os.path.join(HERE, "MANIFEST.json"), "w"), indent=1)


NA = {}

if __name__ == "__main__":
    main()
