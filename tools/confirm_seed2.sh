#!/bin/sh
# usage: tools/confirm_seed2.sh <agent> <k> <property>   -- confirm in the agent's own (clean) worktree
n=$1; k=$2; P=$3
ID=${n}_m$k; SRC=/tmp/wt/out/$n/m$k; WT=/tmp/wt/$n
git -C $WT checkout -q -- .
(cd $WT && PYTHONPATH=$WT timeout 900 /venv/bin/python $SRC/demo.py > /tmp/wt/demo_$ID.pristine 2>&1); A=$?
git -C $WT apply $SRC/patch.diff || { echo "$ID apply failed"; exit 9; }
(cd $WT && PYTHONPATH=$WT timeout 900 /venv/bin/python $SRC/demo.py > /tmp/wt/demo_$ID.patched 2>&1); B=$?
T=$(cd $WT && /venv/bin/python -m pytest -q -p no:cacheprovider --timeout=900 --continue-on-collection-errors 2>&1 | tail -1)
git -C $WT checkout -q -- .
OK=no
case "$T" in *"515 passed, 16 errors"*) case "$T" in *failed*) ;; *) [ "$A" = 0 ] && [ "$B" != 0 ] && OK=yes;; esac;; esac
echo "$ID pristine=$A patched=$B tests='$T' confirmed=$OK"
if [ $OK = yes ]; then D=/verif/seeded/$ID; mkdir -p $D; cp $SRC/patch.diff $SRC/demo.py $D/; cp $SRC/notes.md $D/ 2>/dev/null
python3 - "$ID" "$P" "$A" "$B" "$T" <<'PY'
import json,sys,os
id,prop,p,m,t=sys.argv[1:6]
notes=open(f"/verif/seeded/{id}/notes.md").read() if os.path.exists(f"/verif/seeded/{id}/notes.md") else ""
json.dump({"id":id,"breaks_property":prop,"needs_to_manifest":notes.strip(),"confirmed":{"demo_exit_pristine":int(p),"demo_exit_patched":int(m),"test_suite_with_patch":t.strip(),"how":"in a scratch git worktree of /repo: PYTHONPATH=<worktree> /venv/bin/python demo.py before and after `git apply patch.diff`; the repository's baseline pytest command with the patch applied gives 515 passed + the 16 pre-existing collection errors of test_overlap.py, exactly as on the pristine tree"},"detected_by":[]},open(f"/verif/seeded/{id}/meta.json","w"),indent=1)
PY
fi
