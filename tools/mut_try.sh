#!/bin/sh
# usage: tools/mut_try.sh <file relative to repo> <sed expr> <check> [lines]   -- one-line mutation on a scratch copy
D=$(mktemp -d /tmp/mutXXXXXX)
cp -r /repo/iodata "$D/iodata"; cp /repo/pyproject.toml "$D/" 2>/dev/null; [ -d /repo/docs ] && cp -r /repo/docs "$D/docs"
sed -i "$2" "$D/$1"
diff -q /repo/$1 $D/$1 >/dev/null && echo "NO CHANGE"
PYVC_REPO="$D" /verif/check $3 2>&1 | grep -v KNOWN | tail -${4:-3}
rm -rf "$D"
