#!/usr/bin/env python3
"""Regenerate the two generated blocks of DESIGN.md section 11.5 (list of `fix:` commits, list of open findings) from
/repo's git log and known_findings.json.  usage: python3 tools/findings_table.py"""
import json
import os
import re
import subprocess
from collections import defaultdict

VERIF = os.path.dirname(os.path.dirname(os.path.abspath(__file__)))
k = json.load(open(os.path.join(VERIF, "known_findings.json")))
log = subprocess.run(["git", "-C", "/repo", "log", "--reverse", "--format=%h %s"], capture_output=True, text=True).stdout.splitlines()
rows = []
for line in log:
    if " fix:" not in line:
        continue
    h, s = line.split(" ", 1)
    props = sorted({re.search(r"property=(C\d+)", f).group(1) for f in k["fixed"] if h in f})
    rows.append(f"| {h} | {','.join(props)} | {s[4:].strip()} |")
fix = f"Repaired: {len(rows)} commits in /repo, each with the unedited suite at `515 passed, 16 errors`. `known_findings.json` (\"fixed\")\nnames the obligation or bounded group that exposed each one; a fixed entry suppresses nothing. The column *exposed by* is\nthe property whose check failed first.\n\n| commit | exposed by | subject |\n|---|---|---|\n" + "\n".join(rows) + "\n"
d = defaultdict(list)
for f in k["findings"]:
    d[f["property"]].append(f.get("obligation") or "?")
out = [f"Open findings ({len(k['findings'])} entries; checks print `KNOWN-FINDING` and exit 0; each is identified by the exact obligation name or by\n`bounded:<group>`, so a different violation of the same property is still reported; `known_findings.json` has the witness\nand the reason each one is not repaired):\n"]
for p in sorted(d):
    out.append(f"* **{p}** ({len(d[p])}):")
    out += [f"  - `{o}`" for o in d[p]]
opn = "\n".join(out) + "\n"
p = os.path.join(VERIF, "DESIGN.md")
s = open(p).read()
for tag, text in (("FIXTABLE", fix), ("OPENFINDINGS", opn)):
    b, e = f"<!-- {tag}-BEGIN -->\n", f"<!-- {tag}-END -->\n"
    assert b in s and e in s, tag
    s = s[: s.index(b) + len(b)] + text + s[s.index(e):]
open(p, "w").write(s)
print(len(rows), "fix commits;", len(k["findings"]), "open findings")
