#!/bin/sh
# usage: tools/confirm_seed3.sh <agent> <k> <property>   -- confirm a second-batch seed in a fresh scratch checkout of /repo's HEAD
n=$1; k=$2; P=$3
ID=${n}_m$k; SRC=/tmp/wt3/out/$n/m$k
WT=$(mktemp -d /tmp/cfXXXXXX)
git -C /repo archive main | tar -x -C $WT
(cd /tmp && PYTHONPATH=$WT timeout 1200 /venv/bin/python $SRC/demo.py > /tmp/wt3/demo_$ID.pristine 2>&1); A=$?
(cd $WT && patch -p1 -s < $SRC/patch.diff) || { echo "$ID apply failed"; rm -rf $WT; exit 9; }
(cd /tmp && PYTHONPATH=$WT timeout 1200 /venv/bin/python $SRC/demo.py > /tmp/wt3/demo_$ID.patched 2>&1); B=$?
T=$(cd $WT && /venv/bin/python -m pytest -q -p no:cacheprovider --timeout=900 --continue-on-collection-errors 2>&1 | tail -1)
rm -rf $WT
OK=no
case "$T" in *"515 passed, 16 errors"*) case "$T" in *failed*) ;; *) [ "$A" = 0 ] && [ "$B" != 0 ] && OK=yes;; esac;; esac
echo "$ID pristine=$A patched=$B tests='$T' confirmed=$OK"
if [ $OK = yes ]; then D=/verif/seeded/$ID; mkdir -p $D; cp $SRC/patch.diff $SRC/demo.py $D/; cp $SRC/notes.md $D/ 2>/dev/null
python3 - "$ID" "$P" "$A" "$B" "$T" <<'PY'
import json,sys,os
id,prop,p,m,t=sys.argv[1:6]
notes=open(f"/verif/seeded/{id}/notes.md").read() if os.path.exists(f"/verif/seeded/{id}/notes.md") else ""
json.dump({"id":id,"breaks_property":prop,"needs_to_manifest":notes.strip(),"confirmed":{"demo_exit_pristine":int(p),"demo_exit_patched":int(m),"test_suite_with_patch":t.strip(),"how":"in a fresh scratch checkout of /repo's HEAD (git archive): PYTHONPATH=<copy> /venv/bin/python demo.py before and after applying patch.diff; the repository's baseline pytest command with the patch applied gives 515 passed + the 16 pre-existing collection errors of test_overlap.py, exactly as on the pristine tree"},"detected_by":[]},open(f"/verif/seeded/{id}/meta.json","w"),indent=1)
PY
fi
