"""qchemlog: guaranteed lot / run_type / obasis_name are None for legitimate $rem variants.

Q-Chem inputs may select the method with `exchange hf` instead of `method hf` and may omit
`jobtype` (the default job type is then used).  The reader only recognises the words
jobtype/method/basis in the echoed $rem block, yet declares lot, run_type and obasis_name
as guaranteed (the reader itself says "some sections might not be available").
"""
import os, sys, tempfile
from iodata import load_one
from iodata.formats import qchemlog

src = os.path.join(os.path.dirname(qchemlog.__file__), "..", "test", "data",
                   "water_hf_ccpvtz_freq_qchem.out")
with open(src) as fh:
    text = fh.read()
# Two one-line edits of the echoed user input, both valid Q-Chem $rem syntax:
assert "jobtype                 freq\n" in text and "method                  hf\n" in text
text = text.replace("jobtype                 freq\n", "")          # default job type
text = text.replace("method                  hf\n", "exchange                hf\n")

with tempfile.TemporaryDirectory() as tmp:
    fn = os.path.join(tmp, "water.qchemlog")
    with open(fn, "w") as fh:
        fh.write(text)
    mol = load_one(fn)  # selected through the pattern *.qchemlog
guaranteed = qchemlog.load_one.guaranteed
missing = [a for a in guaranteed if getattr(mol, a) is None]
print("guaranteed:", guaranteed)
print("loaded without error; guaranteed attributes that are None:", missing)
print("expected: none missing (or a LoadError)")
sys.exit(1 if missing else 0)
