"""Input writers declare 'spinmult', which is not an IOData attribute.

Statement: "The attribute names a format declares (and the generated documentation shows) exist".
"""
import sys
from iodata import IOData
from iodata.api import FORMAT_MODULES, INPUT_MODULES

attrs = {name for name in dir(IOData) if not name.startswith("_")}
status = 0
# all four operations of all format modules (these are clean today)
for name, module in FORMAT_MODULES.items():
    for op, lists in (("load_one", ("guaranteed", "ifpresent")), ("load_many", ("guaranteed", "ifpresent")),
                      ("dump_one", ("required", "optional")), ("dump_many", ("required", "optional"))):
        func = getattr(module, op, None)
        if func is None:
            continue
        for lst in lists:
            bad = [a for a in getattr(func, lst) if a not in attrs]
            if bad:
                print(f"formats.{name}.{op}.{lst}: not IOData attributes: {bad}")
                status = 1
# the input writers, found through the same kind of registry (api.py:95-133)
for name, module in INPUT_MODULES.items():
    func = module.write_input
    for lst in ("required", "optional"):
        bad = [a for a in getattr(func, lst) if a not in attrs]
        if bad:
            print(f"inputs.{name}.write_input.{lst} = {getattr(func, lst)}")
            print(f"   -> not IOData attributes: {bad}")
            shown = [a for a in bad if f"``{a}``" in func.__doc__]
            print(f"   -> shown in the generated docstring as attribute of data: {shown}")
            print(f"   -> hasattr(IOData(), {bad[0]!r}) = {hasattr(IOData(), bad[0])}")
            status = 1
print("expected: every declared name is an IOData attribute; observed: see above"
      if status else "all declared names exist")
sys.exit(status)
