"""GAMESS punch reader: guaranteed attributes missing for a punch file without $HESS / masses.

PUNCH files of energy or optimisation runs (no RUNTYP=HESSIAN) contain $DATA, the
coordinates, $VEC and $GRAD, but no $HESS group and no ATOMIC MASSES block.
The reader loads them without complaint, although it declares athessian and
atmasses (and energy/atgradient) as *guaranteed*.
"""
import os, sys, tempfile
from iodata import load_one
from iodata.formats import gamess

src = os.path.join(os.path.dirname(gamess.__file__), "..", "test", "data", "PCGamess_PUNCH.dat")
with open(src) as fh:
    lines = fh.readlines()
# keep everything up to and including the first $GRAD group (line 10583),
# i.e. exactly what an optimisation run punches before the hessian job.
first = lines[:10583]
# second variant: only $DATA + coordinates + $VEC (single-point energy punch)
second = lines[:10555]

status = 0
with tempfile.TemporaryDirectory() as tmp:
    for label, content in (("no $HESS, no ATOMIC MASSES", first), ("no $GRAD either", second)):
        fn = os.path.join(tmp, "punch.dat")
        with open(fn, "w") as fh:
            fh.writelines(content)
        mol = load_one(fn)  # selected by the pattern *.dat -> gamess
        missing = [a for a in gamess.load_one.guaranteed if getattr(mol, a) is None]
        print(f"[{label}] guaranteed = {gamess.load_one.guaranteed}")
        print(f"[{label}] loaded without error; guaranteed attributes that are None: {missing}")
        if missing:
            status = 1
print("expected: every guaranteed attribute set (or LoadError); observed: see above")
sys.exit(status)
