"""C01: a WFN file written without error for a molecule with a distant atom cannot be read back.

Statement (C01): "... the call either fails with an error or produces a file denoting the same
wavefunction: the same nuclei ... A file that IOData wrote without error is never one that IOData
itself cannot read back."

Input: H...H, two s-type shells, one doubly occupied (normalised) orbital, the second atom at
x = -100 bohr (a usual set-up for a size-consistency check).  The WFN writer prints coordinates
with a fixed {:12.8f} field, -100.00000000 needs 13 characters, the columns shift and the
fixed-column reader of IOData fails on the y coordinate.
"""
import os
import sys
import tempfile

import numpy as np

from iodata import IOData, dump_one, load_one
from iodata.basis import MolecularBasis, Shell
from iodata.formats.wfn import CONVENTIONS
from iodata.orbitals import MolecularOrbitals


def main():
    atcoords = np.array([[0.0, 0.0, 0.0], [-100.0, 0.5, 0.25]])
    shells = [Shell(0, [0], ["c"], [0.8], [[1.0]]), Shell(1, [0], ["c"], [0.8], [[1.0]])]
    obasis = MolecularBasis(shells, CONVENTIONS, "L2")
    # The two s functions are normalised and do not overlap: (1, 0) is a normalised orbital.
    mo = MolecularOrbitals("restricted", 1, 1, [2.0], np.array([[1.0], [0.0]]), [-0.5])
    data = IOData(atnums=[1, 1], atcoords=atcoords, obasis=obasis, mo=mo)
    bad = False
    with tempfile.TemporaryDirectory() as tmp:
        for fmt, ext in ("wfn", ".wfn"), ("wfx", ".wfx"), ("molden", ".molden"):
            fn = os.path.join(tmp, "far" + ext)
            dump_one(data, fn)  # no error
            print(f"{fmt}: dump_one succeeded")
            if fmt == "wfn":
                with open(fn) as fh:
                    print("   atom lines written:")
                    for line in fh.read().splitlines()[2:4]:
                        print("   |" + line)
            try:
                back = load_one(fn)
            except Exception as exc:  # noqa: BLE001
                print(f"   load_one FAILED: {type(exc).__name__}: {exc}")
                cause = exc.__cause__
                if cause is not None:
                    print(f"   caused by {type(cause).__name__}: {cause}")
                bad = True
                continue
            err = abs(back.atcoords - atcoords).max()
            print(f"   load_one ok, max coordinate error {err:.1e}")
            if err > 1e-6:
                bad = True
    print()
    print("demanded: every file written without error can be read back and has the same nuclei")
    print("observed:", "WFN file is unreadable (VIOLATION)" if bad else "all files read back")
    return 1 if bad else 0


if __name__ == "__main__":
    sys.exit(main())
