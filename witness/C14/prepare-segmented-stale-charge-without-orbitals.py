"""C14 (pre-dump preparation preserves the physics) / C09 (converted object: same electron count).

prepare_segmented(..., allow_changes=True) on an object WITHOUT orbitals copies the private
_charge of the caller's object into the constructor of the new object.  When that _charge is a
superseded left-over (here: from core charges that were assigned and then reset to the default),
the constructor lets it win over the stored number of electrons, so the returned object has a
different electron count and charge than the object that was passed in.  (The earlier repair only
covers objects that have orbitals; FCHK's dump_one reads atcorenums first and so does not reach
this, a direct call of the pre-dump preparation does.)
"""
import sys
import warnings

import numpy as np

from iodata import IOData
from iodata.basis import MolecularBasis, Shell
from iodata.convert import HORTON2_CONVENTIONS
from iodata.prepare import prepare_segmented
from iodata.utils import PrepareDumpWarning

# A basis with one generalized contraction (two s functions sharing two primitives).
shell = Shell(0, [0, 0], ["c", "c"], [1.0, 0.5], [[1.0, 0.3], [0.2, 1.0]])
obasis = MolecularBasis([shell], HORTON2_CONVENTIONS, "L2")

data = IOData(atnums=[3, 1], atcoords=[[0.0, 0.0, 0.0], [0.0, 0.0, 3.0]], nelec=3.0, obasis=obasis)
data.atcorenums = [3.0, 0.0]  # make the hydrogen a ghost atom ...
data.atcorenums = None  # ... and go back to the default core charges (the atomic numbers)

with warnings.catch_warnings(record=True) as wl:
    warnings.simplefilter("always")
    result = prepare_segmented(data, False, True, "demo.fchk", "FCHK")
print("PrepareDumpWarnings:", sum(issubclass(w.category, PrepareDumpWarning) for w in wl))
print("returned object is a new object:", result is not data)
print(f"caller's object : atcorenums={data.atcorenums.tolist()} nelec={data.nelec} charge={data.charge}")
print(f"returned object : atcorenums={result.atcorenums.tolist()} nelec={result.nelec} "
      f"charge={result.charge}")
print("statement demands: the converted object only differs in its (segmented) basis; "
      "same electron count (3.0) and charge (1.0)")
violated = result.nelec != data.nelec or result.charge != data.charge
print("VIOLATION reproduced" if violated else "no violation")
sys.exit(1 if violated else 0)
