"""C07 (consistent shapes): an FCHK file whose 'Cartesian Force Constants' count is changed
(count deflation 78 -> 66, one numeric field) loads without error into an IOData with
natom = 4 but athessian.shape = (11, 11) instead of (12, 12).
fchk.py:158-160 builds the Hessian from whatever triangle length is given; iodata.py validates
athessian only with validate_shape(None, None), never against natom."""
import os, re, sys, tempfile, warnings
import iodata
from iodata import load_one
from iodata.utils import LoadError

warnings.simplefilter("ignore")
src = os.path.join(os.path.dirname(iodata.__file__), "test", "data", "peroxide_tsopt.fchk")
lines = open(src).read().split("\n")
i = next(k for k, l in enumerate(lines) if l.startswith("Cartesian Force Constants"))
old = lines[i]
lines[i] = re.sub(r"N=\s+78", "N=          66", old)
assert lines[i] != old
fn = os.path.join(tempfile.mkdtemp(), "damaged.fchk")
with open(fn, "w") as f:
    f.write("\n".join(lines))
print("mutation          :", repr(old), "->", repr(lines[i]))
print("statement demands : LoadError, or an object whose arrays have mutually consistent shapes")
try:
    d = load_one(fn)
except LoadError as e:
    print("library           : LoadError:", e)
    sys.exit(0)
n = d.natom
print(f"library           : returned IOData with natom={n}, atcoords{d.atcoords.shape}, "
      f"atgradient{d.atgradient.shape}, athessian{d.athessian.shape} (3*natom = {3*n})")
bad = d.athessian.shape != (3 * n, 3 * n)
print("VIOLATION reproduced" if bad else "not reproduced")
sys.exit(1 if bad else 0)
