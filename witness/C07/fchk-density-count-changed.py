"""C07 (consistent shapes): FCHK 'Total SCF Density' count deflated 28 -> 21 (one numeric field).
load_one returns an IOData whose density matrix is 6x6 while the basis has 7 functions and
mo.coeffs is (7, 7).  fchk.py:218-226 (_load_dm/_triangle_to_dense) never compares with nbasis.
(Related to, but distinct from, the known missing basis-vs-orbital-count check.)"""
import os, re, sys, tempfile, warnings
import iodata
from iodata import load_one
from iodata.utils import LoadError

warnings.simplefilter("ignore")
src = os.path.join(os.path.dirname(iodata.__file__), "test", "data", "water_sto3g_hf_g03.fchk")
lines = open(src).read().split("\n")
i = next(k for k, l in enumerate(lines) if l.startswith("Total SCF Density"))
old = lines[i]
lines[i] = re.sub(r"N=\s+28", "N=          21", old)
assert lines[i] != old
fn = os.path.join(tempfile.mkdtemp(), "damaged.fchk")
with open(fn, "w") as f:
    f.write("\n".join(lines))
print("mutation          :", repr(old), "->", repr(lines[i]))
print("statement demands : LoadError, or an object whose arrays have mutually consistent shapes")
try:
    d = load_one(fn)
except LoadError as e:
    print("library           : LoadError:", e)
    sys.exit(0)
dm = d.one_rdms["scf"]
print(f"library           : returned IOData with obasis.nbasis={d.obasis.nbasis}, "
      f"mo.coeffs{d.mo.coeffs.shape}, one_rdms['scf']{dm.shape}")
bad = dm.shape != (d.obasis.nbasis, d.obasis.nbasis)
print("VIOLATION reproduced" if bad else "not reproduced")
sys.exit(1 if bad else 0)
