"""C07 (message: 'when a line is given, the number of the last line that was read'):
a damaged QCSchema JSON file.  json_qcschema.load_one reads the whole file through lit.fh
(json_qcschema.py:590), bypassing the line counter, so the LoadError produced by the funnel in
api.py:188-189 carries ':0' although all lines of the file were read (the damage is on line 4)."""
import os, re, sys, tempfile
from iodata import load_one
from iodata.utils import LoadError

text = '{\n "schema_name": "qcschema_molecule",\n "schema_version": 2,\n "symbols": ["H", "H",\n'
nlines = text.count("\n")
fn = os.path.join(tempfile.mkdtemp(), "cut.json")
with open(fn, "w") as f:
    f.write(text)
try:
    load_one(fn, fmt="json_qcschema")
    print("loaded?!"); sys.exit(0)
except LoadError as e:
    msg = str(e)
    print("statement demands : LoadError naming the file and, if a line is given, the last line read"
          f" (the file has {nlines} lines, all were read)")
    print("library           :", msg)
    print("                    cause:", repr(e.__cause__))
    m = re.search(r":(\d+)\)$", msg)
    bad = m is not None and int(m.group(1)) != nlines
    print("VIOLATION reproduced (line number given = %s)" % m.group(1) if bad else "not reproduced")
    sys.exit(1 if bad else 0)
