"""C15: a title of blanks is not stable in the CUBE, FCHK, WFN and WFX formats.

Statement: once an object has been saved and reloaded in some format, saving and
reloading it again returns a bit-identical object.

Input: any corpus object, with title=" " (a string of blanks is a legal title).
Cycle 1 strips the title to "", cycle 2 replaces "" by the default title of the writer
(``data.title or "<default>"``), so generation 1 != generation 2.
"""
import copy
import os
import sys
import tempfile
import warnings

import iodata
from iodata import dump_one, load_one

warnings.simplefilter("ignore")
DATA = os.path.join(os.path.dirname(iodata.__file__), "test", "data")
fchk_obj = load_one(os.path.join(DATA, "h2o_sto3g.fchk"))
wfn_obj = load_one(os.path.join(DATA, "h2o_sto3g.wfn"))
cube_obj = load_one(os.path.join(DATA, "cubegen_h2o_5points.cube"))

violated = False
with tempfile.TemporaryDirectory() as d:
    for fmt in ["cube", "fchk", "wfn", "wfx"]:
        obj = copy.deepcopy({"cube": cube_obj, "fchk": fchk_obj}.get(fmt, wfn_obj))
        obj.title = " "
        titles = []
        texts = []
        for k in range(1, 4):
            fn = os.path.join(d, f"gen{k}.{fmt}")
            dump_one(obj, fn, fmt=fmt)
            with open(fn) as fh:
                texts.append(fh.read())
            obj = load_one(fn, fmt=fmt)
            titles.append(obj.title)
        print(f"{fmt:5s} expected: title of generation 1 == generation 2 == generation 3")
        print(f"      observed: {titles!r}; file 2 == file 3: {texts[1] == texts[2]}")
        if titles[0] != titles[1]:
            violated = True
print("VIOLATION reproduced" if violated else "no violation")
sys.exit(1 if violated else 0)
