"""C15: WFN atom coordinates that need more than 12 characters drift on every cycle.

Statement: once an object has been saved and reloaded, saving and reloading it again
returns a bit-identical object (repeated conversion never drifts).

Input: the corpus file h2o_sto3g.wfn, translated by (-150, +120, +130) bohr, i.e. a molecule
that is not centred at the origin (about 60-80 angstrom away). The writer uses the Fortran
format 3F12.8 (wfn.py FMT_ATM) without checking the width: x = -154.447 needs 13 characters,
the fixed-column reader then reads y and z one column off. Every cycle makes the numbers
longer, so generation 1 != generation 2 (!= generation 0).
"""
import os
import sys
import tempfile
import warnings

import numpy as np

import iodata
from iodata import dump_one, load_one

warnings.simplefilter("ignore")
DATA = os.path.join(os.path.dirname(iodata.__file__), "test", "data")
obj = load_one(os.path.join(DATA, "h2o_sto3g.wfn"))
obj.atcoords = obj.atcoords + np.array([-150.0, 120.0, 130.0])
print("generation 0, atom 0:", obj.atcoords[0])
gens = []
with tempfile.TemporaryDirectory() as d:
    for k in range(1, 4):
        fn = os.path.join(d, f"gen{k}.wfn")
        dump_one(obj, fn)
        obj = load_one(fn)
        gens.append(obj.atcoords.copy())
        print(f"generation {k}, atom 0:", obj.atcoords[0])
print("expected: generation 1 == generation 2 (bit for bit)")
same = np.array_equal(gens[0], gens[1])
print("observed: generation 1 == generation 2:", same)
sys.exit(0 if same else 1)
