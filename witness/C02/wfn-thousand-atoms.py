"""WFN: from 1000 atoms on, the I3 atom-index / centre fields overflow and shift the coordinate columns; the file cannot be read back."""
import os
import sys
import tempfile
import warnings

import numpy as np

from iodata import IOData, dump_one, load_one

warnings.simplefilter("ignore")
TMP = tempfile.mkdtemp(prefix="c02demo_")


def path(name):
    return os.path.join(TMP, name)


def roundtrip(data, name, fmt=None, **kwargs):
    """dump_one + load_one; returns (loaded or None, exception or None, stage)."""
    fn = path(name)
    kw = dict(kwargs) if fmt is None else dict(kwargs, fmt=fmt)
    try:
        dump_one(data, fn, **kw)
    except Exception as exc:  # noqa: BLE001
        return None, exc, "dump"
    try:
        return load_one(fn, **kw), None, "load"
    except Exception as exc:  # noqa: BLE001
        return None, exc, "load"


def describe(exc):
    cause = exc.__cause__
    extra = f"  [cause: {type(cause).__name__}: {cause}]" if cause else ""
    return f"{type(exc).__name__}: {exc}" + extra


def finish(violated):
    print("VIOLATION REPRODUCED" if violated else "not reproduced")
    sys.exit(1 if violated else 0)


from iodata.basis import MolecularBasis, Shell
from iodata.convert import HORTON2_CONVENTIONS
from iodata.orbitals import MolecularOrbitals

n = 1000  # one s-type primitive per hydrogen atom, a single doubly occupied orbital
shells = [Shell(i, [0], ["c"], [1.0], [[1.0]]) for i in range(n)]
obasis = MolecularBasis(shells, HORTON2_CONVENTIONS, "L2")
atcoords = np.array([[3.0 * (i % 10), 3.0 * ((i // 10) % 10), 3.0 * (i // 100)] for i in range(n)])
coeffs = np.zeros((n, 1))
coeffs[0, 0] = 1.0
mo = MolecularOrbitals("restricted", 1, 1, [2.0], coeffs, [-0.5])
mol = IOData(atnums=[1] * n, atcoords=atcoords, obasis=obasis, mo=mo, energy=-1.0, title="1000 H")
out, exc, stage = roundtrip(mol, "big.wfn")
print("expected : WFN with 1000 atoms written -> load_one succeeds, coordinates and centre assignments unchanged")
if exc is not None:
    print(f"observed : {stage} failed: {describe(exc)}")
    lines = open(path("big.wfn")).read().splitlines()
    print("           atom 999 :", repr(lines[2 + 998]))
    print("           atom 1000:", repr(lines[2 + 999]))
    finish(stage == "load")
err = np.abs(out.atcoords - atcoords).max()
centers = [s.icenter for s in out.obasis.shells]
print("observed : max coordinate error", err, " last centres", centers[-3:])
finish(err > 1e-6 or centers != list(range(n)))
