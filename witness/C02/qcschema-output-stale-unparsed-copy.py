"""QCSchema output: load_one copies properties/return_result/success into extra['input']['unparsed'], and dump_one lets these stale copies overwrite the energy that is being written."""
import os
import sys
import tempfile
import warnings

import numpy as np

from iodata import IOData, dump_one, load_one

warnings.simplefilter("ignore")
TMP = tempfile.mkdtemp(prefix="c02demo_")


def path(name):
    return os.path.join(TMP, name)


def roundtrip(data, name, fmt=None, **kwargs):
    """dump_one + load_one; returns (loaded or None, exception or None, stage)."""
    fn = path(name)
    kw = dict(kwargs) if fmt is None else dict(kwargs, fmt=fmt)
    try:
        dump_one(data, fn, **kw)
    except Exception as exc:  # noqa: BLE001
        return None, exc, "dump"
    try:
        return load_one(fn, **kw), None, "load"
    except Exception as exc:  # noqa: BLE001
        return None, exc, "load"


def describe(exc):
    cause = exc.__cause__
    extra = f"  [cause: {type(cause).__name__}: {cause}]" if cause else ""
    return f"{type(exc).__name__}: {exc}" + extra


def finish(violated):
    print("VIOLATION REPRODUCED" if violated else "not reproduced")
    sys.exit(1 if violated else 0)


extra = {
    "schema_name": "qcschema_output",
    "molecule": {},
    "input": {"driver": "energy", "model": {}},
    "output": {"properties": {}, "success": True},
}
mol = IOData(atnums=[1, 1], atcoords=[[0, 0, 0], [0, 0, 1.4]], charge=0, spinpol=0,
             lot="hf", obasis_name="sto-3g", energy=-1.5, extra=extra)
first, exc, stage = roundtrip(mol, "e1.json", fmt="json_qcschema")
if exc is not None:
    print(f"first round trip {stage} failed: {describe(exc)}")
    finish(False)
print("after first reload: energy", first.energy, " extra['input']['unparsed'] =", first.extra["input"].get("unparsed"))
# The loaded object is updated with a new energy (e.g. a refined calculation) and written again.
first.energy = -2.5
first.extra["output"]["properties"] = {}
first.extra["output"].pop("return_result", None)
second, exc, stage = roundtrip(first, "e2.json", fmt="json_qcschema")
print("expected : energy -2.5 (the value of the object that was written) after reload")
if exc is not None:
    print(f"observed : {stage} failed: {describe(exc)}")
    finish(stage == "load")
print("observed : energy", second.energy, " return_result", second.extra["output"]["return_result"])
finish(second.energy != -2.5)
