"""QCSchema molecule: an object with all documented required attributes and extra['schema_name'] but no extra['molecule'] sub-dict is refused with KeyError."""
import os
import sys
import tempfile
import warnings

import numpy as np

from iodata import IOData, dump_one, load_one

warnings.simplefilter("ignore")
TMP = tempfile.mkdtemp(prefix="c02demo_")


def path(name):
    return os.path.join(TMP, name)


def roundtrip(data, name, fmt=None, **kwargs):
    """dump_one + load_one; returns (loaded or None, exception or None, stage)."""
    fn = path(name)
    kw = dict(kwargs) if fmt is None else dict(kwargs, fmt=fmt)
    try:
        dump_one(data, fn, **kw)
    except Exception as exc:  # noqa: BLE001
        return None, exc, "dump"
    try:
        return load_one(fn, **kw), None, "load"
    except Exception as exc:  # noqa: BLE001
        return None, exc, "load"


def describe(exc):
    cause = exc.__cause__
    extra = f"  [cause: {type(cause).__name__}: {cause}]" if cause else ""
    return f"{type(exc).__name__}: {exc}" + extra


def finish(violated):
    print("VIOLATION REPRODUCED" if violated else "not reproduced")
    sys.exit(1 if violated else 0)


mol = IOData(atnums=[1, 1], atcoords=[[0, 0, 0], [0, 0, 1.4]], charge=0, spinpol=0,
             title="h2", extra={"schema_name": "qcschema_molecule"})
out, exc, stage = roundtrip(mol, "h2.json", fmt="json_qcschema")
print("expected : atnums/atcoords/charge/spinpol (+schema_name, demanded by prepare_dump) suffice to write a molecule")
if exc is not None:
    print(f"observed : {stage} failed: {describe(exc)}")
    finish(True)
print("observed : written and reloaded, title", out.title)
finish(False)
