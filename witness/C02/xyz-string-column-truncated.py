"""XYZ with user-defined atom columns: a string column declared with dtype str is allocated as '<U1', so every label is silently truncated to its first character."""
import os
import sys
import tempfile
import warnings

import numpy as np

from iodata import IOData, dump_one, load_one

warnings.simplefilter("ignore")
TMP = tempfile.mkdtemp(prefix="c02demo_")


def path(name):
    return os.path.join(TMP, name)


def roundtrip(data, name, fmt=None, **kwargs):
    """dump_one + load_one; returns (loaded or None, exception or None, stage)."""
    fn = path(name)
    kw = dict(kwargs) if fmt is None else dict(kwargs, fmt=fmt)
    try:
        dump_one(data, fn, **kw)
    except Exception as exc:  # noqa: BLE001
        return None, exc, "dump"
    try:
        return load_one(fn, **kw), None, "load"
    except Exception as exc:  # noqa: BLE001
        return None, exc, "load"


def describe(exc):
    cause = exc.__cause__
    extra = f"  [cause: {type(cause).__name__}: {cause}]" if cause else ""
    return f"{type(exc).__name__}: {exc}" + extra


def finish(violated):
    print("VIOLATION REPRODUCED" if violated else "not reproduced")
    sys.exit(1 if violated else 0)


from iodata.formats.xyz import DEFAULT_ATOM_COLUMNS

columns = [
    *DEFAULT_ATOM_COLUMNS,
    # (attribute, key, shape, dtype, load_word, dump_word) as documented in iodata/formats/xyz.py
    ("atffparams", "attypes", (), str, str, str),
    ("atcharges", "resp", (), float, float, "{:10.5f}".format),
]
mol = IOData(
    atnums=[6, 1, 8], atcoords=np.zeros((3, 3)), title="labels",
    atffparams={"attypes": np.array(["CA", "HB2", "OXT"])}, atcharges={"resp": np.array([0.1, 0.2, -0.3])},
)
out, exc, stage = roundtrip(mol, "labels.xyz", atom_columns=columns)
print("expected : attypes ['CA' 'HB2' 'OXT'] after reload")
if exc is not None:
    print(f"observed : {stage} failed: {describe(exc)}")
    finish(stage == "load")
print("file     :", open(path("labels.xyz")).read().splitlines()[2:])
print("observed :", out.atffparams["attypes"], out.atcharges["resp"])
finish(list(out.atffparams["attypes"]) != ["CA", "HB2", "OXT"])
