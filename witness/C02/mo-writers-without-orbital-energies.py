"""All five wavefunction formats: MolecularOrbitals.energies is documented as optional, but an object without orbital energies is refused with a TypeError/AttributeError in the middle of writing."""
import os
import sys
import tempfile
import warnings

import numpy as np

from iodata import IOData, dump_one, load_one

warnings.simplefilter("ignore")
TMP = tempfile.mkdtemp(prefix="c02demo_")


def path(name):
    return os.path.join(TMP, name)


def roundtrip(data, name, fmt=None, **kwargs):
    """dump_one + load_one; returns (loaded or None, exception or None, stage)."""
    fn = path(name)
    kw = dict(kwargs) if fmt is None else dict(kwargs, fmt=fmt)
    try:
        dump_one(data, fn, **kw)
    except Exception as exc:  # noqa: BLE001
        return None, exc, "dump"
    try:
        return load_one(fn, **kw), None, "load"
    except Exception as exc:  # noqa: BLE001
        return None, exc, "load"


def describe(exc):
    cause = exc.__cause__
    extra = f"  [cause: {type(cause).__name__}: {cause}]" if cause else ""
    return f"{type(exc).__name__}: {exc}" + extra


def finish(violated):
    print("VIOLATION REPRODUCED" if violated else "not reproduced")
    sys.exit(1 if violated else 0)

from iodata.basis import MolecularBasis, Shell
from iodata.convert import HORTON2_CONVENTIONS
from iodata.orbitals import MolecularOrbitals
from iodata.overlap import compute_overlap


def lowdin(obasis, atcoords):
    """Return orthonormal orbitals (S^-1/2) for the given basis."""
    olp = compute_overlap(obasis, atcoords)
    w, v = np.linalg.eigh(olp)
    return v @ np.diag(w**-0.5) @ v.T


def small_wfn(atnums=(7, 1), kind="restricted", occs=None, shells=None, **kwargs):
    """A small but proper wavefunction: orthonormal orbitals in a tiny Gaussian basis."""
    atnums = np.array(atnums)
    atcoords = np.array([[0.0, 0.0, 1.3 * i] for i in range(len(atnums))])
    if shells is None:
        shells = [
            Shell(0, [0], ["c"], [5.0, 1.0], [[0.4], [0.7]]),
            Shell(0, [1], ["c"], [1.5], [[1.0]]),
            Shell(1, [0], ["c"], [0.8], [[1.0]]),
        ]
    obasis = MolecularBasis(shells, HORTON2_CONVENTIONS, "L2")
    nb = obasis.nbasis
    coeffs = lowdin(obasis, atcoords)
    nel = int(atnums.sum())
    if kind == "restricted":
        if occs is None:
            occs = np.zeros(nb)
            occs[: nel // 2] = 2.0
            if nel % 2:
                occs[nel // 2] = 1.0
        mo = MolecularOrbitals("restricted", nb, nb, occs, coeffs, np.linspace(-3, 2, nb))
    else:
        if occs is None:
            occs = np.zeros(2 * nb)
            occs[: (nel + 1) // 2] = 1
            occs[nb : nb + nel // 2] = 1
        mo = MolecularOrbitals(
            "unrestricted", nb, nb, occs, np.hstack([coeffs, coeffs]),
            np.concatenate([np.linspace(-3, 2, nb), np.linspace(-2.9, 2.1, nb)]),
        )
    return IOData(atnums=atnums, atcoords=atcoords, obasis=obasis, mo=mo, **kwargs)


violated = False
print("expected : an object with atcoords, atnums, obasis and mo (the documented required attributes) is written")
for ext in ["fchk", "molden", "mkl", "wfn", "wfx"]:
    mol = small_wfn()
    mol.mo.energies = None
    out, exc, stage = roundtrip(mol, "noene." + ext)
    if exc is not None:
        print(f"observed : {ext:6}: {stage} failed: {describe(exc)}")
        violated |= stage == "dump"
    else:
        print(f"observed : {ext:6}: ok, energies {out.mo.energies}")
finish(violated)
