"""PDB: a residue number >= 10000 (5 digits) shifts all later columns; the file cannot be read back."""
import os
import sys
import tempfile
import warnings

import numpy as np

from iodata import IOData, dump_one, load_one

warnings.simplefilter("ignore")
TMP = tempfile.mkdtemp(prefix="c02demo_")


def path(name):
    return os.path.join(TMP, name)


def roundtrip(data, name, fmt=None, **kwargs):
    """dump_one + load_one; returns (loaded or None, exception or None, stage)."""
    fn = path(name)
    kw = dict(kwargs) if fmt is None else dict(kwargs, fmt=fmt)
    try:
        dump_one(data, fn, **kw)
    except Exception as exc:  # noqa: BLE001
        return None, exc, "dump"
    try:
        return load_one(fn, **kw), None, "load"
    except Exception as exc:  # noqa: BLE001
        return None, exc, "load"


def describe(exc):
    cause = exc.__cause__
    extra = f"  [cause: {type(cause).__name__}: {cause}]" if cause else ""
    return f"{type(exc).__name__}: {exc}" + extra


def finish(violated):
    print("VIOLATION REPRODUCED" if violated else "not reproduced")
    sys.exit(1 if violated else 0)


from iodata.utils import angstrom

n = 3
mol = IOData(
    atnums=[18] * n,
    atcoords=np.array([[1.0, 2.0, 3.0], [4.0, 5.0, 6.0], [7.0, 8.0, 9.0]]) * angstrom,
    atffparams={
        "attypes": np.array(["AR"] * n),
        "restypes": np.array(["ARG"] * n),
        "resnums": np.array([9998, 9999, 10000]),
    },
    title="argon box, one residue per atom",
)
out, exc, stage = roundtrip(mol, "resnum.pdb")
print("expected : PDB written -> load_one succeeds, resnums [9998 9999 10000], coords unchanged")
if exc is not None:
    print(f"observed : {stage} failed: {describe(exc)}")
    if stage == "load":
        print("file line:", open(path("resnum.pdb")).read().splitlines()[3])
    finish(stage == "load")
bad = not (out.atffparams["resnums"] == [9998, 9999, 10000]).all() or not np.allclose(
    out.atcoords, mol.atcoords, atol=1e-3
)
print("observed :", out.atffparams["resnums"], out.atcoords / angstrom)
finish(bad)
