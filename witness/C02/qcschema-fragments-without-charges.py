"""QCSchema molecule: extra['molecule']['fragments'] with only 'indices' (exactly what load_one produces for a file with 'fragments' but no fragment charges) makes dump_one die with KeyError."""
import os
import sys
import tempfile
import warnings

import numpy as np

from iodata import IOData, dump_one, load_one

warnings.simplefilter("ignore")
TMP = tempfile.mkdtemp(prefix="c02demo_")


def path(name):
    return os.path.join(TMP, name)


def roundtrip(data, name, fmt=None, **kwargs):
    """dump_one + load_one; returns (loaded or None, exception or None, stage)."""
    fn = path(name)
    kw = dict(kwargs) if fmt is None else dict(kwargs, fmt=fmt)
    try:
        dump_one(data, fn, **kw)
    except Exception as exc:  # noqa: BLE001
        return None, exc, "dump"
    try:
        return load_one(fn, **kw), None, "load"
    except Exception as exc:  # noqa: BLE001
        return None, exc, "load"


def describe(exc):
    cause = exc.__cause__
    extra = f"  [cause: {type(cause).__name__}: {cause}]" if cause else ""
    return f"{type(exc).__name__}: {exc}" + extra


def finish(violated):
    print("VIOLATION REPRODUCED" if violated else "not reproduced")
    sys.exit(1 if violated else 0)


import json

# 1) a valid qcschema_molecule file with fragments but without fragment_charges/multiplicities
src = {
    "schema_name": "qcschema_molecule", "schema_version": 2,
    "symbols": ["He", "Ne"], "geometry": [0, 0, 0, 0, 0, 6.0],
    "molecular_charge": 0, "molecular_multiplicity": 1,
    "fragments": [[0], [1]],
    "provenance": {"creator": "demo"},
}
with open(path("frag_in.json"), "w") as fh:
    json.dump(src, fh)
mol = load_one(path("frag_in.json"), fmt="json_qcschema")
print("loaded extra['molecule']['fragments'] =", mol.extra["molecule"]["fragments"])
out, exc, stage = roundtrip(mol, "frag_out.json", fmt="json_qcschema")
print("expected : the loaded object can be written again and the fragments are reproduced")
if exc is not None:
    print(f"observed : {stage} failed: {describe(exc)}")
    finish(True)
frs = [f.tolist() for f in out.extra["molecule"]["fragments"]["indices"]]
print("observed : fragments", frs)
finish(frs != [[0], [1]])
