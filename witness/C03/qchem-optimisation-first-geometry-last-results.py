#!/usr/bin/env python3
"""C03 demo 4 -- Q-Chem geometry optimisation: geometry of the FIRST step is returned together
with energy / orbital energies / charges / moments of the LAST step, and every later geometry
is filed under extra['frags'] as if it were an EDA fragment.

Q-Chem prints, for every optimisation cycle, the block
    Standard Nuclear Orientation (Angstroms) ... Nuclear Repulsion Energy ... There are N alpha ...
followed by the SCF of that geometry.  The coordinates that belong to the reported final
energy are those of the last block.

iodata/formats/qchemlog.py:load_qchemlog_low keeps the first orientation block
("... and 'atcoords' not in data", comment: make sure multi-step jobs do not overwrite this)
but overwrites energy, MO energies, Mulliken charges and multipoles with every new SCF.  The
second and later orientation blocks go to data['frags'] (meant for EDA fragment jobs).

The file below is the corpus output water_hf_ccpvtz_freq_qchem.out cut after the first SCF and
continued with a second optimisation cycle in the layout Q-Chem 5.x uses (jobtype opt).
"""
import os
import re
import sys
import tempfile
import warnings

import numpy as np

from iodata import load_one
from iodata.utils import angstrom

DATA = os.path.join(
    os.path.dirname(__import__("iodata").__file__), "test", "data", "water_hf_ccpvtz_freq_qchem.out"
)
with open(DATA) as fh:
    text = fh.read().split("\n")

# 0-based line indices in the corpus file
i_orient = next(i for i, l in enumerate(text) if "Standard Nuclear Orientation" in l) - 1
i_polar = next(i for i, l in enumerate(text) if l.startswith(" Calculating MO derivatives"))
head = text[:i_orient]                     # banner, user input with $rem
cycle1 = text[i_orient:i_polar]            # orientation + SCF + MO energies + charges + moments
head = [re.sub(r"^jobtype(\s+)freq", r"jobtype\1opt ", l) for l in head]

# Second optimisation cycle: new geometry, new energy (everything else as Q-Chem would reprint it)
GEOM2 = [
    ("O", 0.0100000000, 0.0080000000, -0.0050000000),
    ("H", 0.2700000000, 0.8700000000, 0.2450000000),
    ("H", 0.5900000000, -0.2300000000, -0.6950000000),
]
E1, E2 = "-76.0571936393", "-76.0573112345"
cycle2 = list(cycle1)
k = next(i for i, l in enumerate(cycle2) if "Standard Nuclear Orientation" in l) + 3
for j, (sym, x, y, z) in enumerate(GEOM2):
    cycle2[k + j] = f"    {j + 1}      {sym}    {x:15.10f}  {y:15.10f}  {z:15.10f}"
cycle2 = [l.replace(E1, E2) for l in cycle2]
between = [
    " Gradient of SCF Energy",
    "            1           2           3",
    "    1  -0.0010512   0.0004211   0.0006301",
    "    2  -0.0013217   0.0011011  -0.0015312",
    "    3   0.0007120  -0.0012522   0.0006311",
    " Max gradient component =       1.531E-03",
    "",
    "   Optimization Cycle:   1",
    "   Energy is     -76.057193639",
    "",
    "   Optimization Cycle:   2",
]
tail = [
    "   Energy is     -76.057311235",
    "",
    "                       **  OPTIMIZATION CONVERGED  **",
    "",
    "        *  Thank you very much for using Q-Chem.  Have a nice day.  *",
    "",
]
with tempfile.TemporaryDirectory() as dn:
    fn = os.path.join(dn, "water_opt.out")
    with open(fn, "w") as fh:
        fh.write("\n".join(head + cycle1 + between + cycle2 + tail))
    with warnings.catch_warnings():
        warnings.simplefilter("ignore")
        mol = load_one(fn, fmt="qchemlog")

expected = np.array([g[1:] for g in GEOM2]) * angstrom
print("run_type:", mol.run_type)
print("energy returned            :", mol.energy, f"(last cycle prints {E2})")
print("expected atcoords (Angstrom, last cycle, the one the energy belongs to):")
print(expected / angstrom)
print("observed atcoords (Angstrom):")
print(mol.atcoords / angstrom)
frags = mol.extra.get("frags")
print("extra['frags'] (EDA fragments) holds", 0 if frags is None else len(frags),
      "entry: the last-cycle geometry" if frags else "")
bad = abs(mol.energy - float(E2)) < 1e-9 and not np.allclose(mol.atcoords, expected, atol=1e-6)
if bad:
    print("VIOLATION: energy of the last optimisation cycle is paired with the geometry of the first")
    sys.exit(1)
print("not reproduced")
sys.exit(0)
