#!/usr/bin/env python3
"""C03 demo 12 -- Q-Chem output whose $rem block does not spell out UNRESTRICTED cannot be loaded.

Q-Chem manual, $rem variable UNRESTRICTED: optional, "DEFAULT: FALSE (closed-shell systems),
TRUE (open-shell systems)".  Most inputs omit it; the echoed "User input" section of the
output then has no such line.

iodata/formats/qchemlog.py: load_qchemlog_low evaluates data["unrestricted"] when it meets
"Orbital Energies (a.u.)" (and load_one does so again) -> KeyError('unrestricted').
The file below is the corpus output water_hf_ccpvtz_freq_qchem.out with the single $rem line
"unrestricted 1" removed (the output body still says "A unrestricted SCF calculation ...").
"""
import os
import re
import sys
import tempfile
import warnings

from iodata import load_one

DATA = os.path.join(
    os.path.dirname(__import__("iodata").__file__), "test", "data", "water_hf_ccpvtz_freq_qchem.out"
)
with open(DATA) as fh:
    text = fh.read()
text, nsub = re.subn(r"\nunrestricted\s+1\n", "\n", text)
assert nsub == 1
with tempfile.TemporaryDirectory() as dn:
    fn = os.path.join(dn, "water.out")
    with open(fn, "w") as fh:
        fh.write(text)
    print("expected: energy -76.0571936393, 3 atoms, orbital energies, ... as for the corpus file")
    try:
        with warnings.catch_warnings():
            warnings.simplefilter("ignore")
            mol = load_one(fn, fmt="qchemlog")
    except Exception as exc:  # noqa: BLE001
        print(f"observed: {type(exc).__name__}: {exc}  [cause: {exc.__cause__!r}]")
        print("VIOLATION: optional $rem keyword absent -> file rejected")
        sys.exit(1)
print("observed energy:", mol.energy)
sys.exit(0)
