#!/usr/bin/env python3
"""C03 demo 8 -- point-group labels are filed under g_rot, the rotational symmetry NUMBER.

IOData.g_rot is documented (iodata/iodata.py) as "The rotational symmetry number of the
molecule" (type Optional[float]); the Q-Chem reader fills it from the line
"Rotational Symmetry Number is 1" (water_hf_ccpvtz_freq_qchem.out -> g_rot == 1).

* GAMESS punch file: the second line of $DATA is the point group card "C1" / "CNV 2" / "DNH 6"
  (GAMESS manual, $DATA group, card -2-: GROUP, NAXIS).
  iodata/formats/gamess.py:_read_data returns this word and load_one stores it as g_rot.
* QCSchema molecule: "fix_symmetry": "Maximal point group symmetry which geometry should be
  treated" (a string such as "c2v").  iodata/formats/json_qcschema.py stores it as g_rot
  (and the writer emits g_rot as fix_symmetry).

So the record "point group" is mapped to the attribute "rotational symmetry number":
one gets a number from Q-Chem, the string 'C1' from GAMESS and the string 'c2v' from QCSchema.
"""
import json
import os
import sys
import tempfile
import warnings

from iodata import load_one

DATA = os.path.join(os.path.dirname(__import__("iodata").__file__), "test", "data")
warnings.simplefilter("ignore")

qchem = load_one(os.path.join(DATA, "water_hf_ccpvtz_freq_qchem.out"), fmt="qchemlog")
gamess = load_one(os.path.join(DATA, "PCGamess_PUNCH.dat"))
qcs = {
    "schema_name": "qcschema_molecule",
    "schema_version": 2,
    "symbols": ["O", "H", "H"],
    "geometry": [0.0, 0.0, 0.2217, 0.0, 1.4309, -0.8867, 0.0, -1.4309, -0.8867],
    "molecular_charge": 0,
    "molecular_multiplicity": 1,
    "fix_symmetry": "c2v",
}
with tempfile.TemporaryDirectory() as dn:
    fn = os.path.join(dn, "water.json")
    with open(fn, "w") as fh:
        json.dump(qcs, fh)
    qcschema = load_one(fn, fmt="json_qcschema")

print("attribute doc: g_rot = rotational symmetry number (a number)")
print("Q-Chem   'Rotational Symmetry Number is 1' -> g_rot =", repr(qchem.g_rot))
print("GAMESS   $DATA point-group card 'C1'        -> g_rot =", repr(gamess.g_rot))
print("QCSchema fix_symmetry 'c2v'                 -> g_rot =", repr(qcschema.g_rot))
bad = [x for x in (gamess.g_rot, qcschema.g_rot) if not isinstance(x, (int, float))]
if bad:
    print("VIOLATION: point-group labels", bad, "stored in the rotational-symmetry-number attribute")
    sys.exit(1)
print("not reproduced")
sys.exit(0)
