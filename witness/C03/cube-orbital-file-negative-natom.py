#!/usr/bin/env python3
"""C03 demo 10 -- Gaussian cube files for molecular orbitals (NAtoms < 0) are rejected.

Gaussian cube layout (gaussian.com/cubegen): "NAtoms, X-Origin, Y-Origin, Z-Origin, NVal";
if NAtoms is NEGATIVE the file holds orbitals: the |NAtoms| atom records are followed by one
extra record "NMO, (MO(i), i=1,NMO)" and every grid point carries NMO values.  This is what
`cubegen 0 MO=Homo ...` always writes.

iodata/formats/cube.py:_read_cube_header uses the signed count directly, np.zeros(natom, int)
-> ValueError("negative dimensions are not allowed"); the optional MO record is unknown to
the reader.
"""
import os
import sys
import tempfile

import numpy as np

from iodata import load_one

vals = np.arange(1, 9) * 0.01  # 2 x 2 x 2 grid, one MO
CUBE = "\n".join(
    [
        " h2o MO=5",
        " MO coefficients",
        f"{-3:5d}{-1.0:12.6f}{-1.0:12.6f}{-1.0:12.6f}{1:5d}",
        f"{2:5d}{2.0:12.6f}{0.0:12.6f}{0.0:12.6f}",
        f"{2:5d}{0.0:12.6f}{2.0:12.6f}{0.0:12.6f}",
        f"{2:5d}{0.0:12.6f}{0.0:12.6f}{2.0:12.6f}",
        f"{8:5d}{8.0:12.6f}{0.0:12.6f}{0.0:12.6f}{0.221:12.6f}",
        f"{1:5d}{1.0:12.6f}{0.0:12.6f}{1.431:12.6f}{-0.887:12.6f}",
        f"{1:5d}{1.0:12.6f}{0.0:12.6f}{-1.431:12.6f}{-0.887:12.6f}",
        f"{1:5d}{5:5d}",  # NMO = 1, MO number 5
        "".join(f"{v:13.5E}" for v in vals[0:2]),
        "".join(f"{v:13.5E}" for v in vals[2:4]),
        "".join(f"{v:13.5E}" for v in vals[4:6]),
        "".join(f"{v:13.5E}" for v in vals[6:8]),
        "",
    ]
)
with tempfile.TemporaryDirectory() as dn:
    fn = os.path.join(dn, "h2o_mo5.cube")
    with open(fn, "w") as fh:
        fh.write(CUBE)
    print("expected: 3 atoms (O, H, H), cube.data.shape == (2, 2, 2), data[0,0,1] == 0.02")
    try:
        mol = load_one(fn)
    except Exception as exc:  # noqa: BLE001
        print(f"observed: {type(exc).__name__}: {exc}  [cause: {exc.__cause__!r}]")
        print("VIOLATION: a standard cubegen MO cube cannot be loaded")
        sys.exit(1)
ok = mol.natom == 3 and mol.cube.data.shape == (2, 2, 2) and abs(mol.cube.data[0, 0, 1] - 0.02) < 1e-9
print("observed:", mol.atnums, mol.cube.data.ravel())
sys.exit(0 if ok else 1)
