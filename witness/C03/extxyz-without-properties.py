#!/usr/bin/env python3
"""C03 demo 13 -- extended XYZ without a Properties key is rejected.

Extended XYZ specification (libAtoms / ASE): "Properties ... If it is not present, it
defaults to  species:S:1:pos:R:3", so a comment line that only carries Lattice=... (or
energy=..., pbc=...) is well-formed.

iodata/formats/extxyz.py:_parse_title assigns atom_columns only when it meets the key
"Properties" and then returns it -> UnboundLocalError, surfaced as LoadError.
"""
import os
import sys
import tempfile

import numpy as np

from iodata import load_one
from iodata.utils import angstrom

XYZ = """\
2
Lattice="5.0 0.0 0.0 0.0 5.0 0.0 0.0 0.0 5.0" pbc="T T T"
H 0.0 0.0 0.00
H 0.0 0.0 0.74
"""
with tempfile.TemporaryDirectory() as dn:
    fn = os.path.join(dn, "h2.extxyz")
    with open(fn, "w") as fh:
        fh.write(XYZ)
    print("expected: atnums [1, 1], z(H2) = 0.74 A, cellvecs = 5 A * identity")
    try:
        mol = load_one(fn)
    except Exception as exc:  # noqa: BLE001
        print(f"observed: {type(exc).__name__}: {exc}  [cause: {exc.__cause__!r}]")
        print("VIOLATION: default Properties not applied -> file rejected")
        sys.exit(1)
ok = mol.atnums.tolist() == [1, 1] and np.allclose(mol.cellvecs, 5 * angstrom * np.eye(3))
print("observed:", mol.atnums, mol.atcoords / angstrom)
sys.exit(0 if ok else 1)
