#!/usr/bin/env python3
"""C03 demo 9 -- GRO: well-formed files are rejected (a) when the optional velocity columns are
absent and (b) when the title carries "t= <time> step= <n>" as written by gmx trjconv.

GROMACS reference manual, file formats, "gro":
  * atom line, C format "%5d%-5s%5s%5d%8.3f%8.3f%8.3f%8.4f%8.4f%8.4f";
    "velocity (in nm/ps, x y z in 3 columns, each 4 decimal places)" is OPTIONAL -- files written
    by gmx editconf / pdb2gmx / solvate carry positions only.
  * title line: "free format string, optional time in ps after 't='"; trajectory frames written
    by gmx trjconv read  "<title> t= %9.5f step= %d".

iodata/formats/gromacs.py:_helper_read_frame indexes words[3:6] unconditionally (IndexError) and
evaluates float(line.split("t=")[1]) on "   1.00000 step= 500" (ValueError).
The C03 statement promises correct values "for any well-formed file, including ... optional
sections that are absent"; here no object is returned at all.
"""
import os
import sys
import tempfile

import numpy as np

from iodata import load_one
from iodata.utils import nanometer, picosecond

NO_VELOCITIES = """\
Water written by gmx editconf
    3
    1SOL     OW    1   0.126   1.624   1.679
    1SOL    HW1    2   0.190   1.661   1.747
    1SOL    HW2    3   0.177   1.568   1.613
   1.86206   1.86206   1.86206
"""
TRJCONV_TITLE = """\
Water in a box t=   1.00000 step= 500
    3
    1SOL     OW    1   0.126   1.624   1.679  0.1227 -0.0580  0.0434
    1SOL    HW1    2   0.190   1.661   1.747  0.8085  0.3191 -0.7791
    1SOL    HW2    3   0.177   1.568   1.613 -0.9045 -2.6469  1.3180
   1.86206   1.86206   1.86206
"""
failures = 0
with tempfile.TemporaryDirectory() as dn:
    for name, text, check in [
        ("no_velocities.gro", NO_VELOCITIES,
         lambda m: np.allclose(m.atcoords[0], np.array([0.126, 1.624, 1.679]) * nanometer, atol=1e-5)),
        ("trjconv_title.gro", TRJCONV_TITLE,
         lambda m: abs(m.extra["time"] - 1.0 * picosecond) < 1e-6),
    ]:
        fn = os.path.join(dn, name)
        with open(fn, "w") as fh:
            fh.write(text)
        print(f"{name}: expected a loaded frame (positions 0.126 1.624 1.679 nm, time 1 ps)")
        try:
            mol = load_one(fn)
            ok = check(mol)
            print("   loaded, values correct:", ok)
            failures += not ok
        except Exception as exc:  # noqa: BLE001
            print(f"   observed {type(exc).__name__}: {exc}  [cause: {exc.__cause__!r}]")
            failures += 1
if failures:
    print("VIOLATION: well-formed GRO files cannot be loaded")
    sys.exit(1)
print("not reproduced")
sys.exit(0)
