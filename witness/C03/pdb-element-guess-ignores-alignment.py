#!/usr/bin/env python3
"""C03 demo 5 -- PDB: chemical element derived from the atom name without honouring the
column alignment the format prescribes; alpha carbons load as calcium.

wwPDB format v3.3, ATOM record: columns 13-16 "Atom name"; the element symbol is
right-justified in columns 13-14, so " CA " (col 14-15) is the alpha CARBON of a residue and
"CA  " (col 13-14) is a CALCIUM ion.  Columns 77-78 (element) are blank in files written by
CHARMM, older GROMACS/AMBER tools, PDB v2.x writers, etc.; the alignment rule is what makes
such files unambiguous.

iodata/formats/pdb.py:_parse_pdb_atom_line strips the name (line[12:16].strip()) and tries
sym2num[name], sym2num[name[:2].title()], sym2num[name[0]] in that order -> " CA " -> "Ca".
Only a generic "guessing" warning is emitted, and the wrong atomic numbers are returned.
"""
import os
import sys
import tempfile
import warnings

from iodata import load_one

#         1         2         3         4         5         6         7
# 23456789012345678901234567890123456789012345678901234567890123456789012345678
PDB = """\
TITLE     SER-ARG FRAGMENT WRITTEN BY CHARMM (NO ELEMENT COLUMNS)
ATOM      1  N   SER A   1       0.000   0.000   0.000  1.00  0.00      PROA
ATOM      2  CA  SER A   1       1.450   0.000   0.000  1.00  0.00      PROA
ATOM      3  CB  SER A   1       2.000  -0.700   1.200  1.00  0.00      PROA
ATOM      4  OG  SER A   1       3.400  -0.700   1.250  1.00  0.00      PROA
ATOM      5  HG  SER A   1       3.700  -1.150   2.050  1.00  0.00      PROA
ATOM      6  CD  ARG A   2       5.000   1.000   0.000  1.00  0.00      PROA
ATOM      7  NE  ARG A   2       6.200   1.800   0.000  1.00  0.00      PROA
ATOM      8  HE  ARG A   2       6.200   2.800   0.000  1.00  0.00      PROA
HETATM    9 CA    CA A   3      10.000  10.000  10.000  1.00  0.00      HETA
END
"""
# By alignment: N C C O H C N H Ca
EXPECTED = [7, 6, 6, 8, 1, 6, 7, 1, 20]

with tempfile.TemporaryDirectory() as dn:
    fn = os.path.join(dn, "frag.pdb")
    with open(fn, "w") as fh:
        fh.write(PDB)
    with warnings.catch_warnings(record=True) as caught:
        warnings.simplefilter("always")
        mol = load_one(fn)

observed = [int(n) for n in mol.atnums]
print("atom names (cols 13-16):", [repr(l[12:16]) for l in PDB.split("\n") if l[:4] in ("ATOM", "HETA")])
print("expected atnums:", EXPECTED, "(element right-justified in cols 13-14)")
print("observed atnums:", observed)
print("warnings:", len(caught), "x", sorted({str(w.message).split(" (")[0] for w in caught}))
# Second exhibit: the corpus file 2luv.pdb (a real NMR structure: C, H, N, O, S only).  Its
# hydrogens have blank element columns and names such as " HG1", " HE2" (H in column 14).
import numpy as np

corpus = os.path.join(os.path.dirname(__import__("iodata").__file__), "test", "data", "2luv.pdb")
with warnings.catch_warnings():
    warnings.simplefilter("ignore")
    mol2 = load_one(corpus)
nums, counts = np.unique(mol2.atnums, return_counts=True)
print("corpus 2luv.pdb (peptide, elements C H N O S): loaded atnums -> counts",
      dict(zip(nums.tolist(), counts.tolist())), " i.e. 59 Hg and 27 He atoms")
if observed != EXPECTED or 80 in nums:
    print("VIOLATION: ' CA ' -> Ca(20), ' OG ' -> Og(118), ' HG ' -> Hg(80), ' CD ' -> Cd(48), "
          "' NE ' -> Ne(10), ' HE ' -> He(2)")
    sys.exit(1)
print("not reproduced")
sys.exit(0)
