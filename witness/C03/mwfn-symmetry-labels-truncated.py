#!/usr/bin/env python3
"""C03 demo 6 -- MWFN: orbital symmetry labels are truncated to their first character.

Multiwfn manual, section 2.5 (description of the .mwfn format), "# Orbital information": every orbital has
    Index= , Type= , Energy= , Occ= , Sym= <irreducible representation label or ?>
Multiwfn writes e.g. "Sym= A1", "Sym= B2", "Sym= A1g" when the label is known (input from
.molden / .gms / ORCA) and "Sym= ?" otherwise (all corpus files).

iodata/formats/mwfn.py:_load_helper_mo allocates "mo_sym": np.empty(n_mo, str), i.e. dtype
'<U1', so assigning "A1" stores "A"; A1 and A2 (or B1/B2, Ag/Au) become indistinguishable in
extra['mo_sym'].
"""
import os
import sys
import tempfile
import warnings

from iodata import load_one

DATA = os.path.join(
    os.path.dirname(__import__("iodata").__file__), "test", "data", "ch3_hf_sto3g_fchk_multiwfn3.7.mwfn"
)
LABELS = ["A1", "A1", "B2", "A1", "B1", "A2", "B2", "A1"]  # cycled over the orbitals
with open(DATA) as fh:
    lines = fh.read().split("\n")
expected = []
for i, line in enumerate(lines):
    if line.startswith("Sym="):
        label = LABELS[len(expected) % len(LABELS)]
        lines[i] = f"Sym= {label}"
        expected.append(label)

with tempfile.TemporaryDirectory() as dn:
    fn = os.path.join(dn, "ch3_sym.mwfn")
    with open(fn, "w") as fh:
        fh.write("\n".join(lines))
    with warnings.catch_warnings():
        warnings.simplefilter("ignore")
        mol = load_one(fn)

observed = [str(s) for s in mol.extra["mo_sym"]]
print("expected extra['mo_sym']:", expected)
print("observed extra['mo_sym']:", observed, "dtype", mol.extra["mo_sym"].dtype)
if observed != expected:
    print("VIOLATION: irrep labels cut to one character (A1 == A2, B1 == B2)")
    sys.exit(1)
print("not reproduced")
sys.exit(0)
