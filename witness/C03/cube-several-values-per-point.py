#!/usr/bin/env python3
"""C03 demo 2 -- Gaussian cube with NVal > 1 (cubegen "density + gradient"): values are
silently attached to the wrong grid points.

Gaussian cube layout (gaussian.com/cubegen, "Format of the cube file"):
    line 3:  NAtoms, X-Origin, Y-Origin, Z-Origin, NVal
    data  :  for each (i1, i2): (V(ival, i3), ival=1..NVal), i3=1..N3   written 6E13.5
NVal is the number of values stored per grid point: 1 for a plain density/potential, 4 for
`cubegen ... Density=SCF ... ` with the Gradient option (rho, d/dx, d/dy, d/dz), 5 with Laplacian.

iodata/formats/cube.py:read_grid_line drops the fifth field of line 3 and _read_cube_data
reads only N1*N2*N3 numbers as a flat stream, so for NVal=4 the "density" at point
(i1,i2,i3) is filled with whatever number happens to sit at stream position
(i1*N2+i2)*N3+i3 -- gradient components of other points -- and 3/4 of the file is ignored.
No error, no warning.
"""
import os
import sys
import tempfile

import numpy as np

from iodata import load_one

N1, N2, N3, NVAL = 2, 2, 3, 4
rng = np.random.default_rng(42)
rho = rng.uniform(0.1, 0.9, (N1, N2, N3))            # value 1: the density
grad = rng.uniform(-0.05, 0.05, (N1, N2, N3, 3)) - 5  # values 2-4: clearly different numbers

lines = [
    " water density+gradient",
    " Electron density and gradient from Total SCF Density",
    f"{1:5d}{0.0:12.6f}{0.0:12.6f}{0.0:12.6f}{NVAL:5d}",
    f"{N1:5d}{0.5:12.6f}{0.0:12.6f}{0.0:12.6f}",
    f"{N2:5d}{0.0:12.6f}{0.5:12.6f}{0.0:12.6f}",
    f"{N3:5d}{0.0:12.6f}{0.0:12.6f}{0.5:12.6f}",
    f"{8:5d}{8.0:12.6f}{0.1:12.6f}{0.2:12.6f}{0.3:12.6f}",
]
for i1 in range(N1):
    for i2 in range(N2):
        row = []
        for i3 in range(N3):
            row.append(rho[i1, i2, i3])
            row.extend(grad[i1, i2, i3])
        for start in range(0, len(row), 6):  # 6 values per line, ragged last line
            lines.append("".join(f"{v:13.5E}" for v in row[start : start + 6]))

with tempfile.TemporaryDirectory() as dn:
    fn = os.path.join(dn, "dens_grad.cube")
    with open(fn, "w") as fh:
        fh.write("\n".join(lines) + "\n")
    mol = load_one(fn)

data = mol.cube.data
print("file header line 3 :", lines[2], " <- NVal = 4 values per grid point")
print("expected rho[0,0,:] :", np.array2string(rho[0, 0], precision=5))
print("observed data[0,0,:]:", np.array2string(data[0, 0], precision=5))
print("                      (= rho[0,0,0], d/dx rho[0,0,0], d/dy rho[0,0,0])")
nbad = int((abs(data - rho) > 1e-4).sum())
print(f"grid points whose loaded value differs from the density in the file: {nbad} of {rho.size}")
if nbad:
    print("VIOLATION: NVal is ignored; gradient components are loaded as densities of other points")
    sys.exit(1)
print("not reproduced")
sys.exit(0)
