#!/usr/bin/env python3
"""C03 demo 11 -- PDB: two-letter element symbols in columns 77-78 as the wwPDB writes them
(upper case: "ZN", "CL", "FE", "CA", "MG", "NA") make the reader fail.

wwPDB format v3.3, ATOM/HETATM: columns 77-78 "LString(2) element, Element symbol,
right-justified".  All files distributed by the wwPDB use upper-case symbols, e.g.
"HETATM 1234 ZN    ZN A 301 ...          ZN".

iodata/formats/pdb.py:_parse_pdb_atom_line looks the symbol up with sym2num.get(symbol)
without normalising the case ("ZN" is not a key, "Zn" is).  atnum is None, and the warning
that should report this references the variable `atname`, which is only assigned in the other
branch -> UnboundLocalError, surfaced as LoadError.  (Without that slip the atom would
silently get atnum 0.)
"""
import os
import sys
import tempfile
import warnings

from iodata import load_one

PDB = """\
TITLE     ZINC SITE
ATOM      1  N   HIS A  94      14.000  10.000  10.000  1.00 12.10           N  
ATOM      2  CA  HIS A  94      15.200  10.700  10.400  1.00 11.80           C  
HETATM    3 ZN    ZN A 301      10.000  10.000  10.000  1.00 15.20          ZN  
HETATM    4 CL    CL A 302      12.200  10.000  10.000  1.00 20.50          CL  
END
"""
with tempfile.TemporaryDirectory() as dn:
    fn = os.path.join(dn, "zinc.pdb")
    with open(fn, "w") as fh:
        fh.write(PDB)
    print("expected atnums: [7, 6, 30, 17]")
    try:
        with warnings.catch_warnings():
            warnings.simplefilter("ignore")
            mol = load_one(fn)
    except Exception as exc:  # noqa: BLE001
        print(f"observed: {type(exc).__name__}: {exc}  [cause: {exc.__cause__!r}]")
        print("VIOLATION: standard wwPDB element symbols are not understood")
        sys.exit(1)
print("observed atnums:", mol.atnums.tolist())
sys.exit(0 if mol.atnums.tolist() == [7, 6, 30, 17] else 1)
