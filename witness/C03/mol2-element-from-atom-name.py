#!/usr/bin/env python3
"""C03 demo 1 -- MOL2: element taken from the free-text atom *name*, not from the SYBYL atom *type*.

Tripos MOL2 specification, @<TRIPOS>ATOM record:
    atom_id atom_name x y z atom_type [subst_id [subst_name [charge [status_bit]]]]
atom_name is an arbitrary label ("the name of the atom"); atom_type is the SYBYL atom
type ("C.3", "N.am", "H", "Ca", ...), whose part before the dot is the element.
Protein/peptide MOL2 files (Chimera, OpenBabel, antechamber, SYBYL itself) use the
PDB atom names CA, CB, CD, CE, HA, HG, HE, NE, OG ... for carbon, hydrogen, nitrogen, oxygen.

iodata/formats/mol2.py:_load_helper_atoms derives atnums from the first two letters of
atom_name (words[1][:2].title()), so "CA" (type C.3) becomes calcium, "HG" (type H)
mercury, "NE" (type N.pl3) neon, "CD" cadmium, "OG" (type O.3) oganesson.
"""
import os
import sys
import tempfile
import warnings

from iodata import load_one

MOL2 = """\
@<TRIPOS>MOLECULE
SER-ARG fragment
 8 7 1 0 0
PROTEIN
USER_CHARGES

@<TRIPOS>ATOM
      1 N           0.0000    0.0000    0.0000 N.am    1  SER1       -0.4157
      2 CA          1.4500    0.0000    0.0000 C.3     1  SER1        0.0337
      3 CB          2.0000   -0.7000    1.2000 C.3     1  SER1        0.2117
      4 OG          3.4000   -0.7000    1.2500 O.3     1  SER1       -0.6546
      5 HG          3.7000   -1.1500    2.0500 H       1  SER1        0.4275
      6 CD          5.0000    1.0000    0.0000 C.3     1  SER1        0.0486
      7 NE          6.2000    1.8000    0.0000 N.pl3   1  SER1       -0.5295
      8 HE          6.2000    2.8000    0.0000 H       1  SER1        0.3456
@<TRIPOS>BOND
     1     1     2    1
     2     2     3    1
     3     3     4    1
     4     4     5    1
     5     3     6    1
     6     6     7    1
     7     7     8    1
"""
EXPECTED = [7, 6, 6, 8, 1, 6, 7, 1]  # from the atom_type column: N.am C.3 C.3 O.3 H C.3 N.pl3 H

with tempfile.TemporaryDirectory() as dn:
    fn = os.path.join(dn, "ser.mol2")
    with open(fn, "w") as fh:
        fh.write(MOL2)
    with warnings.catch_warnings(record=True) as caught:
        warnings.simplefilter("always")
        mol = load_one(fn)

observed = [int(n) for n in mol.atnums]
print("atom types in file :", list(mol.atffparams["attypes"]))
print("expected atnums    :", EXPECTED, "(element of the SYBYL atom_type column)")
print("observed atnums    :", observed)
print("warnings emitted   :", [str(w.message) for w in caught])
if observed != EXPECTED:
    print("VIOLATION: elements were guessed from the atom name; CA->Ca(20), HG->Hg(80), "
          "NE->Ne(10), HE->He(2), CD->Cd(48), OG->Og(118)")
    sys.exit(1)
print("not reproduced")
sys.exit(0)
