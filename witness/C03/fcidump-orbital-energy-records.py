#!/usr/bin/env python3
"""C03 demo 3 -- FCIDUMP: orbital-energy records "eps_i  i 0 0 0" are stored as one-electron
integrals h[i, NORB] (last column/row of core_mo), silently.

FCIDUMP layout (Knowles & Handy, CPC 54 (1989) 75; extended as documented by NECI, HANDE
("x i 0 0 0: single-particle eigenvalue of orbital i") and written by Psi4's
fcidump(wfn, oe_ints=['EIGENVALUES']) and recent Molpro):
    (ij|kl)  i j k l      two-electron integral
    h_ij     i j 0 0      one-electron integral
    eps_i    i 0 0 0      orbital energy            <- optional block
    E_core   0 0 0 0      core energy

iodata/formats/fcidump.py:load_one treats every record with k == 0 and i != 0 as h_ij and
evaluates one_mo[i-1, j-1] with j-1 == -1, i.e. it overwrites the LAST column and row of
the one-electron matrix with the orbital energies.
"""
import os
import sys
import tempfile
import warnings

import numpy as np

from iodata import load_one

DATA = os.path.join(os.path.dirname(__import__("iodata").__file__), "test", "data", "FCIDUMP.molpro.h2")
with open(DATA) as fh:
    lines = fh.read().rstrip("\n").split("\n")
# Insert the optional orbital-energy block between the h_ij block and the core energy.
eps = [-0.5782, 0.6700, 1.1300, 1.4500]
core_line = lines.pop()  # "  0.7151...E+00   0   0   0   0"
for i, e in enumerate(eps):
    lines.append(f" {e:23.16E}{i + 1:4d}{0:4d}{0:4d}{0:4d}")
lines.append(core_line)

with tempfile.TemporaryDirectory() as dn:
    fn = os.path.join(dn, "FCIDUMP")
    with open(fn, "w") as fh:
        fh.write("\n".join(lines) + "\n")
    with warnings.catch_warnings():
        warnings.simplefilter("ignore")
        ref = load_one(DATA, fmt="fcidump")  # same integrals, without the eps block
        mol = load_one(fn, fmt="fcidump")

h_ref = ref.one_ints["core_mo"]
h = mol.one_ints["core_mo"]
np.set_printoptions(precision=4, suppress=True, linewidth=120)
print("expected core_mo (h_ij records of the file):")
print(h_ref)
print("observed core_mo:")
print(h)
print("orbital energies in the file:", eps)
if not np.allclose(h, h_ref):
    print("VIOLATION: h[:, NORB-1] and h[NORB-1, :] were overwritten by the orbital energies "
          "(record 'eps_i i 0 0 0' read as h[i, 0-1])")
    sys.exit(1)
print("not reproduced")
sys.exit(0)
