#!/usr/bin/env python3
"""C03 demo 14 -- Gaussian input: legal element labels other than the bare, capitalised symbol
are rejected with an uncaught KeyError.

Gaussian manual, "Molecule Specification":  Element-label[-Atom-type[-Charge]] x y z, where
"Element-label is a character string consisting of either the chemical symbol for the atom or
its atomic number", optionally followed by alphanumerics to make it unique ("C1", "H12");
Gaussian itself is case-insensitive.  GaussView writes e.g. " C1 ", many scripts write atomic
numbers.

iodata/formats/gaussianinput.py:load_one evaluates sym2num[contents[0]] verbatim.
"""
import os
import sys
import tempfile

from iodata import load_one

TEMPLATE = """\
%chk=water.chk
#p hf/sto-3g

water

0 1
{o}   0.000000   0.000000   0.117790
{h}   0.000000   0.755453  -0.471161
{h}   0.000000  -0.755453  -0.471161

"""
failures = 0
with tempfile.TemporaryDirectory() as dn:
    for tag, o, h in [("atomic numbers", "8", "1"), ("labelled symbols", "O1", "H2"), ("lower case", "o", "h")]:
        fn = os.path.join(dn, "water.com")
        with open(fn, "w") as fh:
            fh.write(TEMPLATE.format(o=o, h=h))
        try:
            mol = load_one(fn)
            ok = mol.atnums.tolist() == [8, 1, 1]
            print(f"{tag:17s}: expected atnums [8, 1, 1], observed {mol.atnums.tolist()}")
            failures += not ok
        except Exception as exc:  # noqa: BLE001
            print(f"{tag:17s}: expected atnums [8, 1, 1], observed {type(exc).__name__}: {exc} "
                  f"[cause: {exc.__cause__!r}]")
            failures += 1
if failures:
    print("VIOLATION: well-formed Gaussian molecule specifications cannot be loaded")
    sys.exit(1)
print("not reproduced")
sys.exit(0)
