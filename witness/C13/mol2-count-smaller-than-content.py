"""C13: a MOL2 record whose atom count in the header is smaller than its atom block (single numeric
field corrupted, 3 -> 2) is yielded as a partial 2-atom frame without error or warning; the same happens
for the bond count. mol2.py:_load_helper_atoms reads exactly `natoms` lines and load_one ignores the rest."""
import os, sys, tempfile, warnings
from iodata import load_many

def rec(title, natoms=3, nbonds=2):
    return f"""@<TRIPOS>MOLECULE
{title}
 {natoms} {nbonds} 0 0 0
SMALL
GASTEIGER

@<TRIPOS>ATOM
      1 O           0.0000    0.0000    0.0000 O.3     1  HOH1       -0.8000
      2 H1          0.0000    0.0000    1.0000 H       1  HOH1        0.4000
      3 H2          0.0000    1.0000    0.0000 H       1  HOH1        0.4000
@<TRIPOS>BOND
     1     1     2    1
     2     1     3    1
"""
fn = os.path.join(tempfile.mkdtemp(), "three.mol2")
with open(fn, "w") as f:
    f.write(rec("frame1") + rec("frame2", natoms=2) + rec("frame3", nbonds=1))
with warnings.catch_warnings(record=True) as w:
    warnings.simplefilter("always")
    try:
        got = [(d.title, d.natom, len(d.bonds)) for d in load_many(fn)]
        err = None
    except Exception as e:
        got, err = None, e
print("file: three water records (3 atom lines, 2 bond lines each); header of frame2 says 2 atoms,")
print("      header of frame3 says 1 bond")
print("statement demands : (frame1,3,2) then LoadError at the malformed frame2 (no partial frame silently)")
print("library yielded   :", got, "| error:", err, "| warnings:", [str(x.message) for x in w])
bad = err is None and not w and got == [("frame1", 3, 2), ("frame2", 2, 2), ("frame3", 3, 1)]
print("VIOLATION reproduced" if bad else "not reproduced")
sys.exit(1 if bad else 0)
