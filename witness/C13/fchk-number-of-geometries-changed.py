"""C13: FCHK relaxed-scan trajectory.  The array 'Optimization Number of geometries' drives the loop over
'Opt point k' blocks (fchk.py:338-347).  If its length field is corrupted (N= 6 -> 5, or -> 0) the frames of
the remaining points, which are complete in the file, are dropped without error or warning."""
import os, re, sys, tempfile, warnings
import iodata
from iodata import load_many

src = os.path.join(os.path.dirname(iodata.__file__), "test", "data", "peroxide_relaxed_scan.fchk")
lines = open(src).read().split("\n")
i = next(k for k, l in enumerate(lines) if l.startswith("Optimization Number of geometries"))
d = tempfile.mkdtemp()
def count(newn):
    l = list(lines)
    if newn is not None:
        l[i] = re.sub(r"N=\s+6", f"N= {newn:11d}", l[i])
        assert l[i] != lines[i]
    fn = os.path.join(d, "scan.fchk")
    with open(fn, "w") as f:
        f.write("\n".join(l))
    with warnings.catch_warnings(record=True) as w:
        warnings.simplefilter("always")
        try:
            return len(list(load_many(fn))), None, [str(x.message) for x in w]
        except Exception as e:
            return None, e, [str(x.message) for x in w]
ref = count(None)
a = count(5)
b = count(0)
print("file: 6 'Opt point' blocks with 6+1+1+1+2+2 = 13 geometries, all present")
print("statement demands : 13 frames, or LoadError/warning when the header array disagrees with the blocks")
print("library, original :", ref)
print("library, N= 6 -> 5:", a)
print("library, N= 6 -> 0:", b)
bad = ref[0] == 13 and a == (11, None, []) and b == (0, None, [])
print("VIOLATION reproduced" if bad else "not reproduced")
sys.exit(1 if bad else 0)
