"""C13: an SDF record whose '$$$$' terminator carries trailing (or leading) white space
makes load_many silently skip the NEXT record (sdf.py:81-87 compares the raw line with '$$$$\\n')."""
import os, sys, tempfile, warnings
from iodata import load_many

def rec(title, term="$$$$"):
    return f"""{title}


  2  1  0  0  0  0  0  0  0  0999 V2000
    0.0000    0.0000    0.0000 H   0  0  0  0  0  0  0  0  0  0  0  0
    0.0000    0.0000    0.7400 H   0  0  0  0  0  0  0  0  0  0  0  0
  1  2  1  0  0  0  0
M  END
{term}
"""

fn = os.path.join(tempfile.mkdtemp(), "three.sdf")
with open(fn, "w") as f:
    f.write(rec("frame1", "$$$$ ") + rec("frame2") + rec("frame3"))
with warnings.catch_warnings(record=True) as w:
    warnings.simplefilter("always")
    try:
        titles = [d.title for d in load_many(fn)]
        err = None
    except Exception as e:  # a LoadError would be acceptable
        titles, err = None, e
print("file holds records: ['frame1', 'frame2', 'frame3'] (terminator of frame1 is '$$$$ ')")
print("statement demands : all three frames in order, or a LoadError (never a skipped frame)")
print("library yielded   :", titles, "| error:", err, "| warnings:", [str(x.message) for x in w])
bad = err is None and not w and titles != ["frame1", "frame2", "frame3"]
print("VIOLATION reproduced" if bad else "not reproduced")
sys.exit(1 if bad else 0)
