"""C13: an SDF record whose bond count is corrupted to a smaller value (2 -> 1) is yielded with fewer
bonds, no error, no warning: the unread bond line is skipped by the '$$$$' search loop (sdf.py:72-87)."""
import os, sys, tempfile, warnings
from iodata import load_many

def rec(title, nbond=2):
    return f"""{title}


  3  {nbond}  0  0  0  0  0  0  0  0999 V2000
    0.0000    0.0000    0.0000 O   0  0  0  0  0  0  0  0  0  0  0  0
    0.0000    0.0000    1.0000 H   0  0  0  0  0  0  0  0  0  0  0  0
    0.0000    1.0000    0.0000 H   0  0  0  0  0  0  0  0  0  0  0  0
  1  2  1  0  0  0  0
  1  3  1  0  0  0  0
M  END
$$$$
"""
fn = os.path.join(tempfile.mkdtemp(), "three.sdf")
with open(fn, "w") as f:
    f.write(rec("frame1") + rec("frame2", nbond=1) + rec("frame3"))
with warnings.catch_warnings(record=True) as w:
    warnings.simplefilter("always")
    try:
        got = [(d.title, d.natom, len(d.bonds)) for d in load_many(fn)]
        err = None
    except Exception as e:
        got, err = None, e
print("file: three water records with two bond lines each; counts line of frame2 says 1 bond")
print("statement demands : LoadError when the malformed frame2 is reached (or at least a warning)")
print("library yielded   :", got, "| error:", err, "| warnings:", [str(x.message) for x in w])
bad = err is None and not w and got == [("frame1", 3, 2), ("frame2", 3, 1), ("frame3", 3, 2)]
print("VIOLATION reproduced" if bad else "not reproduced")
sys.exit(1 if bad else 0)
