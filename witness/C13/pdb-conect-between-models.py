"""C13 (each frame identical to a single load): in a MODEL/ENDMDL PDB trajectory, records that follow the
ENDMDL of frame k are parsed as part of frame k+1 (pdb.py load_one simply continues after 'END*').
CONECT records written after a model are therefore attached to the NEXT model, whose data then differs
from load_one on that model stored alone; the model they belong to gets none."""
import os, sys, tempfile, warnings
from iodata import load_many, load_one
warnings.simplefilter("ignore")

def model(i, z, conect=""):
    return f"""MODEL     {i:4d}
ATOM      1  O   HOH A   1       0.000   0.000   0.000  1.00  0.00           O
ATOM      2  H1  HOH A   1       0.000   0.000   {z:5.3f}  1.00  0.00           H
ATOM      3  H2  HOH A   1       0.000   1.000   0.000  1.00  0.00           H
ENDMDL
{conect}"""
C = "CONECT    1    2    3\n"
d = tempfile.mkdtemp()
fn = os.path.join(d, "traj.pdb")
with open(fn, "w") as f:
    f.write(model(1, 1.0, C) + model(2, 1.1) + "END\n")
fn2 = os.path.join(d, "model2.pdb")
with open(fn2, "w") as f:
    f.write(model(2, 1.1) + "END\n")
got = [None if x.bonds is None else x.bonds[:, :2].tolist() for x in load_many(fn)]
alone = load_one(fn2).bonds
print("file: MODEL 1 ... ENDMDL, CONECT 1 2 3, MODEL 2 ... ENDMDL, END")
print("statement demands : frame 2 identical to load_one(model 2 stored alone), i.e. bonds =", alone)
print("library yielded   : bonds per frame =", got)
bad = len(got) == 2 and got[0] is None and got[1] is not None and alone is None
print("VIOLATION reproduced" if bad else "not reproduced")
sys.exit(1 if bad else 0)
