"""C13: a MOL2 record that has a @<TRIPOS>MOLECULE header but no @<TRIPOS>ATOM block (malformed frame
in the middle of the file) is skipped without error or warning (mol2.py load_one: molecule_found stays
False, so the next MOLECULE header just overwrites title/natoms)."""
import os, sys, tempfile, warnings
from iodata import load_many

ATOMS = """@<TRIPOS>ATOM
      1 H           0.0000    0.0000    0.0000 H       1  UNL1        0.0000
      2 H           0.0000    0.0000    0.7400 H       1  UNL1        0.0000
@<TRIPOS>BOND
     1     1     2    1
"""
def rec(title, body=ATOMS):
    return f"@<TRIPOS>MOLECULE\n{title}\n 2 1 0 0 0\nSMALL\nGASTEIGER\n\n{body}"

fn = os.path.join(tempfile.mkdtemp(), "three.mol2")
with open(fn, "w") as f:
    f.write(rec("frame1") + rec("frame2", body="") + rec("frame3"))
with warnings.catch_warnings(record=True) as w:
    warnings.simplefilter("always")
    try:
        titles = [d.title for d in load_many(fn)]
        err = None
    except Exception as e:
        titles, err = None, e
print("file holds records: frame1 (ok), frame2 (header says 2 atoms, atom block missing), frame3 (ok)")
print("statement demands : frame1, then LoadError when frame2 is reached")
print("library yielded   :", titles, "| error:", err, "| warnings:", [str(x.message) for x in w])
bad = err is None and not w and titles == ["frame1", "frame3"]
print("VIOLATION reproduced" if bad else "not reproduced")
sys.exit(1 if bad else 0)
