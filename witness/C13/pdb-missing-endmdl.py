"""C13 (lower confidence): MODEL/ENDMDL PDB trajectory in which the ENDMDL line of model 1 is lost
(one deleted line).  The next 'MODEL' record is not treated as a frame boundary (pdb.py:170-198 only looks
for 'END*'), so load_many yields ONE frame with the atoms of both models, without error or warning."""
import os, sys, tempfile, warnings
from iodata import load_many

def model(i, z, end="ENDMDL\n"):
    return f"""MODEL     {i:4d}
ATOM      1  O   HOH A   1       0.000   0.000   0.000  1.00  0.00           O
ATOM      2  H1  HOH A   1       0.000   0.000   {z:5.3f}  1.00  0.00           H
ATOM      3  H2  HOH A   1       0.000   1.000   0.000  1.00  0.00           H
{end}"""
fn = os.path.join(tempfile.mkdtemp(), "traj.pdb")
with open(fn, "w") as f:
    f.write(model(1, 1.0, end="") + model(2, 1.1) + model(3, 1.2) + "END\n")
with warnings.catch_warnings(record=True) as w:
    warnings.simplefilter("always")
    try:
        got = [d.natom for d in load_many(fn)]
        err = None
    except Exception as e:
        got, err = None, e
print("file: MODEL 1 (its ENDMDL line deleted), MODEL 2 ... ENDMDL, MODEL 3 ... ENDMDL, END; 3 atoms per model")
print("statement demands : LoadError/warning at the malformed model 1, or frames of 3 atoms each")
print("library yielded   : natom per frame =", got, "| error:", err, "| warnings:", [str(x.message) for x in w])
bad = err is None and not w and got == [6, 3]
print("VIOLATION reproduced" if bad else "not reproduced")
sys.exit(1 if bad else 0)
