"""C13: a PDB frame without ATOM records (TITLE ... END) is skipped silently and its TITLE leaks into the
next frame, so that frame differs from what load_one gives for it stored alone
(pdb.py load_one: 'END' only terminates when molecule_found; title_lines keeps accumulating)."""
import os, sys, tempfile, warnings
from iodata import load_many, load_one

A = """ATOM      1  O   HOH A   1       0.000   0.000   0.000  1.00  0.00           O
ATOM      2  H1  HOH A   1       0.000   0.000   1.000  1.00  0.00           H
"""
def rec(title, atoms=A):
    return f"TITLE     {title}\n{atoms}END\n"
d = tempfile.mkdtemp()
fn = os.path.join(d, "three.pdb")
with open(fn, "w") as f:
    f.write(rec("frame1") + rec("frame2", atoms="") + rec("frame3"))
fn3 = os.path.join(d, "only3.pdb")
with open(fn3, "w") as f:
    f.write(rec("frame3"))
with warnings.catch_warnings(record=True) as w:
    warnings.simplefilter("always")
    try:
        titles = [d.title for d in load_many(fn)]
        err = None
    except Exception as e:
        titles, err = None, e
alone = load_one(fn3).title
print("file holds records: frame1 (ok), frame2 (no atoms: malformed), frame3 (ok)")
print("statement demands : frame1, then LoadError at frame2; in any case frame3 must load as", repr(alone))
print("library yielded   :", titles, "| error:", err, "| warnings:", [str(x.message) for x in w])
bad = err is None and not w and titles == ["frame1", "frame2\nframe3"]
print("VIOLATION reproduced" if bad else "not reproduced")
sys.exit(1 if bad else 0)
