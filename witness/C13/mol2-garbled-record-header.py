"""C13: one garbled character in the '@<TRIPOS>MOLECULE' line of the second MOL2 record.  load_one for
record 1 then runs on into record 2, whose @<TRIPOS>ATOM/@<TRIPOS>BOND blocks overwrite the data already
parsed for record 1 (mol2.py:66-80 assigns `result` again).  load_many yields 'frame1' carrying the
coordinates of frame 2; frame 2 itself is never yielded; no error, no warning."""
import os, sys, tempfile, warnings
import numpy as np
from iodata import load_many
from iodata.utils import angstrom

def rec(title, z, header="@<TRIPOS>MOLECULE"):
    return f"""{header}
{title}
 2 1 0 0 0
SMALL
GASTEIGER

@<TRIPOS>ATOM
      1 H           0.0000    0.0000    0.0000 H       1  UNL1        0.0000
      2 H           0.0000    0.0000    {z:6.4f} H       1  UNL1        0.0000
@<TRIPOS>BOND
     1     1     2    1
"""
fn = os.path.join(tempfile.mkdtemp(), "three.mol2")
with open(fn, "w") as f:
    f.write(rec("frame1", 1.0) + rec("frame2", 2.0, header="@<TRIPOS>MOLECULF") + rec("frame3", 3.0))
with warnings.catch_warnings(record=True) as w:
    warnings.simplefilter("always")
    try:
        got = [(d.title, round(float(d.atcoords[1, 2] / angstrom), 3)) for d in load_many(fn)]
        err = None
    except Exception as e:
        got, err = None, e
print("file: frame1 (H-H 1.0 A), frame2 (2.0 A, header garbled to '@<TRIPOS>MOLECULF'), frame3 (3.0 A)")
print("statement demands : ('frame1', 1.0) then LoadError (or at least the intact frames with their own data)")
print("library yielded   :", got, "| error:", err, "| warnings:", [str(x.message) for x in w])
bad = err is None and not w and got == [("frame1", 2.0), ("frame3", 3.0)]
print("VIOLATION reproduced" if bad else "not reproduced")
sys.exit(1 if bad else 0)
