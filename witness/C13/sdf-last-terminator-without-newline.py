"""C13: an SDF file of three complete records whose last line '$$$$' has no trailing newline.
load_many raises LoadError for the last (complete) record instead of yielding it; load_one on that
record stored alone fails in the same way.  sdf.py:81-87 compares the raw line with '$$$$\\n'."""
import os, sys, tempfile, warnings
from iodata import load_many
from iodata.utils import LoadError

def rec(title):
    return f"""{title}


  2  1  0  0  0  0  0  0  0  0999 V2000
    0.0000    0.0000    0.0000 H   0  0  0  0  0  0  0  0  0  0  0  0
    0.0000    0.0000    0.7400 H   0  0  0  0  0  0  0  0  0  0  0  0
  1  2  1  0  0  0  0
M  END
$$$$
"""
fn = os.path.join(tempfile.mkdtemp(), "three.sdf")
with open(fn, "w") as f:
    f.write((rec("frame1") + rec("frame2") + rec("frame3")).rstrip("\n"))
got, err = [], None
try:
    for d in load_many(fn):
        got.append(d.title)
except LoadError as e:
    err = e
print("file: three complete records, final '$$$$' not followed by a newline")
print("statement demands : one object per complete frame -> ['frame1', 'frame2', 'frame3']")
print("library yielded   :", got, "| error:", err)
bad = got == ["frame1", "frame2"] and err is not None
print("VIOLATION reproduced" if bad else "not reproduced")
sys.exit(1 if bad else 0)
