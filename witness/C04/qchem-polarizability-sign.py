#!/usr/bin/env python3
"""C04 demo 2 -- the static polarizability of water has opposite sign when loaded from a
Q-Chem log and from a Gaussian FCHK file (extra['polarizability_tensor']).

* Gaussian FCHK, field "Polarizability": lower triangle of alpha (a.u.), alpha = -d2E/dF2 > 0.
  iodata/formats/fchk.py unpacks it unchanged -> positive-definite tensor (correct).
* Q-Chem frequency jobs print "Polarizability Matrix (a.u.)" as the energy second derivative
  d2E/dF_i dF_j, i.e. MINUS alpha (a known Q-Chem output convention, all diagonal entries are
  negative).  iodata/formats/qchemlog.py:_helper_polar stores the printed numbers unchanged
  under the same key 'polarizability_tensor'.

The statement requires quantities to be "converted from the [convention] the source format
prescribes ... Consequently the same physical system described in two formats loads to the
same numbers".  The polarizability of a ground-state molecule is positive definite; water at
HF level has an isotropic value of roughly +5 (3-21G) to +8 a.u. (cc-pVTZ).
"""
import os
import sys
import warnings

import numpy as np

from iodata import load_one

DATA = os.path.join(os.path.dirname(__import__("iodata").__file__), "test", "data")
warnings.simplefilter("ignore")
fchk = load_one(os.path.join(DATA, "water_hfs_321g.fchk"))
qchem = load_one(os.path.join(DATA, "water_hf_ccpvtz_freq_qchem.out"), fmt="qchemlog")
a_g = fchk.extra["polarizability_tensor"]
a_q = qchem.extra["polarizability_tensor"]
np.set_printoptions(precision=4, suppress=True)
print("water, Gaussian FCHK (HFS/3-21G):      eigenvalues", np.linalg.eigvalsh(a_g),
      " isotropic %+.3f" % (np.trace(a_g) / 3))
print("water, Q-Chem log  (HF/cc-pVTZ):       eigenvalues", np.linalg.eigvalsh(a_q),
      " isotropic %+.3f" % (np.trace(a_q) / 3))
print("expected: both positive (alpha = -d2E/dF2), of similar magnitude")
if np.linalg.eigvalsh(a_g).min() > 0 and np.linalg.eigvalsh(a_q).max() < 0:
    print("VIOLATION: the Q-Chem reader returns -alpha under the key the FCHK reader uses for +alpha")
    sys.exit(1)
print("not reproduced")
sys.exit(0)
