#!/usr/bin/env python3
"""C04 demo 1 -- FCHK IRC trajectories: extra['reaction_coordinate'] is returned in
sqrt(amu)*bohr, not in atomic units, while masses and coordinates of the same object are.

Gaussian IRC keyword documentation: the path is followed in mass-weighted Cartesian
coordinates; step sizes and the reaction coordinate are reported "in units of amu^(1/2) bohr".
The FCHK field "IRC point N Results for each geome" stores (energy, reaction coordinate) pairs
in exactly that unit.  The atomic unit of this quantity is sqrt(m_e)*bohr, a factor
sqrt(amu) = sqrt(1822.888...) = 42.695 different.

iodata/formats/fchk.py:load_many passes the number through unchanged:
    data["extra"]["reaction_coordinate"] = recor
whereas load_one converts "Real atomic weights" with amu (fchk.py:145).  The check below is
self-contained: the mass-weighted distance between consecutive IRC geometries, computed from
the atomic-unit masses and coordinates IOData returns, must equal the increment of the
reaction coordinate if that is in atomic units too.
"""
import os
import sys

import numpy as np

from iodata import load_many, load_one
from iodata.utils import amu

FN = os.path.join(os.path.dirname(__import__("iodata").__file__), "test", "data", "peroxide_irc.fchk")
masses = load_one(FN).atmasses  # atomic units (electron masses), converted by the reader
frames = list(load_many(FN))

print(" step   d(reaction_coordinate)   mass-weighted step [a.u.]   same with masses in u")
worst = 0.0
for a, b in zip(frames[:5], frames[1:6]):
    ds = b.extra["reaction_coordinate"] - a.extra["reaction_coordinate"]
    disp = b.atcoords - a.atcoords
    step_au = np.sqrt((masses[:, None] * disp**2).sum())
    step_u = np.sqrt((masses[:, None] / amu * disp**2).sum())
    worst = max(worst, abs(step_au / ds - 1))
    print(f"  {a.extra['istep']:3d}   {ds:18.9f}   {step_au:22.9f}   {step_u:22.9f}")
print(f"expected (statement): reaction coordinate in atomic units, ratio to column 3 = 1")
print(f"observed: ratio = {step_au / ds:.4f} = sqrt(amu) = {np.sqrt(amu):.4f}; "
      "column 2 matches column 4, i.e. the value is in sqrt(u)*bohr")
if worst > 0.01:
    print("VIOLATION: dimensional quantity returned in a non-atomic unit (factor 42.7)")
    sys.exit(1)
print("not reproduced")
sys.exit(0)
