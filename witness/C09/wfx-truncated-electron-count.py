"""C09 (and C14 'hence the same electron count and spin polarisation').

dump_one(..., fmt="wfx", allow_changes=True) on restricted orbitals with occs_aminusb:
the un-restriction is announced, but the returned object does not have the electron count and
spin polarisation of the caller's object (sum of the re-assembled occupations differs in the
last bits), and the WFX writer truncates these with int(), so the *written* file carries a
different number of electrons and a different multiplicity than the object that was passed in.
"""
import os
import sys
import tempfile
import warnings

import numpy as np

from iodata import IOData, dump_one
from iodata.basis import MolecularBasis, Shell
from iodata.convert import HORTON2_CONVENTIONS
from iodata.orbitals import MolecularOrbitals
from iodata.utils import PrepareDumpWarning

# one boron atom, five s-type shells, five natural orbitals with a spin density
shells = [Shell(0, [0], ["c"], [0.3 * (i + 1)], [[1.0]]) for i in range(5)]
obasis = MolecularBasis(shells, HORTON2_CONVENTIONS, "L2")
occs = np.array([1.6, 0.9, 1.0, 0.7, 0.8])
occs_aminusb = np.array([0.3, 0.3, 0.0, 0.0, 0.4])
mo = MolecularOrbitals("restricted", 5, 5, occs, np.eye(5), np.arange(5.0), None, occs_aminusb)
data = IOData(atnums=[5], atcoords=[[0.0, 0.0, 0.0]], obasis=obasis, mo=mo)

nelec0, spinpol0, charge0 = data.nelec, data.spinpol, data.charge
print(f"caller's object : nelec={nelec0!r} spinpol={spinpol0!r} charge={charge0!r}")
assert nelec0 == 5.0 and spinpol0 == 1.0 and charge0 == 0.0

path = os.path.join(tempfile.mkdtemp(), "demo.wfx")
with warnings.catch_warnings(record=True) as wl:
    warnings.simplefilter("always")
    result = dump_one(data, path, allow_changes=True)
print("PrepareDumpWarnings:", sum(issubclass(w.category, PrepareDumpWarning) for w in wl))
print(f"returned object : nelec={result.nelec!r} spinpol={result.spinpol!r} charge={result.charge!r}")


def section(tag):
    lines = open(path).read().split("\n")
    i = lines.index(f"<{tag}>")
    return lines[i + 1].strip()


nelec_file = int(section("Number of Electrons"))
mult_file = int(section("Electronic Spin Multiplicity"))
na_file = int(section("Number of Alpha Electrons"))
nb_file = int(section("Number of Beta Electrons"))
print(f"written WFX file: Number of Electrons={nelec_file} (alpha={na_file}, beta={nb_file}), "
      f"Multiplicity={mult_file}, Net Charge={section('Net Charge')}")
print("statement demands: same electron count (5) and spin polarisation (1, i.e. multiplicity 2)")

# (the returned object may differ from the caller's by rounding of a floating-point sum - "to rounding" - but what is
# written must still be 5 electrons in a doublet)
violated = (
    abs(result.nelec - nelec0) > 1e-9
    or abs(result.spinpol - spinpol0) > 1e-9
    or nelec_file != 5
    or mult_file != 2
)
print("VIOLATION reproduced" if violated else "no violation")
sys.exit(1 if violated else 0)
