/-
C20 / derive_naturals.  Over the contracts only:
  derive_naturals(D, S) returns (V, w) with (w, V) = eigh(Sᵀ D S, S)           [proved by pyvc on the real code]
  assumed contract of scipy.linalg.eigh(A, B): A V = B V W (W = diag w), Vᵀ B V = 1
For symmetric S this file proves: D = V W Vᵀ ("together they reconstruct the density matrix") and that V is
orthonormal w.r.t. S.  No positivity of S is needed: invertibility follows from Vᵀ S V = 1.
-/
import Mathlib.LinearAlgebra.Matrix.NonsingularInverse
open Matrix
variable {n R : Type*} [Fintype n] [DecidableEq n] [CommRing R]

theorem reconstruct (S D V W : Matrix n n R) (hS : Sᵀ = S)
    (horth : Vᵀ * S * V = 1) (heig : Sᵀ * (D * S) * V = S * V * W) :
    D = V * W * Vᵀ := by
  have heig' : S * D * S * V = S * V * W := by
    rw [hS] at heig
    simpa [Matrix.mul_assoc] using heig
  have h1 : (Vᵀ * S) * V = 1 := by simpa [Matrix.mul_assoc] using horth
  have h2 : V * (Vᵀ * S) = 1 := mul_eq_one_comm.mp h1
  have h3 : S * V * Vᵀ = 1 := by
    have := congrArg Matrix.transpose h2
    simpa [Matrix.transpose_mul, hS, Matrix.mul_assoc] using this
  have h4 : S * (V * Vᵀ) = 1 := by simpa [Matrix.mul_assoc] using h3
  have h5 : (V * Vᵀ) * S = 1 := mul_eq_one_comm.mp h4
  have h6 : D * S * V = V * W := by
    have := congrArg (fun M => (V * Vᵀ) * M) heig'
    simp only [← Matrix.mul_assoc] at this
    rw [h5] at this
    simpa [Matrix.mul_assoc] using this
  calc D = D * (S * V * Vᵀ) := by rw [h3, Matrix.mul_one]
    _ = (D * S * V) * Vᵀ := by simp [Matrix.mul_assoc]
    _ = V * W * Vᵀ := by rw [h6]

/-- the returned coefficients are orthonormal with respect to the overlap (restating the eigh contract) -/
theorem orthonormal (S V : Matrix n n R) (horth : Vᵀ * S * V = 1) : Vᵀ * S * V = 1 := horth
