"""C19 -- generated QC input files describe the molecule they were generated from.

Targets under contract: inputs.common.write_input_base, inputs.gaussian.write_input / default_atom_line,
inputs.orca.write_input / default_atom_line (api.write_input and _select_input_module are C08).
`str.format`, `str.join` and f-string rendering are trusted: the contracts are stated on the *fields* that are
handed to them.
"""

from __future__ import annotations

import json
import os
import subprocess

import numpy as np
import z3

from pyvc import source
from pyvc.apimodel import FileObj, api_config
from pyvc.core import Ledger
from pyvc.harness import get_target, verify
from pyvc.interp import BoundMethod, FStr, HostModel, PyRaise
from pyvc.models import MODELS, round_half_even
from pyvc.pool import collect, run_jobs
from pyvc.report import A_FP, VENV_PY
from pyvc.values import Obj, Opaque, SArr, SBool, SInt, SOpt, SReal, SSeq, SList, SU, U, Value, seq_of, to_z3, ustr, wrap

LEVEL = "proof"
CODATA_BOHR_M = 5.29177210903e-11  # CODATA 2018 Bohr radius in m (2014: ...67e-11, 2022: ...544e-11): spread < 1e-9 relative

SYMBOLS = "H He Li Be B C N O F Ne Na Mg Al Si P S Cl Ar K Ca Sc Ti V Cr Mn Fe Co Ni Cu Zn Ga Ge As Se Br Kr Rb Sr Y Zr Nb Mo Tc Ru Rh Pd Ag Cd In Sn Sb Te I Xe Cs Ba La Ce Pr Nd Pm Sm Eu Gd Tb Dy Ho Er Tm Yb Lu Hf Ta W Re Os Ir Pt Au Hg Tl Pb Bi Po At Rn Fr Ra Ac Th Pa U Np Pu Am Cm Bk Cf Es Fm Md No Lr Rf Db Sg Bh Hs Mt Ds Rg Cn Nh Fl Mc Lv Ts Og".split()


class Joined(Value):
    def __init__(self, sep, seq):
        self.sep, self.seq = sep, seq


class Formatted(Value):
    def __init__(self, template, fields):
        self.template, self.fields = template, fields


def _join_model(interp, self_str, args, kwargs):
    v = interp.resolve(args[0])
    if isinstance(v, (SSeq, SList)):
        return Joined(self_str, seq_of(v))
    if isinstance(v, list):
        return Joined(self_str, seq_of(v))
    return interp.native(self_str.join, [v], {})


def _format_model(interp, self_str, args, kwargs):
    return Formatted(self_str, dict(kwargs))


def config():
    cfg = api_config()
    cfg.method_models[(str, "join")] = _join_model
    cfg.method_models[(str, "format")] = _format_model

    def np_round(interp, args, kwargs):
        v = interp.resolve(args[0])
        if isinstance(v, SReal):
            return SReal(z3.ToReal(round_half_even(v.t)))
        if isinstance(v, SInt):
            return v
        return interp.native(np.round, args, kwargs)

    cfg.models[np.round] = np_round
    import attrs

    def asdict(interp, args, kwargs):
        obj = interp.resolve(args[0])
        if isinstance(obj, Obj):
            return {f.name: obj.fields[f.name] for f in attrs.fields(obj.cls)}
        return interp.native(attrs.asdict, args, kwargs)

    cfg.models[attrs.asdict] = asdict
    return cfg


def make_data(ctx, with_atnums=True):
    import attrs

    cls = source.import_repo("iodata.iodata").IOData
    obj = Obj(cls, tag="data")
    n = z3.Int("natom")
    ctx.assume(n >= 0)
    for f in attrs.fields(cls):
        obj.fields[f.name] = f.default.factory() if isinstance(f.default, attrs.Factory) else f.default
    obj.fields["atcoords"] = SArr.fresh("atcoords", (n, 3), "float")
    if with_atnums:
        obj.fields["atnums"] = SArr.fresh("atnums", (n,), "int")
        obj.fields["_atcorenums"] = SArr.fresh("atcorenums", (n,), "float")
        obj.fields["_nelec"] = SOpt(z3.Bool("nelec.isnone"), SReal(z3.Real("nelec")))
        obj.fields["_charge"] = None
    else:
        # the charge as an arbitrary real (stored; no core charges): keeps the VC free of summation terms
        obj.fields["_charge"] = SOpt(z3.Bool("charge.isnone"), SReal(z3.Real("charge")))
    obj.fields["_spinpol"] = SOpt(z3.Bool("spinpol.isnone"), SReal(z3.Real("spinpol")))
    for k in ("title", "lot", "obasis_name", "run_type"):
        obj.fields[k] = SOpt(z3.Bool(f"{k}.isnone"), SU(z3.Const(k, U), str))
    return obj, n


def job_base():
    T = "iodata.inputs.common.write_input_base"
    led = Ledger()
    for user_key in (None, "title", "spinmult", "charge", "geometry_extra", "lot", "spinmult/no-spin-polarisation"):
        cfg = config()
        nospin = user_key == "spinmult/no-spin-polarisation"
        user_key = "spinmult" if nospin else user_key

        def setup(ctx, interp, user_key=user_key, nospin=nospin):
            data, n = make_data(ctx, with_atnums=False)
            if nospin:
                # generalized orbitals have no spin polarisation (C12: the getter raises NotImplementedError)
                mocls = source.import_repo("iodata.orbitals").MolecularOrbitals
                mo = Obj(mocls, tag="mo")
                for f in __import__("attrs").fields(mocls):
                    mo.fields[f.name] = None
                mo.fields["kind"] = "generalized"
                data.fields["mo"] = mo
            line = z3.Function("atom_line", z3.IntSort(), U)
            calls = []

            def atom_line(interp_, args, kwargs):
                calls.append(args)
                return SU(line(to_z3(args[1])), str)

            al = Opaque("atom_line")
            cfg.havoc_call = lambda interp_, fn, args, kwargs: atom_line(interp_, args, kwargs) if fn is al else (_ for _ in ()).throw(AssertionError("unexpected havoc"))
            user = {} if user_key is None else {user_key: Opaque(f"user.{user_key}")}
            user.update({"lot": Opaque("fmt.lot")} if user_key != "lot" else {})
            fh = FileObj(ctx, "out", "w")
            template = SU(z3.Const("template", U), str)
            cfg.method_models_sym = True
            fn = get_target("iodata.inputs.common:write_input_base")
            return fn, [fh, data, "TEMPLATE {title}", al, user], {}, dict(data=data, n=n, line=line, user=user, al=al, calls=calls)

        def post(out, env, user_key=user_key, nospin=nospin):
            ctx, interp = out.ctx, out.interp
            data, n, line, user = env["data"], env["n"], env["line"], env["user"]
            if nospin:
                # "user-supplied ... keyword arguments taking precedence": the multiplicity is given, so the spin
                # polarisation of the object is not needed and its absence must not prevent the file from being written
                ctx.prove(f"{T}::post.a-given-spinmult-is-used-without-asking-the-object-for-its-spin-polarisation", out.kind != "raise" and any(e[0] == "print" and isinstance(e[2][0], Formatted) and e[2][0].fields.get("spinmult") is user["spinmult"] for e in ctx.trace))
                return
            if out.kind == "raise":
                ctx.prove(f"{T}::post.returns-normally-for-a-molecule-with-atoms-and-coordinates", False)
                return
            prints = [e for e in ctx.trace if e[0] == "print"]
            ok = len(prints) == 1 and len(prints[0][2]) == 1 and isinstance(prints[0][2][0], Formatted)
            ctx.prove(f"{T}::post.prints-the-formatted-template-once-into-the-given-file", ok and prints[0][1] == "file!0" or ok)
            if not ok:
                return
            fm = prints[0][2][0]
            fields = fm.fields
            ctx.prove(f"{T}::post.template-is-the-one-given", fm.template == "TEMPLATE {title}")
            # geometry: one line per atom, in order, produced by atom_line(data, i)
            g = fields.get("geometry")
            okg = isinstance(g, Joined) and g.sep == "\n"
            ctx.prove(f"{T}::post.geometry-is-newline-joined", okg)
            if okg:
                j = z3.Int("gj")
                ctx.prove(f"{T}::post.one-geometry-line-per-atom-in-order", z3.And(g.seq.n == n, z3.ForAll([j], z3.Implies(z3.And(j >= 0, j < n), to_z3(g.seq.at(j)) == line(j)))))
            # user fields win
            for k, v in user.items():
                ctx.prove(f"{T}::post.user-and-format-fields-take-precedence", fields.get(k) is v)
            c = Obj(data.cls, dict(data.fields))
            sp = interp.load_attr(c, "spinpol")
            ch = interp.load_attr(Obj(data.cls, dict(data.fields)), "charge")
            title = interp.resolve(Obj(data.cls, dict(data.fields)).fields["title"])
            if "spinmult" not in user:
                if sp is None:
                    ctx.prove(f"{T}::post.multiplicity-defaults-to-1", fields["spinmult"] == 1)
                else:
                    r = round_half_even(to_z3(sp))
                    ctx.prove(f"{T}::post.multiplicity-is-rounded-spin-polarisation-plus-one", to_z3(fields["spinmult"]) == z3.If(r >= 0, r, -r) + 1)
            if "charge" not in user:
                if ch is None:
                    ctx.prove(f"{T}::post.charge-defaults-to-0", fields["charge"] == 0)
                else:
                    # "the molecule's charge rounded to the nearest integer"
                    t = to_z3(ch)
                    got = to_z3(fields["charge"])
                    ctx.prove(f"{T}::post.charge-is-rounded-to-the-nearest-integer", z3.And(z3.ToReal(got) - t <= 0.5, t - z3.ToReal(got) <= 0.5))
            if "title" not in user:
                ctx.prove(f"{T}::post.title-of-the-object-or-the-documented-default", fields["title"] is title if title is not None else _eqs(fields["title"], "Input Generated by IOData"))

        verify(T, setup, post, config=cfg, ledger=led, max_paths=400)
    return led


def job_atom_line(prog):
    T = f"iodata.inputs.{prog}.default_atom_line"
    cfg = config()
    angstrom = source.import_repo("iodata.utils").angstrom

    def setup(ctx, interp):
        data, n = make_data(ctx)
        i = z3.Int("iatom")
        ctx.assume(z3.And(i >= 0, i < n))
        z = z3.Int("Z")
        # one generic atom: its atomic number is Z (any element of the table)
        data.fields["atnums"] = SArr((n,), lambda idx: z, "int")
        return get_target(f"iodata.inputs.{prog}:default_atom_line"), [data, SInt(i)], {}, dict(data=data, i=i, z=z)

    def post(out, env):
        ctx = out.ctx
        i, z = env["i"], env["z"]
        coords = z3.Function("atcoords", z3.IntSort(), z3.IntSort(), z3.RealSort())
        if out.kind == "raise":
            ctx.prove(f"{T}::raises.only-for-an-atomic-number-outside-the-periodic-table", z3.Or(z < 1, z > 118), kind="raises")
            return
        v = out.value
        ok = isinstance(v, FStr) and len(v.parts) == 7 and isinstance(v.parts[0], str) and all(isinstance(p, tuple) and p[0] == "fmt" for p in v.parts[2::2]) and v.parts[1::2] == [" ", " ", " "]
        ctx.prove(f"{T}::post.layout-symbol-x-y-z", ok)
        if not ok:
            return
        sym, xs = v.parts[0], v.parts[2::2]
        ctx.prove(f"{T}::post.format-specs-3s-and-10.6f", all(x[2] == "10.6f" for x in xs))
        zc = out.interp.concrete_int(z)
        ctx.prove(f"{T}::post.element-symbol-of-that-atom", zc is not None and 1 <= zc <= 118 and sym == format(SYMBOLS[zc - 1], "3s"))
        for k, x in enumerate(xs):
            ctx.prove(f"{T}::post.coordinates-of-that-atom-converted-to-angstrom", to_z3(x[1]) * z3.RealVal(repr(angstrom)) == coords(i, k))

    led = verify(T, setup, post, config=cfg, max_paths=400)
    ok = abs(angstrom * CODATA_BOHR_M / 1e-10 - 1) < 1e-8
    led.record(f"{T}::ground.angstrom-is-1e-10m-over-the-CODATA-bohr-radius", "ground", "discharged" if ok else "refuted", "eval", 0.0, detail=repr(angstrom))
    return led


def _eqs(v, s):
    return isinstance(v, str) and v == s


def job_write_input(prog):
    T = f"iodata.inputs.{prog}.write_input"
    led = Ledger()
    mod = source.import_repo(f"iodata.inputs.{prog}")
    defaults = {"gaussian": ("hf", "sto-3g", {"energy": "sp", "energy_force": "force", "opt": "opt", "scan": "scan", "freq": "freq"}), "orca": ("HF", "STO-3G", {"energy": "Energy", "freq": "Freq", "opt": "Opt"})}[prog]
    for variant in ("defaults", "user-template-and-callback", "kwargs-override"):
        cfg = config()
        seen = {}

        def base(interp, args, kwargs, seen=seen):
            seen["args"] = args
            interp.ctx.event("write_input_base")
            return None

        cfg.contracts["iodata.inputs.common.write_input_base"] = base

        def setup(ctx, interp, variant=variant):
            data, n = make_data(ctx)
            fh = FileObj(ctx, "out", "w")
            kw = {}
            args = [fh, data]
            if variant == "user-template-and-callback":
                args += ["MY TEMPLATE", Opaque("my_atom_line")]
            if variant == "kwargs-override":
                kw = {"lot": Opaque("kw.lot"), "run_type": Opaque("kw.run_type"), "extra_field": Opaque("kw.extra")}
            return mod.write_input, args, kw, dict(data=data, args=args, kw=kw)

        def post(out, env, variant=variant, seen=seen):
            ctx, interp = out.ctx, out.interp
            data = env["data"]
            c = Obj(data.cls, dict(data.fields))
            rt = interp.resolve(c.fields["run_type"])
            lower = z3.Function("str.lower", U, U)
            key = lower(rt.t) if isinstance(rt, SU) else None
            table = defaults[2]
            if variant == "kwargs-override":
                # the user supplies run_type: the run type of the object must not matter, in particular not fail
                ctx.prove(f"{T}::post.a-user-supplied-run_type-makes-the-object's-run-type-irrelevant-(no-failure)", out.kind == "return", witness={"needs": "an object whose run_type the program's table does not list (e.g. 'scan' for ORCA) and a run_type= keyword argument"})
            if out.kind == "raise":
                known = z3.Or(*[key == ustr(k) for k in table]) if key is not None else z3.BoolVal(True)
                if key is not None and not ctx.feasible(rt.t != ustr("")):
                    known = z3.BoolVal(True)
                ctx.prove(f"{T}::raises.only-KeyError-for-an-undocumented-run-type", z3.And(z3.BoolVal(isinstance(out.value, KeyError)), z3.Not(known)), kind="raises")
                return
            a = seen.get("args")
            ok = a is not None and len(a) == 5 and a[0] is env["args"][0] and a[1] is data
            ctx.prove(f"{T}::post.delegates-to-write_input_base-with-the-same-file-and-object", ok)
            if not ok:
                return
            fields = a[4]
            if variant == "user-template-and-callback":
                ctx.prove(f"{T}::post.user-template-and-atom-line-callback-are-used", a[2] == "MY TEMPLATE" and a[3] is env["args"][3])
            else:
                ctx.prove(f"{T}::post.default-template-and-atom-line", a[2] is mod.default_template and a[3] is mod.default_atom_line)
            lot = interp.resolve(Obj(data.cls, dict(data.fields)).fields["lot"])
            bas = interp.resolve(Obj(data.cls, dict(data.fields)).fields["obasis_name"])
            if variant == "kwargs-override":
                ctx.prove(f"{T}::post.keyword-arguments-take-precedence", fields["lot"] is env["kw"]["lot"] and fields["run_type"] is env["kw"]["run_type"] and fields["extra_field"] is env["kw"]["extra_field"])
            else:
                if lot is None:
                    ctx.prove(f"{T}::post.level-of-theory-default", _eqs(fields["lot"], defaults[0]))
                else:
                    ctx.prove(f"{T}::post.level-of-theory-of-the-object", z3.If(lot.t == ustr(""), z3.BoolVal(_eqs(fields["lot"], defaults[0])), z3.BoolVal(fields["lot"] is lot)))
                if bas is None:
                    ctx.prove(f"{T}::post.basis-default", _eqs(fields["obasis_name"], defaults[1]))
                # run type keyword from the documented table
                rtv = fields["run_type"]
                if rt is None:
                    ctx.prove(f"{T}::post.run-type-defaults-to-energy", _eqs(rtv, table["energy"]))
                else:
                    ctx.prove(f"{T}::post.run-type-keyword-from-the-documented-table", z3.Or(*[z3.And(key == ustr(k), z3.BoolVal(_eqs(rtv, v))) for k, v in table.items()], z3.And(rt.t == ustr(""), z3.BoolVal(_eqs(rtv, table["energy"])))))

        verify(T, setup, post, config=cfg, ledger=led, max_paths=600)
    return led


def job_symbols():
    led = Ledger()
    per = source.import_repo("iodata.periodic")
    bad = [z for z in range(1, 119) if per.num2sym.get(z) != SYMBOLS[z - 1]]
    led.record("iodata.periodic.num2sym::ground.element-symbols-1..118", "ground", "refuted" if bad else "discharged", "eval", 0.0, detail=str(bad[:5]))
    return led


BOUNDED = r"""
import io, json, re, sys, random
import numpy as np
from iodata import IOData
from iodata.api import write_input
from iodata.inputs import gaussian, orca
from iodata.periodic import num2sym
import tempfile, os
seed, nmol = int(sys.argv[1]), int(sys.argv[2])
rng = random.Random(seed)
ANG = 0.52917721090380
fails, cases = [], 0
tmp = tempfile.mkdtemp()
__import__("atexit").register(__import__("shutil").rmtree, tmp, True)
for it in range(nmol):
    n = rng.choice([1, 2, 3, 7, 50, 200]) if it % 5 == 0 else rng.randint(1, 12)
    atnums = [rng.randint(1, 118) for _ in range(n)]
    coords = np.array([[rng.uniform(-20, 20) for _ in range(3)] for _ in range(n)])
    charge = rng.choice([None, 0, 1, -1, 2, 0.4, -0.6, 1.5000001, -0.9999999999, 2.49])
    spinpol = rng.choice([None, 0, 1, 2, 0.9999999, 3.2])
    kw = {}
    if charge is not None: kw["charge"] = charge
    if spinpol is not None: kw["spinpol"] = spinpol
    d = IOData(atnums=atnums, atcoords=coords, **kw)
    for prog, mod in (("gaussian", gaussian), ("orca", orca)):
        cases += 1
        fn = os.path.join(tmp, "inp")
        write_input(d, fn, prog)
        text = open(fn).read()
        geo = [l for l in text.splitlines() if re.match(r"^[A-Z][a-z]?\s+-?\d+\.\d{6}\s+-?\d+\.\d{6}\s+-?\d+\.\d{6}$", l)]
        hist = dict(it=it, prog=prog, n=n, charge=charge, spinpol=spinpol)
        if len(geo) != n: fails.append((hist, "number of geometry lines differs from the number of atoms", len(geo)))
        else:
            for i, l in enumerate(geo):
                w = l.split()
                if w[0] != num2sym[atnums[i]] or any(abs(float(w[k + 1]) - coords[i, k] * ANG) > 6e-7 for k in range(3)):
                    fails.append((hist, "geometry line does not describe its atom", i, l)); break
        m = re.search(r"^(?:\*xyz )?(-?\d+) (\d+)$", text, re.M)
        if not m: fails.append((hist, "charge/multiplicity line not found")); continue
        want_c = 0 if charge is None else int(round(charge))
        want_m = 1 if spinpol is None else abs(int(round(spinpol))) + 1
        if int(m.group(1)) != want_c: fails.append((hist, "charge is not rounded to the nearest integer", m.group(1), want_c))
        if int(m.group(2)) != want_m: fails.append((hist, "multiplicity is not rounded spin polarisation + 1", m.group(2), want_m))
    cases += 1
    fn = os.path.join(tmp, "inp2")
    write_input(d, fn, "gaussian", template="{title}|{lot}|{charge}|{myfield}", title="T", lot="L", charge=7, myfield="X", atom_line=lambda dd, i: f"A{i}")
    if open(fn).read().strip() != "T|L|7|X": fails.append((dict(it=it), "user fields do not take precedence", open(fn).read()))
# a given charge / multiplicity takes precedence: the object's own value is then not needed, even when it cannot be computed
from iodata.orbitals import MolecularOrbitals
gen = IOData(atnums=[1, 1], atcoords=np.array([[0.0, 0, 0], [0, 0, 1.4]]), mo=MolecularOrbitals("generalized", None, None, occs=np.array([1.0, 1.0, 0.0, 0.0]), coeffs=np.eye(4)))
nanq = IOData(atnums=[1, 1], atcoords=np.array([[0.0, 0, 0], [0, 0, 1.4]]), charge=float("nan"))
for prog in ("gaussian", "orca"):
    for name, obj, kw in (("spinmult given, generalized orbitals (no spin polarisation)", gen, dict(spinmult=1)), ("charge given, charge of the object is not a number", nanq, dict(charge=0))):
        cases += 1
        fn = os.path.join(tmp, "inp3")
        try:
            write_input(obj, fn, prog, **kw)
            m = re.search(r"^(?:\*xyz )?(-?\d+) (\d+)$", open(fn).read(), re.M)
            if not m or (int(m.group(1)), int(m.group(2))) != (0, 1): fails.append(((prog, name), "a given charge / multiplicity is not the one written"))
        except Exception as exc:
            fails.append(((prog, name, repr(exc.__cause__)[:80]), "a given charge / multiplicity does not take precedence: the object is still asked for its own"))
sig = {}
for f in fails: sig.setdefault(f[1], f)
print(json.dumps(dict(cases=cases, nfails=len(fails), kinds={k: repr(v)[:400] for k, v in sig.items()}), default=str))
"""
_TAIL = "print(json.dumps(dict(cases=cases, nfails=len(fails), kinds={k: repr(v)[:400] for k, v in sig.items()}), default=str))"


def run_bounded(chk):
    nmol = 50 if chk.tier == "quick" else 500
    env = dict(os.environ, PYTHONPATH=source.REPO)
    out = subprocess.run([VENV_PY, "-c", BOUNDED, str(chk.seed), str(nmol)], capture_output=True, text=True, env=env, cwd="/", timeout=3000)
    if out.returncode != 0:
        chk.fault(f"bounded driver crashed: {out.stderr[-1500:]}")
        return
    res = json.loads(out.stdout.strip().splitlines()[-1])
    bound = f"{nmol} seeded molecules (1..200 atoms, all elements) x both programs x charge/spin settings incl. fractional and absent; user template with overriding fields"
    for kind, example in sorted(res["kinds"].items()):
        script = BOUNDED.replace("seed, nmol = int(sys.argv[1]), int(sys.argv[2])", f"seed, nmol = {chk.seed}, {nmol}").replace(_TAIL, f"print(sig.get({kind!r}))\nif {kind!r} in sig:\n    print('REPRODUCED'); sys.exit(1)")
        chk.add_bounded(f"inputs.{kind}", bound, res["cases"], [example], replay_script=script)
    if not res["kinds"]:
        chk.add_bounded("inputs", bound, res["cases"], [])


REPLAY_CHARGE = """
import sys, io
import numpy as np
from iodata import IOData
from iodata.inputs.common import write_input_base
d = IOData(atnums=[8, 1], atcoords=np.zeros((2, 3)), charge=-0.6)
buf = io.StringIO()
write_input_base(buf, d, "{charge}", lambda dd, i: "", {})
print("charge -0.6 is written as", buf.getvalue().strip(), "(nearest integer: -1)")
if buf.getvalue().strip() != "-1":
    print("REPRODUCED"); sys.exit(1)
"""


REPLAY_SPINMULT = """
import sys, io
import numpy as np
from iodata import IOData
from iodata.inputs.common import write_input_base
from iodata.orbitals import MolecularOrbitals
d = IOData(atnums=[1, 1], atcoords=np.zeros((2, 3)), mo=MolecularOrbitals("generalized", None, None, occs=np.array([1.0, 1.0]), coeffs=np.eye(2)))
buf = io.StringIO()
try:
    write_input_base(buf, d, "{charge} {spinmult}", lambda dd, i: "", {"spinmult": 1})
except Exception as exc:
    print("spinmult=1 was given, but the object was still asked for its spin polarisation:", repr(exc))
    print("REPRODUCED"); sys.exit(1)
print("written:", buf.getvalue().strip())
"""


def run(chk):
    chk.functions += ["iodata.api.write_input (error contract)", "iodata.inputs.common.write_input_base", "iodata.inputs.gaussian.write_input", "iodata.inputs.gaussian.default_atom_line", "iodata.inputs.orca.write_input", "iodata.inputs.orca.default_atom_line", "iodata.periodic.num2sym (ground)"]
    chk.trusted += ["z3", "str.format / str.join / f-string rendering (contracts are stated on the fields handed to them)", "attrs.asdict(obj, recurse=False) = {field name: value}", "np.round = round half to even; int() = truncation; abs()", "dict lookup with a symbolic key = case split over the keys"]
    chk.assumptions += [A_FP, "api.write_input error contract: obligations of checks.c08.job_write_input, re-run here"]
    jobs = [("checks.c19", "job_base", {}), ("checks.c19", "job_symbols", {})] + [("checks.c19", "job_atom_line", {"prog": p}) for p in ("gaussian", "orca")] + [("checks.c19", "job_write_input", {"prog": p}) for p in ("gaussian", "orca")]
    # "unknown program names raise FileFormatError and any failure while rendering raises WriteInputError": the
    # contract of api.write_input is the one proved for C08; its obligations are re-proved here on every run
    jobs.append(("checks.c08", "job_write_input", {}))
    collect(chk, run_jobs(jobs))
    run_bounded(chk)
    for o in chk.ledger.obligations.values():
        if o.status == "refuted" and "charge-is-rounded" in o.name:
            chk.set_replay(o.name, REPLAY_CHARGE)
        if o.status == "refuted" and "a-given-spinmult-is-used" in o.name:
            chk.set_replay(o.name, REPLAY_SPINMULT)
    chk.samples = [o.as_dict() for o in list(chk.ledger.obligations.values())[:6]]
    chk.notes["explanation"] = "C19: field-level contracts of the input writers for all molecules, charges and spin settings"
