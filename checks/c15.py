"""C15 - after one save/reload cycle, further cycles change nothing.

What is decided, and how
  Z2 (contract on every float field a writer prints, generated from the writer's source on every run):
      stable@<fmt>.<func>:{expr:spec}  --  text -> float -> [unit factor, inverse unit factor] -> text is the identity.
      The obligation is a rounding inequality over the format spec (pyvc/fmtspec.stability_condition):
        - no arithmetic between parsing and printing: correctly rounded print/parse is idempotent after one cycle;
        - with a unit factor in between: 6.02 u B < 10^-d for fixed point (B = what the column holds),
          30.1 u < 0.5 10^-d for scientific notation; 16 significant digits are never stable; 17 only without arithmetic.
      no-grouping@...: a number that float() must parse carries no thousands separator.
  Z5 (contract between a writer and its reader): every factor applied to a printed value is a unit constant of
      iodata.utils and the reader applies the inverse operation with the same constant.
  Z1 (bounded): three generations of save/reload on generated objects and on every corpus file converted to every
      format that accepts it; generation 2 must equal generation 1 bit for bit and file 3 must equal file 2.
The margin lemma (a unit factor between parsing and printing) is machine-checked on every run for each (precision, column
bound) a writer uses: pyvc/rounding.py, z3 over exact rationals, under the standard model fl(x) = x(1+d), |d| <= 2^-53.
Values printed as stored: fixed point by lemma.round.bare-fixed (z3: print half-even -> nearest double -> print half-even
is the identity on the text), scientific with <= 15 significant digits by the mantissa lemma with |D| <= u; 16 significant
digits are refuted (not idempotent next to powers of ten); >= 17 digits identify the double (classical, trusted).
"""

from __future__ import annotations

import random

from pyvc import fmtspec, rounding
from pyvc.core import Ledger

from . import rt_common

LEVEL = "other"


def lemma_sampling(chk):
    """The 'bare' lemma and the margin conditions, against CPython's float()/format() on random doubles."""
    rng = random.Random(chk.seed + 15)
    bad = []
    n = 0
    specs = [".3f", ".6f", ".10f", ".16f", ".18f", ".5E", ".8E", ".14E", ".15E", ".16e", ".17e"]
    for _ in range(40000 if chk.tier == "quick" else 400000):
        x0 = rng.choice([1, -1]) * rng.random() * 10.0 ** rng.randint(-12, 6)
        for spec in specs:
            s1 = format(x0, spec)
            s2 = format(float(s1), spec)
            n += 1
            if s1 != s2 and len(bad) < 3:
                bad.append({"x0": repr(x0), "spec": spec, "s1": s1, "s2": s2})
    chk.add_bounded("lemma.print-parse-print-is-idempotent-without-arithmetic", f"{n} random doubles x format specs {specs}", n, bad, note="assumption of the stable@ obligations, validated here by sampling only")
    # with a unit factor: v decimal with d digits, |v| < B as allowed by the inequality
    import math

    a = 1.8897261246257702  # any factor works for the lemma; this is 1 / (bohr in angstrom)
    bad, n = [], 0
    for d, k in [(3, 3), (4, 4), (4, 9), (6, 3), (10, 3), (10, 5), (6, 6), (7, 6), (8, 2)]:
        assert 6.02 * fmtspec.U * 10.0**k < 10.0**-d
        for _ in range(3000 if chk.tier == "quick" else 30000):
            v = round(rng.uniform(-1, 1) * 10.0**k, d)
            s1 = format(v, f".{d}f")
            s2 = format((float(s1) * a) / a, f".{d}f")
            n += 1
            if s1 != s2 and len(bad) < 3:
                bad.append({"s1": s1, "s2": s2, "d": d, "bound": f"1e{k}"})
    for d in (5, 8, 14):
        for _ in range(3000 if chk.tier == "quick" else 30000):
            v = rng.uniform(1, 10) * 10.0 ** rng.randint(-20, 20)
            s1 = format(v, f".{d}E")
            s2 = format((float(s1) * a) / a, f".{d}E")
            n += 1
            if s1 != s2 and len(bad) < 3:
                bad.append({"s1": s1, "s2": s2, "d": d})
    chk.add_bounded("lemma.margin-condition-implies-stability-through-a-unit-factor", f"{n} random decimals inside the bounds the inequalities allow", n, bad, note="cross-check of the floating-point model of pyvc/rounding.py against CPython; the lemma itself is discharged by z3 (lemma.round.*)")
    del math


_lemma_done = {}


def lemma_status(led, inst):
    """Prove (once per run) the instance of the rounding lemma that a field's margin refers to; returns its status."""
    if "accumulate" not in _lemma_done:
        rounding.prove_accumulate(led)
        _lemma_done["accumulate"] = led.obligations["pyvc.rounding::lemma.round.accumulate"].status
    if inst not in _lemma_done:
        if inst[0] == "f":
            rounding.prove_fixed(inst[1], inst[2], led)
            names = [f"pyvc.rounding::lemma.round.fixed[p={inst[1]},k={inst[2]}]"]
        else:
            rounding.prove_sci(inst[1], led)
            names = [f"pyvc.rounding::lemma.round.sci[p={inst[1]}]", f"pyvc.rounding::lemma.round.sci-scale[p={inst[1]}]"]
        sts = [led.obligations[n].status for n in names] + [_lemma_done["accumulate"]]
        _lemma_done[inst] = "discharged" if all(x == "discharged" for x in sts) else ("refuted" if "refuted" in sts else "unknown")
    return _lemma_done[inst]


def static_obligations(chk):
    led = Ledger()
    _lemma_done.clear()
    nfields = 0
    for fmt in rt_common.RW_FORMATS:
        reader_ops = fmtspec.reader_unit_ops("iodata.formats." + fmt)
        for rec, f, org in rt_common.float_fields(fmt):
            nfields += 1
            name = rt_common.field_name(fmt, rec, f)
            bare = not org.factors and not org.unknown
            ok, why = fmtspec.stability_condition(f, bare)
            p = f.parsed() or {}
            grouping_ok = not (p.get("group") and p.get("type") in ("f", "F", "g", "G", "%"))
            led.record(f"no-grouping@{name}", "post", "discharged" if grouping_ok else "refuted", "ast", 0.0, detail="a thousands separator makes the number unreadable for float()", witness={"record": rec.text(), "line": f.line, "failing value": "any |v| >= 1000"})
            if not grouping_ok:
                continue
            origin = "; ".join(f"{op} {src[:50]} ({kind})" for op, src, kind in org.factors) or "printed as stored"
            inst = None if bare else fmtspec.margin_instance(f)
            if ok is None:
                led.record(f"stable@{name}", "post", "unknown", "ast", 0.0, detail=why)
            elif inst is not None:
                # the verdict rests on the margin inequality: decide it in exact rationals and tie a positive verdict to the
                # machine-checked instance of the rounding lemma (pyvc/rounding.py)
                exact = rounding.ground_margin_agrees(inst[0], inst[1], inst[2] if inst[0] == "f" else None, ok, led)
                lemma = lemma_status(led, inst) if exact else None
                status = "refuted" if not exact else ("discharged" if lemma == "discharged" else "unknown")
                led.record(f"stable@{name}", "post", status, "exact-rational + z3 lemma", 0.0, detail=f"{why}; lemma instance {inst}: {lemma}; origin of the value: {origin}", witness={"record": rec.text(), "line": f.line, "origin": origin})
            elif bare and ok and fmtspec.bare_instance(f) in (("bare-f",),) + tuple(("e", d) for d in range(15)):
                # printed as stored: the verdict rests on the bare lemma (fixed point) or on the mantissa lemma with |D| <= u
                binst = fmtspec.bare_instance(f)
                if binst == ("bare-f",):
                    if "bare-f" not in _lemma_done:
                        rounding.prove_bare_fixed(led)
                        _lemma_done["bare-f"] = led.obligations["pyvc.rounding::lemma.round.bare-fixed"].status
                    lemma = _lemma_done["bare-f"]
                else:
                    lemma = lemma_status(led, binst)
                led.record(f"stable@{name}", "post", "discharged" if lemma == "discharged" else "unknown", "z3 lemma", 0.0, detail=f"{why}; lemma instance {binst}: {lemma}; origin of the value: {origin}", witness={"record": rec.text(), "line": f.line, "origin": origin})
            else:
                led.record(f"stable@{name}", "post", "discharged" if ok else "refuted", "arith", 0.0, detail=f"{why}; origin of the value: {origin}", witness={"record": rec.text(), "line": f.line, "origin": origin})
            # Z5: factors are units with the inverse operation in the reader
            for op, src, kind in org.factors:
                if op not in ("Mult", "Div"):
                    continue
                inv = {"Mult": "Div", "Div": "Mult"}[op]
                if kind == "unit":
                    okf = (inv, src) in reader_ops
                    led.record(f"inverse-unit@{name}:{op}.{src}", "post", "discharged" if okf else "refuted", "ast", 0.0, detail=f"writer applies {op} {src}; unit operations in the reader: {sorted(reader_ops)}", witness={"record": rec.text(), "line": f.line})
                else:
                    led.record(f"factor-is-a-unit-constant@{name}", "post", "refuted", "ast", 0.0, detail=f"the printed value is scaled by {src!r}, which is not a unit constant of iodata.utils; the reader cannot apply its inverse", witness={"record": rec.text(), "line": f.line, "factor": src})
    if nfields == 0:
        chk.fault("no float fields found in any writer: the extraction is broken")
    return led


REPLAY_POSCAR = """\
# stable@poscar: search cell vectors / positions whose POSCAR text changes when saved, reloaded and saved again
import io, sys, numpy as np
from iodata import IOData, dump_one, load_one
import tempfile, os
rng = np.random.default_rng(0)
tmp = tempfile.mkdtemp()
__import__("atexit").register(__import__("shutil").rmtree, tmp, True)
for trial in range(400):
    cell = np.diag(rng.uniform(3, 30, 3)) + rng.uniform(-0.5, 0.5, (3, 3))
    mol = IOData(atnums=[8, 1, 1], atcoords=rng.uniform(-5, 5, (3, 3)), cellvecs=cell, title="t")
    texts = []
    for g in range(3):
        fn = os.path.join(tmp, f"g{g}.poscar")
        dump_one(mol, fn, fmt="poscar")
        texts.append(open(fn).read())
        mol = load_one(fn, fmt="poscar")
    if texts[1] != texts[2]:
        l1, l2 = texts[1].splitlines(), texts[2].splitlines()
        diff = [(a, b) for a, b in zip(l1, l2) if a != b]
        print("trial", trial, "first differing line of generations 2 and 3:")
        print(" ", diff[0][0]); print(" ", diff[0][1])
        print("REPRODUCED"); sys.exit(1)
print("not reproduced")
"""


def run(chk):
    chk.functions += [f"iodata.formats.{fmt}: every record printed by dump_one / dump_many and the helpers they call (float fields under the stability contract)" for fmt in rt_common.RW_FORMATS if fmt != "json_qcschema"]
    chk.trusted += [
        "CPython float() and format() are correctly rounded (IEEE 754 binary64, round-half-even)",
        "floating-point model of pyvc/rounding.py: float(text), one multiplication and one division each return x(1+d), |d| <= 2^-53 (no overflow/underflow), and format() returns a nearest decimal of the requested precision; under this model the margin lemma is machine-checked (lemma.round.* obligations, z3, exact rationals) and additionally sampled against CPython on every run",
        "values printed as stored: float() returns a double at least as near to the text as any other double and format() rounds half-even (fixed point: lemma.round.bare-fixed, z3; scientific with <= 15 significant digits: lemma.round.sci[p]); 17 or more significant digits identify a double (classical result, not machine-checked); all of it additionally sampled against CPython on every run",
        "readers apply no arithmetic other than the unit factors found by fmtspec.reader_unit_ops to the parsed numbers (Molden/Molekel vendor fixes, WFN/WFX normalisation scales and json are covered by the bounded cycles only)",
        "convert_conventions returns signs in {+1,-1} (proved in C10), so multiplying by them is exact",
    ]
    chk.assumptions += ["exponents have two digits (|x| in 1e-99..1e99)", "fixed-point fields without a width hold |v| < 1e6"]
    for fmt in rt_common.RW_FORMATS:
        for o in rt_common.opaque_records(fmt):
            if "title" not in o and "tag" not in o:
                chk.not_covered.append("record not analysable statically (bounded cycles only): " + o)
    chk.not_covered += ["json_qcschema: json.dump of Python floats (repr, shortest round-trip) - no format specs; bounded cycles only", "ordering of records, defaulted titles, reader heuristics (WFN spin guess, Molden vendor fixes, FCHK, PDB): bounded cycles only"]
    chk.merge(static_obligations(chk))
    for o in chk.ledger.obligations.values():
        if o.status == "refuted" and o.name.startswith("stable@poscar:"):
            chk.set_replay(o.name, REPLAY_POSCAR)
    lemma_sampling(chk)
    rt_common.run_probe(chk, "c15")
    chk.samples = [o.as_dict() for o in list(chk.ledger.obligations.values())[:6]]
    chk.notes["explanation"] = "C15: per-field stability inequalities generated from the writers' format specs (deductive: margin lemma instances discharged by z3 under the standard floating-point error model; values printed with 17+ digits rest on the classical shortest-round-trip result), unit-factor inverses, and three-generation cycles on generated objects and the converted corpus (bounded)"
