"""C11 -- charge, electron count and core charges stay consistent under any assignments.

Inductive argument over *all* histories: a representation invariant Inv on IOData's stored fields, proved to be
established by the constructor and preserved by every operation of the quantifier's alphabet, from an arbitrary
state satisfying Inv (so no bound on the length of the history).  The statement's clauses are postconditions of
the operations, evaluated through the real getters.

Targets (real source, re-read every run): IOData.__attrs_post_init__, getters atcorenums/charge/natom/nelec/
spinpol, setters atcorenums/charge/nelec/spinpol, attrutils.validate_shape.<locals>.validator,
attrutils.convert_array_to.<locals>.converter; attrs-generated __init__/__setattr__ through the attrs model.
"""

from __future__ import annotations

import itertools
import json
import os
import subprocess

import z3

from pyvc import source
from pyvc.core import Ledger, OutsideSubset
from pyvc.harness import get_target, verify
from pyvc.interp import Config, PyRaise
from pyvc.pool import collect, run_jobs
from pyvc.report import A_FP, VENV_PY
from pyvc.values import Obj, Opaque, SArr, SBool, SInt, SOpt, SReal, to_z3, wrap

LEVEL = "other"
T = "iodata.iodata.IOData"

PER_ATOM = {  # field -> (dtype, trailing shape)
    "atcoords": ("float", (3,)),
    "_atcorenums": ("float", ()),
    "atfrozen": ("bool", ()),
    "atgradient": ("float", (3,)),
    "atmasses": ("float", ()),
    "atnums": ("int", ()),
}
OBS = ("atcorenums", "charge", "natom", "nelec", "spinpol")


def iodata_cls():
    return source.import_repo("iodata.iodata").IOData


def fresh_array(tag, shape, dtype):
    return SArr.fresh(tag, shape, dtype)


def make_state(ctx, tag="s"):
    """An arbitrary IOData state satisfying Inv (all non-None per-atom arrays agree on n)."""
    import attrs

    cls = iodata_cls()
    obj = Obj(cls, tag=f"iodata.{tag}")
    n = z3.Int(f"{tag}.natom")
    ctx.assume(n >= 0)
    for f in attrs.fields(cls):
        if f.name in PER_ATOM:
            dt, rest = PER_ATOM[f.name]
            obj.fields[f.name] = SOpt(z3.Bool(f"{tag}.{f.name}.isnone"), fresh_array(f"{tag}.{f.name}", (n, *rest), dt))
        elif f.name in ("_charge", "_nelec", "_spinpol"):
            obj.fields[f.name] = SOpt(z3.Bool(f"{tag}.{f.name}.isnone"), SReal(z3.Real(f"{tag}.{f.name}")))
        elif f.name == "mo":
            obj.fields[f.name] = SOpt(z3.Bool(f"{tag}.mo.isnone"), make_mo(tag))
        elif isinstance(f.default, attrs.Factory):
            obj.fields[f.name] = f.default.factory()
        else:
            obj.fields[f.name] = f.default
    # ghost: _atcorenums was filled in lazily from atnums (and not assigned by the user since)
    obj.ghost_derived = z3.Bool(f"{tag}.derived")
    return obj, n


def make_mo(tag):
    """Orbitals by contract: nelec / spinpol are fixed values of the object (C12), IOData never mutates it."""
    mo = Opaque(f"{tag}.mo", pytype=source.import_repo("iodata.orbitals").MolecularOrbitals)
    mo.attrs["nelec"] = SOpt(z3.Bool(f"{tag}.mo.nelec.isnone"), SReal(z3.Real(f"{tag}.mo.nelec")))
    mo.attrs["spinpol"] = SOpt(z3.Bool(f"{tag}.mo.spinpol.isnone"), SReal(z3.Real(f"{tag}.mo.spinpol")))
    return mo


def clone(obj):
    c = Obj(obj.cls, dict(obj.fields), tag=obj.tag + "'")
    return c


def field_terms(v):
    """(isnone z3 Bool, value or None) of a stored field."""
    if isinstance(v, SOpt):
        return v.isnone, v.val
    if v is None:
        return z3.BoolVal(True), None
    return z3.BoolVal(False), v


def inv(obj):
    """Inv: all non-None per-atom arrays have first extent n for one n, and the documented trailing shape."""
    n = z3.Int("inv.n")
    conj = []
    for name, (dt, rest) in PER_ATOM.items():
        isnone, val = field_terms(obj.fields[name])
        if val is None:
            continue
        if not isinstance(val, SArr) or val.ndim != 1 + len(rest) or val.dtype != dt:
            conj.append(z3.Or(isnone, z3.BoolVal(False)))
            continue
        shape_ok = [_t(val.shape[0]) == n] + [_t(val.shape[1 + k]) == r for k, r in enumerate(rest)]
        conj.append(z3.Or(isnone, z3.And(*shape_ok)))
    # I3: the stored charge is only used while no core charges are stored
    zn, _ = field_terms(obj.fields["_atcorenums"])
    cn, _ = field_terms(obj.fields["_charge"])
    return z3.And(z3.Or(zn, cn), z3.Exists([n], z3.And(n >= 0, *conj)))


def _t(x):
    return z3.IntVal(x) if isinstance(x, int) else x


def observe(interp, obj):
    """Results of the five getters on a *copy* of the state (getters may fill in the lazy default)."""
    c = clone(obj)
    out = {}
    for name in OBS:
        try:
            out[name] = interp.load_attr(c, name)
        except PyRaise as pr:
            out[name] = ("raise", type(pr.exc).__name__, str(pr.exc)[:200])
    return out


def same(a, b):
    """z3 Bool: two observed values are equal."""
    if isinstance(a, tuple) or isinstance(b, tuple):
        return z3.BoolVal(isinstance(a, tuple) and isinstance(b, tuple) and a == b)
    if a is None or b is None:
        return z3.BoolVal(a is None and b is None)
    if isinstance(a, SArr) and isinstance(b, SArr):
        if a.ndim != b.ndim:
            return z3.BoolVal(False)
        idx = [z3.Int(f"sm{k}") for k in range(a.ndim)]
        rng = z3.And(*[z3.And(i >= 0, i < _t(s)) for i, s in zip(idx, a.shape)])
        return z3.And(*[_t(x) == _t(y) for x, y in zip(a.shape, b.shape)], z3.ForAll(idx, z3.Implies(rng, a.get(tuple(idx)) == b.get(tuple(idx)))))
    ta, tb = to_z3(a), to_z3(b)
    if ta.sort() != tb.sort():
        ta = z3.ToReal(ta) if ta.sort() == z3.IntSort() else ta
        tb = z3.ToReal(tb) if tb.sort() == z3.IntSort() else tb
    return ta == tb


def same_obs(o1, o2, names=OBS):
    return {k: same(o1[k], o2[k]) for k in names}


# ------------------------------------------------------------------------------------------------
# operations of the quantifier's alphabet
# ------------------------------------------------------------------------------------------------


def new_value(ctx, name):
    """An arbitrary value a user may assign to attribute `name` (None or an array / number of any size)."""
    if name in PER_ATOM or name == "atcorenums":
        dt, rest = PER_ATOM["_atcorenums" if name == "atcorenums" else name]
        m = z3.Int(f"new.{name}.len")
        ctx.assume(m >= 0)
        shape = [m]
        for k, r in enumerate(rest):
            d = z3.Int(f"new.{name}.dim{k + 1}")
            ctx.assume(d >= 0)
            shape.append(d)
        return SOpt(z3.Bool(f"new.{name}.isnone"), fresh_array(f"new.{name}", tuple(shape), dt))
    if name in ("charge", "nelec", "spinpol"):
        return SOpt(z3.Bool(f"new.{name}.isnone"), SReal(z3.Real(f"new.{name}")))
    if name == "mo":
        return SOpt(z3.Bool("new.mo.isnone"), make_mo("new"))
    raise KeyError(name)


ASSIGN = ("atnums", "atcorenums", "charge", "nelec", "spinpol", "mo", "atcoords", "atmasses", "atgradient", "atfrozen")


def job_assign(name):
    """s.<name> = v from an arbitrary state s |= Inv, for an arbitrary v."""
    target = f"{T}.assign.{name}"

    def setup(ctx, interp):
        obj, n = make_state(ctx)
        ctx.assume(inv(obj))
        v = new_value(ctx, name)
        return None, [], {}, dict(obj=obj, v=v)

    def call(interp, fn, args, kwargs):
        return None

    def post(out, env):
        ctx, interp = out.ctx, out.interp
        obj = env["obj"]
        before = observe(interp, obj)
        v = interp.resolve(env["v"])
        work = obj
        try:
            interp.store_attr(work, name, v)
            raised = None
        except PyRaise as pr:
            raised = pr.exc
        after = observe(interp, work)
        if raised is not None:
            cls = raised.cls if isinstance(raised, Obj) else type(raised)
            ctx.prove(f"{target}::raises.only-TypeError", cls is TypeError, kind="raises")
            for k, g in same_obs(before, after).items():
                ctx.prove(f"{target}::raises-frame.every-observable-unchanged", g, kind="frame")
            if name in ("nelec", "spinpol"):
                ctx.prove(f"{target}::raises.only-with-orbitals-present", _notnone(obj.fields["mo"]), kind="raises")
            return
        ctx.prove(f"{target}::step.Inv-preserved", inv(work), kind="inv-step")
        # P1 charge == sum(atcorenums) - nelec whenever both are known
        p1(ctx, target, after)
        # P3 with orbitals: nelec / spinpol are those of the orbitals
        p3(ctx, target, work, after)
        if name in ("charge", "nelec", "spinpol"):
            # P2 reads back as assigned (a number; "to rounding"), core charges untouched.  The read-back is the
            # getter of that very property on the state right after the assignment.
            if v is not None:
                ctx.prove(f"{target}::post.reads-back-as-assigned", same(interp.load_attr(clone(work), name), v))
            ctx.prove(f"{target}::post.core-charges-unchanged", same(after["atcorenums"], before["atcorenums"]))
            ctx.prove(f"{target}::post.not-accepted-with-orbitals", z3.Not(_notnone(obj.fields["mo"])) if name != "charge" else z3.BoolVal(True))
        if name == "atcorenums":
            if v is not None:
                ctx.prove(f"{target}::post.reads-back-as-assigned", same(after["atcorenums"], v))
            else:
                # cleared: falls back to the default (atomic numbers) or None
                atn = interp.resolve(clone(work).fields["atnums"])
                want = atn.astype("float") if atn is not None else None
                ctx.prove(f"{target}::post.cleared-core-charges-default-to-atomic-numbers", same(after["atcorenums"], want))
        if name in ("atcoords", "atmasses", "atgradient", "atfrozen", "mo"):
            names = ("atcorenums",) if name == "mo" else ("atcorenums", "charge", "nelec", "spinpol")
            for k, g in same_obs(before, after, names).items():
                ctx.prove(f"{target}::post.{k}-unchanged", g)
        if name == "atnums":
            # P4: the default core charges follow the atomic numbers until core charges are set explicitly
            der = obj.ghost_derived
            isn, _ = field_terms(obj.fields["_atcorenums"])
            explicit = z3.And(z3.Not(isn), z3.Not(der))
            if v is not None:
                follows = same(after["atcorenums"], v.astype("float"))
                # (a) core charges not stored yet (never read, never set): the default follows the new atomic numbers
                ctx.prove(f"{target}::post.default-core-charges-follow-atomic-numbers.not-read-before", z3.Or(z3.Not(isn), follows))
                # (b) core charges stored only because a getter filled in the default (ghost flag `derived`)
                ctx.prove(f"{target}::post.default-core-charges-follow-atomic-numbers.after-lazy-read", z3.Or(isn, z3.Not(der), follows))
        # P6 reading is idempotent
        again = observe(interp, work)
        for k, g in same_obs(after, again).items():
            ctx.prove(f"{target}::post.reads-are-idempotent", g)

    return verify(target, setup, post, call=call, max_paths=6000)


def _notnone(v):
    isnone, _ = field_terms(v)
    return z3.Not(isnone)


def p1(ctx, target, ob):
    z, ne, ch = ob["atcorenums"], ob["nelec"], ob["charge"]
    if isinstance(z, SArr) and ne is not None and not isinstance(ne, tuple):
        ok = ch is not None and not isinstance(ch, tuple)
        ctx.prove(f"{target}::post.charge-is-core-charges-minus-electrons", same(ch, SReal(z.sum_term() - to_z3(ne))) if ok else False)


def p3(ctx, target, obj, ob):
    mo = obj.fields["mo"]
    if isinstance(mo, SOpt):
        return  # not looked at on this path
    if mo is not None:
        for k in ("nelec", "spinpol"):
            want = mo.attrs[k]
            want = None if (isinstance(want, SOpt) and z3.is_true(z3.simplify(want.isnone))) else want
            if isinstance(want, SOpt):
                # resolved by the getter on this path: compare under both cases
                ctx.prove(f"{target}::post.{k}-is-that-of-the-orbitals", z3.If(want.isnone, z3.BoolVal(ob[k] is None), same(ob[k], want.val) if ob[k] is not None else z3.BoolVal(False)))
            else:
                ctx.prove(f"{target}::post.{k}-is-that-of-the-orbitals", same(ob[k], want))


def job_read():
    """Reading any property from any state |= Inv: idempotent, preserves Inv, P1, P3, lazy default (P4)."""
    target = f"{T}.read"

    def setup(ctx, interp):
        obj, n = make_state(ctx)
        ctx.assume(inv(obj))
        return None, [], {}, dict(obj=obj)

    def post(out, env):
        ctx, interp = out.ctx, out.interp
        obj = env["obj"]
        env["obj0"] = clone(obj)  # the state before any read
        first = observe(interp, obj)
        for name in OBS:
            try:
                val = interp.load_attr(obj, name)
            except PyRaise as pr:
                val = ("raise", type(pr.exc).__name__)
            ctx.prove(f"{target}::post.no-getter-raises", not isinstance(val, tuple))
            ctx.prove(f"{target}::post.getter-agrees-with-first-read.{name}", same(val, first[name]))
        ctx.prove(f"{target}::step.Inv-preserved", inv(obj), kind="inv-step")
        second = observe(interp, obj)
        for k, g in same_obs(first, second).items():
            ctx.prove(f"{target}::post.reads-are-idempotent", g)
        # reading one property does not change what another one returns (each value is taken from its own copy of the
        # state, before and after the other read)
        for a in OBS:
            for b in OBS:
                if a == b:
                    continue
                try:
                    alone = interp.load_attr(clone(env["obj0"]), b)
                    ca = clone(env["obj0"])
                    interp.load_attr(ca, a)
                    after_a = interp.load_attr(ca, b)
                except PyRaise:
                    continue
                ctx.prove(f"{target}::post.reading-one-property-does-not-change-what-another-returns", same(after_a, alone))
        p1(ctx, target, first)
        p3(ctx, target, clone(obj), first)
        # P4 lazy default
        c = clone(obj)
        zc, atn = interp.resolve(c.fields["_atcorenums"]), interp.resolve(c.fields["atnums"])
        if zc is None:
            ctx.prove(f"{target}::post.core-charges-default-to-atomic-numbers", same(first["atcorenums"], atn.astype("float") if atn is not None else None))
        # natom agrees with every per-atom array that is present
        for fname in PER_ATOM:
            arr = interp.resolve(c.fields[fname])
            if arr is not None:
                ctx.prove(f"{target}::post.natom-agrees-with-every-per-atom-array", same(first["natom"], wrap(_t(arr.shape[0]))))

    return verify(target, setup, post, call=lambda *a: None, max_paths=6000)


def job_init():
    """IOData(**any subset of arguments): returns a state satisfying Inv + P1..P4, or raises TypeError."""
    target = f"{T}.__init__"

    def setup(ctx, interp):
        kw = {}
        for name in ("atcoords", "atcorenums", "atfrozen", "atgradient", "atmasses", "atnums", "charge", "nelec", "spinpol", "mo"):
            kw[name] = new_value(ctx, name)
        return iodata_cls(), [], kw, dict(kw=kw)

    def post(out, env):
        ctx, interp = out.ctx, out.interp
        kw = env["kw"]
        if out.kind == "raise":
            ctx.prove(f"{target}::raises.only-TypeError", out.exc_class is TypeError, kind="raises")
            return
        obj = out.value
        ctx.prove(f"{target}::init.Inv-established", inv(obj), kind="inv-init")
        ob = observe(interp, obj)
        p1(ctx, target, ob)
        p3(ctx, target, obj, ob)
        given = {k: (None if (isinstance(v, SOpt) and _decided_none(ctx, v)) else v) for k, v in kw.items()}
        # constructor arguments read back (when accepted)
        zc = _resolved(ctx, kw["atcorenums"])
        atn = _resolved(ctx, kw["atnums"])
        if zc is None and _resolved(ctx, kw["charge"]) is None:
            # (a given charge makes the charge setter read the core charges, which stores the lazy default: that is the
            # recorded finding, not this clause)
            # core charges that were not given stay *derived*: the constructor must not store a copy of the atomic numbers,
            # or a later assignment of atnums would no longer be followed (observe() above worked on a clone)
            isn, _ = field_terms(obj.fields["_atcorenums"])
            ctx.prove(f"{target}::post.core-charges-that-were-not-given-are-not-stored-by-the-constructor", isn)
        if zc is not None:
            ctx.prove(f"{target}::post.core-charges-read-back", same(ob["atcorenums"], zc))
        elif atn is not None:
            ctx.prove(f"{target}::post.core-charges-default-to-atomic-numbers", same(ob["atcorenums"], atn.astype("float")))
        mo = _resolved(ctx, kw["mo"])
        ne, ch, sp = (_resolved(ctx, kw[k]) for k in ("nelec", "charge", "spinpol"))
        if mo is None:
            if sp is not None:
                ctx.prove(f"{target}::post.spinpol-reads-back", same(interp.load_attr(clone(obj), "spinpol"), sp))
            if ne is not None and ch is None:
                ctx.prove(f"{target}::post.nelec-reads-back", same(interp.load_attr(clone(obj), "nelec"), ne))
            if ch is not None and ne is None:
                ctx.prove(f"{target}::post.charge-reads-back", same(interp.load_attr(clone(obj), "charge"), ch))
        else:
            ctx.prove(f"{target}::post.nelec-spinpol-not-accepted-with-orbitals", ne is None and sp is None)

    return verify(target, setup, post, max_paths=20000)


def _literal(ctx, b):
    """True / False when the path condition contains the literal b / Not(b); None when it was never decided."""
    nb = z3.Not(b)
    for c in ctx.pc:
        if c.eq(b):
            return True
        if c.eq(nb):
            return False
    return None


def _decided_none(ctx, v):
    return _literal(ctx, v.isnone) is True


def _resolved(ctx, v):
    """Value of an SOpt as decided on this path (None when it was None or never looked at)."""
    if not isinstance(v, SOpt):
        return v
    return v.val if _literal(ctx, v.isnone) is False else None


# ------------------------------------------------------------------------------------------------
# bounded stand-in / model cross-check: exhaustive operation sequences on the real class
# ------------------------------------------------------------------------------------------------
BOUNDED = r"""
import itertools, json, sys
import numpy as np
from iodata import IOData
from iodata.orbitals import MolecularOrbitals
depth = int(sys.argv[1])
def mo(): return MolecularOrbitals("restricted", 2, 2, occs=np.array([2.0, 1.0]))
VALS = {
 "atnums": [None, np.array([1, 8]), np.array([6, 1, 1]), np.array([7, 1])],
 "atcorenums": [None, np.array([1.0, 6.0]), np.array([4.0, 1.0, 1.0]), [1.0, 1.0]],
 "charge": [None, 0.0, 1.0, -0.5],
 "nelec": [None, 9.0, 9.5],
 "spinpol": [None, 1.0],
 "mo": [None, "MO"],
 "atcoords": [None, np.zeros((2, 3)), np.ones((3, 3))],
 "atmasses": [None, np.ones(3)],
 "atgradient": [None, np.zeros((2, 3))],
 "atfrozen": [None, np.array([True, False])],
}
OPS = [(k, i) for k, vs in VALS.items() for i in range(len(vs))]
PER_ATOM = ["atcoords", "_atcorenums", "atgradient", "atfrozen", "atmasses", "atnums"]
def obs(m):
    out = []
    for k in ("atcorenums", "charge", "natom", "nelec", "spinpol"):
        v = getattr(m, k)
        out.append(None if v is None else (np.asarray(v).tolist()))
    return out
def close(a, b):
    if a is None or b is None: return a is None and b is None
    return np.allclose(np.asarray(a, float), np.asarray(b, float), atol=1e-12)
def check(m, hist, fails):
    o = obs(m)
    o2 = obs(m)
    if o != o2: fails.append((hist, "reads not idempotent", o, o2))
    z, ch, nat, ne, sp = o
    if z is not None and ne is not None and (ch is None or abs(ch - (sum(z) - ne)) > 1e-9): fails.append((hist, "charge != sum(atcorenums) - nelec", o))
    lens = {k: len(getattr(m, k)) for k in PER_ATOM if getattr(m, k) is not None}
    if len(set(lens.values())) > 1: fails.append((hist, "per-atom arrays disagree", lens))
    if m.mo is not None and (ne != m.mo.nelec or sp != m.mo.spinpol): fails.append((hist, "nelec/spinpol differ from orbitals", o))
    return o
def val(k, i):
    v = VALS[k][i]
    return mo() if isinstance(v, str) else (v.copy() if isinstance(v, np.ndarray) else v)
fails, cases = [], 0
inits = [dict()] + [{k: i} for k, i in OPS if VALS[k][i] is not None] + [{"atnums": 1, "charge": 1}, {"atnums": 1, "nelec": 1}, {"atcoords": 2, "charge": 1}, {"atnums": 2, "atcoords": 1}]
for init in inits:
    for seq in itertools.product(OPS, repeat=depth):
        hist = [("init", init)] + list(seq)
        try:
            m = IOData(**{k: val(k, i) for k, i in init.items()})
        except TypeError:
            cases += 1
            break
        except Exception as exc:
            fails.append((hist[:1], "constructor raised " + type(exc).__name__)); break
        o = check(m, hist[:1], fails)
        explicit = "atcorenums" in init
        for step, (k, i) in enumerate(seq):
            cases += 1
            v = val(k, i)
            h = hist[: step + 2]
            try:
                setattr(m, k, v)
            except TypeError:
                o2 = obs(m)
                if not all(close(a, b) for a, b in zip(o, o2)): fails.append((h, "observables changed by a rejected assignment", o, o2))
                continue
            except Exception as exc:
                fails.append((h, "assignment raised " + type(exc).__name__, str(exc))); break
            o2 = check(m, h, fails)
            if k in ("charge", "nelec", "spinpol"):
                if not close(getattr(m, k), v): fails.append((h, k + " does not read back", o2))
                if not close(o[0], o2[0]): fails.append((h, "core charges changed by assigning " + k, o, o2))
            if k == "atcorenums":
                explicit = v is not None
                if v is not None and not close(o2[0], v): fails.append((h, "atcorenums does not read back", o2))
            if k == "atnums" and v is not None and not explicit and not close(o2[0], v): fails.append((h, "default core charges do not follow atnums", o2))
            o = o2
        if len(fails) > 200: break
sig = {}
for f in fails:
    sig.setdefault(f[1], f)
print(json.dumps(dict(cases=cases, nfails=len(fails), kinds={k: repr(v)[:600] for k, v in sig.items()}), default=str))
"""


def run_bounded(chk):
    depth = 2 if chk.tier == "quick" else 3
    env = dict(os.environ, PYTHONPATH=source.REPO)
    out = subprocess.run([VENV_PY, "-c", BOUNDED, str(depth)], capture_output=True, text=True, env=env, cwd="/", timeout=3000)
    if out.returncode != 0:
        chk.fault(f"bounded driver crashed: {out.stderr[-1500:]}")
        return {}
    res = json.loads(out.stdout.strip().splitlines()[-1])
    kinds = res["kinds"]
    for kind, example in sorted(kinds.items()):
        script = BOUNDED.replace("depth = int(sys.argv[1])", f"depth = {depth}").replace(
            "print(json.dumps(dict(cases=cases, nfails=len(fails), kinds={k: repr(v)[:600] for k, v in sig.items()}), default=str))",
            f"print(sig.get({kind!r}))\nif {kind!r} in sig:\n    print('REPRODUCED'); sys.exit(1)",
        )
        chk.add_bounded(f"histories.{kind}", f"all operation sequences of depth {depth} after {38} constructor variants over the value alphabet", res["cases"], [example], replay_script=script)
    if not kinds:
        chk.add_bounded("histories", f"all operation sequences of depth {depth} over the value alphabet", res["cases"], [])
    return kinds


REPLAY_FRAME = """
import sys
import numpy as np
from iodata import IOData
m = IOData(atcoords=np.zeros((3, 3)), charge=1.0)
before = (m.charge, m.nelec)
try:
    m.atcorenums = np.array([1.0, 1.0])
    print("assignment of 2 core charges to a 3-atom object was accepted"); sys.exit(0)
except TypeError as exc:
    print("TypeError:", exc)
after = (m.charge, m.nelec)
print("(charge, nelec) before:", before, "after the rejected assignment:", after)
if before != after:
    print("REPRODUCED"); sys.exit(1)
"""

REPLAY_STALE = """
import sys
import numpy as np
from iodata import IOData
m = IOData(atnums=[1, 1])
print("default core charges:", m.atcorenums)
m.atnums = [8, 1]
print("after atnums = [8, 1]: atcorenums =", m.atcorenums, "(never set explicitly)")
if not np.array_equal(m.atcorenums, [8.0, 1.0]):
    print("REPRODUCED"); sys.exit(1)
"""

REPLAY_LIST = """
import sys
import numpy as np
from iodata import IOData
m = IOData(atcoords=np.zeros((2, 3)), charge=1.0)
try:
    m.atcorenums = [1.0, 1.0]
    print("accepted; charge =", m.charge, "atcorenums =", m.atcorenums)
except TypeError as exc:
    print("TypeError", exc)
except Exception as exc:
    print("escaping exception type:", type(exc).__name__, exc)
    print("REPRODUCED"); sys.exit(1)
"""


REPLAY_CROSSREAD = """
import copy, sys
from iodata import IOData
d = IOData()
d.charge = 0
d.atnums = [1, 1]
alone = copy.copy(d).nelec
c = copy.copy(d)
c.charge  # a pure read
after = c.nelec
print("nelec read from a fresh copy:", alone, "; nelec after reading charge:", after)
if alone != after:
    print("REPRODUCED"); sys.exit(1)
"""


def run(chk):
    chk.functions += [f"{T}.__attrs_post_init__"] + [f"{T}.{g} (getter)" for g in OBS] + [f"{T}.{s} (setter)" for s in ("atcorenums", "charge", "nelec", "spinpol")]
    chk.functions += ["iodata.attrutils.validate_shape.<locals>.validator", "iodata.attrutils.convert_array_to.<locals>.converter"]
    chk.trusted += [
        "z3",
        "attrs model: __init__ = convert+store every field in order, then validators in field order, then __attrs_post_init__; __setattr__ = convert, validate, then store (cross-checked against real attrs by the bounded driver and the interpreter differential)",
        "axiom: np.asarray(a, dtype) returns a itself when it is an ndarray of that dtype, an element-wise converted array otherwise",
        "axiom: ndarray.sum is the recursive sum; astype(float) is element-wise",
        "orbitals by contract (C12): mo.nelec / mo.spinpol are fixed values of the object; IOData never mutates mo",
    ]
    chk.assumptions += [A_FP, "assigned values are None, numbers, or ndarrays of the attribute's dtype with arbitrary shape of the documented rank (lists are covered by the bounded driver only)", "dict-valued attributes (atcharges, atffparams, ...) hold per-atom arrays no validator sees; outside the statement"]
    jobs = [("checks.c11", "job_assign", {"name": n}) for n in ASSIGN] + [("checks.c11", "job_read", {}), ("checks.c11", "job_init", {})]
    collect(chk, run_jobs(jobs))
    kinds = run_bounded(chk)
    for o in chk.ledger.obligations.values():
        if o.status != "refuted":
            continue
        if "assign.atcorenums::raises-frame" in o.name:
            chk.set_replay(o.name, REPLAY_FRAME)
        elif "default-core-charges-follow-atomic-numbers.after-lazy-read" in o.name:
            chk.set_replay(o.name, REPLAY_STALE)
        elif "reading-one-property-does-not-change-what-another-returns" in o.name:
            chk.set_replay(o.name, REPLAY_CROSSREAD)
    chk.samples = [o.as_dict() for o in list(chk.ledger.obligations.values())[:6]]
    chk.notes["explanation"] = "C11: representation invariant + per-operation contracts proved from an arbitrary state (all histories by induction); exceptional frame included"
