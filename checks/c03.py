"""C03 -- loaded values are exactly what the file says under the format's layout.

Deductive part (all inputs):
  * fchk._triangle_to_dense: loop invariant, for every matrix size: dense[i,j] == packed[max(i,j)(max(i,j)+1)/2 + min(i,j)]
  * column contracts of the fixed-column PDB records (ATOM/HETATM, CONECT) against the PDB v3.3 layout
Finite, exhaustive over width classes (digits sampled): record-level readers fed with lines produced by independent
writers that follow the published layouts (bounded/layout_probe.py), every field crossing its width boundaries.
Everything else of the 25 readers (free-text log parsers, section state machines) is not reached: see not_covered.
"""

from __future__ import annotations

import ast
import json
import os
import subprocess

import z3

from pyvc import source
from pyvc.core import Ledger
from pyvc.harness import get_target, verify
from pyvc.interp import Config, LoopSpec
from pyvc.pool import collect, run_jobs
from pyvc.report import VENV_PY, VERIF
from pyvc.values import SArr, SInt, to_z3

LEVEL = "other"


def job_triangle():
    T = "iodata.formats.fchk._triangle_to_dense"
    cfg = Config()
    n = z3.Int("n")
    tri = z3.Function("packed", z3.IntSort(), z3.RealSort())

    # loop state by role: the dense matrix is what the loop fills and the function returns, the read position in the
    # packed array is the other value carried from one iteration to the next
    _, _, ret, _, _, carried = source.loop_roles("iodata.formats.fchk", "_triangle_to_dense", 0)
    RESULT = [nm for nm in carried if nm in ret][0]
    BEGIN = [nm for nm in carried if nm not in ret][0]

    def havoc(interp, frame, k):
        ctx = interp.ctx
        f = z3.Function(ctx.fresh("dense"), z3.IntSort(), z3.IntSort(), z3.RealSort())
        frame.locals[RESULT] = SArr((n, n), lambda idx: f(*idx), "float")
        frame.locals[BEGIN] = SInt(ctx.fresh_int("begin"))

    def inv(interp, frame, k):
        res = frame.locals[RESULT]
        begin = to_z3(frame.locals[BEGIN])
        i, j = z3.Ints("ti tj")
        return z3.And(
            k <= n,
            2 * begin == k * (k + 1),
            z3.ForAll([i, j], z3.Implies(z3.And(0 <= j, j <= i, i < k), z3.And(res.get((i, j)) == tri((i * (i + 1)) / 2 + j), res.get((j, i)) == tri((i * (i + 1)) / 2 + j)))),
        )

    cfg.loop_specs[(T, 0)] = LoopSpec("range(nrow)", havoc, inv, name="loop.rows")

    def setup(ctx, interp):
        ctx.assume(n >= 0)
        m = z3.Int("len")
        ctx.assume(2 * m == n * (n + 1))
        arr = SArr((m,), lambda idx: tri(idx[0]), "float", tag="packed")
        arr.prov = "arg"
        return get_target("iodata.formats.fchk:_triangle_to_dense"), [arr], {}, {}

    def post(out, env):
        ctx = out.ctx
        ctx.prove("post.returns-normally", out.kind == "return")
        if out.kind != "return":
            return
        res = out.value
        ok = isinstance(res, SArr) and res.ndim == 2
        ctx.prove("post.returns-a-matrix", ok)
        if not ok:
            return
        i, j = z3.Ints("pi pj")
        hi, lo = z3.If(i >= j, i, j), z3.If(i >= j, j, i)
        ctx.prove("post.shape-n-by-n", z3.And(to_z3(res.shape[0] if not isinstance(res.shape[0], int) else z3.IntVal(res.shape[0])) == n, to_z3(res.shape[1] if not isinstance(res.shape[1], int) else z3.IntVal(res.shape[1])) == n))
        ctx.prove("post.dense[i,j]-is-packed[max(max+1)/2+min]-(symmetric-unpacking)", z3.ForAll([i, j], z3.Implies(z3.And(0 <= i, i < n, 0 <= j, j < n), res.get((i, j)) == tri((hi * (hi + 1)) / 2 + lo))))

    return verify(T, setup, post, config=cfg, max_paths=100)


# PDB v3.3, 0-based half-open column ranges
PDB_ATOM = {"name": (12, 16), "resName": (17, 20), "chainID": (21, 22), "resSeq": (22, 26), "x": (30, 38), "y": (38, 46), "z": (46, 54), "occupancy": (54, 60), "tempFactor": (60, 66), "element": (76, 78)}


def job_layout():
    led = Ledger()
    node = source.find_def("iodata.formats.pdb", "_parse_pdb_atom_line")
    # column ranges cut out of the line: literal slices, single characters, or module-level `slice(a, b)` constants
    slices, unresolved = source.constant_slices("iodata.formats.pdb", node, "line")
    want = set(PDB_ATOM.values())
    led.record("layout@iodata.formats.pdb._parse_pdb_atom_line::every-slice-is-a-column-range-of-the-PDB-v3.3-ATOM-record", "post", ("unknown" if (unresolved or not slices) else "discharged" if slices <= want and {PDB_ATOM[k] for k in ("x", "y", "z", "resSeq", "name", "resName", "element")} <= slices else "refuted"), "ast", 0.0, detail=f"slices in the code: {sorted(slices)} ({unresolved} not resolved to constants); layout: {sorted(want)}", witness={"slices": sorted(slices)})
    # CONECT: executed on a line whose five fields use all five columns (any column shift mixes digits of two fields)
    pdb = source.import_repo("iodata.formats.pdb")
    line = "CONECT" + "".join(f"{v:5d}" for v in (20001, 31234, 42345, 53456, 64567))
    got = list(pdb._parse_pdb_conect_line(line))
    want = [(20000, 31233), (20000, 42344), (20000, 53455), (20000, 64566)]
    led.record("layout@iodata.formats.pdb._parse_pdb_conect_line::serial-numbers-are-read-from-columns-7-11,12-16,17-21,22-26,27-31", "post", "discharged" if got == want else "refuted", "eval", 0.0, detail=f"{line!r} -> {got}", witness={"line": line, "parsed": [list(g) for g in got], "expected": [list(w) for w in want]})
    return led


def run_bounded(chk):
    env = dict(os.environ, PYTHONPATH=source.REPO)
    out = subprocess.run([VENV_PY, os.path.join(VERIF, "bounded", "layout_probe.py"), str(chk.seed), chk.tier], capture_output=True, text=True, env=env, cwd="/", timeout=3500)
    if out.returncode != 0:
        chk.fault(f"layout probe crashed: {out.stderr[-1500:]}")
        return
    res = json.loads(out.stdout.strip().splitlines()[-1])
    for name, r in sorted(res["groups"].items()):
        script = None
        if r["fails"]:
            script = f"import subprocess, sys, json\nr = subprocess.run([sys.executable, {os.path.join(VERIF, 'bounded', 'layout_probe.py')!r}, '{chk.seed}', '{chk.tier}', {name!r}], capture_output=True, text=True)\nres = json.loads(r.stdout.strip().splitlines()[-1])\nprint(res['groups'][{name!r}]['fails'][:2])\nif res['groups'][{name!r}]['fails']:\n    print('REPRODUCED'); sys.exit(1)\n"
        chk.add_bounded(f"layout.{name}", r["bound"], r["cases"], r["fails"], replay_script=script)


def run(chk):
    chk.functions += ["iodata.formats.fchk._triangle_to_dense (loop invariant, all sizes)", "iodata.formats.pdb._parse_pdb_atom_line / _parse_pdb_conect_line (column contracts)"]
    chk.trusted += ["z3 (nonlinear integer arithmetic for triangular numbers)", "numpy axioms: zeros, slice stores through row/column views, sqrt/round/int on len = n(n+1)/2", "the published record layouts typed into checks/c03.py and bounded/layout_probe.py (PDB v3.3, MDL V2000, Gromos87, XYZ, Gaussian cube, FCHK, FCIDUMP, Gaussian log matrix print-out)"]
    chk.assumptions += ["width-class enumeration: every field takes values in each of its width classes incl. the ones where neighbouring fields touch; digits inside a class are sampled, which is complete for column-assignment errors but not for value-dependent ones"]
    chk.not_covered += ["free-text log parsers (orcalog, qchemlog, cp2klog, gamess), mwfn, wfn/wfx primitive regrouping, molden/molekel/wfx section state machines, extended-XYZ title parsing, QCSchema key mapping: no published layout is encoded for them here; they are exercised only through C02 round trips and the corpus"]
    collect(chk, run_jobs([("checks.c03", "job_triangle", {}), ("checks.c03", "job_layout", {})]))
    run_bounded(chk)
    chk.samples = [o.as_dict() for o in list(chk.ledger.obligations.values())[:6]]
    chk.notes["explanation"] = "C03: triangular unpacking proved for all sizes; PDB column contracts; record-level readers against independent spec-following writers over all width classes (bounded); the rest of the readers is not covered"
