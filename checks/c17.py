"""C17 -- format selection is deterministic and declared capabilities are truthful.

S1  api._select_format_module / _select_input_module under contract (symbolic file name, fnmatch uninterpreted).
S2  ground: registry, patterns and operations of all 25 modules; the real selection against the statement on
    generated and corpus file names.
S3  ground: every declared attribute name exists on IOData.
S4  guaranteed attributes: must-define analysis of the returned dictionaries (static) + every corpus file (bounded).
S5  required attributes are enforced before the output file is opened: C08.
"""

from __future__ import annotations

import ast
import fnmatch as _fnmatch
import json
import os
import subprocess

import z3

from pyvc import source
from pyvc.apimodel import api_config
from pyvc.core import Ledger
from pyvc.harness import verify
from pyvc.pool import collect, run_jobs
from pyvc.report import VENV_PY
from pyvc.values import Obj, SOpt, SU, U, to_z3, ustr, wrap

LEVEL = "other"
API = "iodata.api"
OPS = ("load_one", "load_many", "dump_one", "dump_many")


def api_mod():
    return source.import_repo("iodata.api")


class _Registry:
    """A generic registry: any number of modules, each with any number of patterns and any set of operations."""

    def __init__(self):
        I, B = z3.IntSort(), z3.BoolSort()
        self.n = z3.Int("nmodules")
        self.npat = z3.Function("npatterns", I, I)
        self.pat = z3.Function("pattern", I, I, U)
        self.hasop = z3.Function("has_operation", I, B)
        self.match = z3.Function("fnmatch", U, U, B)
        self.base = z3.Function("basename", U, U)

    def module(self, k):
        from pyvc.values import Opaque, SBool, SSeq

        m = Opaque(f"module[{k}]")
        m.index = k
        m.attrs["PATTERNS"] = SSeq(self.npat(k), lambda i: SU(self.pat(k, i), str), list, tag=f"PATTERNS[{k}]")
        return m

    def eligible(self, b, k):
        i = z3.Int("ei")
        return z3.And(self.hasop(k), z3.Exists([i], z3.And(i >= 0, i < self.npat(k), self.match(b, self.pat(k, i)))))


def job_select_generic():
    """fmt=None for an arbitrary registry: loop invariant 'no earlier module qualifies'."""
    from pyvc.interp import BoundMethod, HostModel, LoopSpec
    from pyvc.values import Opaque, SBool, SSeq, Value
    import fnmatch as fm
    import os.path

    target = f"{API}._select_format_module[fmt=None, any registry]"
    api = api_mod()
    U_ = source.import_repo("iodata.utils")
    R = _Registry()
    cfg = api_config()
    cfg.models[os.path.basename] = lambda interp, args, kwargs: (interp.ctx.event("basename"), SU(R.base(to_z3(args[0])), str))[1]
    mm = lambda interp, args, kwargs: (interp.ctx.event("fnmatch"), wrap(R.match(to_z3(args[0]), to_z3(args[1]))))[1]  # noqa: E731
    cfg.models[fm.fnmatch] = mm
    cfg.models[api.fnmatch] = mm

    class Reg(Value):
        def getattr_model(self, interp, name):
            if name == "values":
                return BoundMethod(HostModel(lambda i, s, a, k: SSeq(R.n, R.module, list, tag="registry")), self)
            raise AssertionError(name)

    cfg.global_overrides["FORMAT_MODULES"] = Reg()
    import builtins

    def hasattr_model(interp, args, kwargs):
        obj = interp.resolve(args[0])
        if isinstance(obj, Opaque) and hasattr(obj, "index"):
            return wrap(R.hasop(obj.index))
        from pyvc.models import MODELS

        return MODELS[builtins.hasattr](interp, args, kwargs)

    cfg.models[builtins.hasattr] = hasattr_model
    bterm = {}

    def inv(interp, frame, k):
        b = to_z3(frame.locals["basename"])
        j = z3.Int("ij")
        return z3.And(k <= R.n, z3.ForAll([j], z3.Implies(z3.And(j >= 0, j < k), z3.Not(R.eligible(b, j)))))

    cfg.loop_specs[(f"{API}._select_format_module", 0)] = LoopSpec("FORMAT_MODULES.values()", lambda interp, frame, k: None, inv, name="loop.registry")

    def setup(ctx, interp):
        k, i = z3.Ints("rk ri")
        ctx.assume(R.n >= 0)
        ctx.assume(z3.ForAll([k], R.npat(k) >= 0))
        fname = SU(z3.Const("filename", U), str)
        return api._select_format_module, [fname, "some_operation", None], {}, dict(fname=fname)

    def post(out, env):
        ctx = out.ctx
        b = R.base(env["fname"].t)
        j = z3.Int("pj")
        names = [e[0] for e in ctx.trace]
        ctx.prove(f"{target}::post.no-file-system-access-only-basename-and-fnmatch", set(names) <= {"basename", "fnmatch"})
        if out.kind == "raise":
            ctx.prove(f"{target}::raises.only-FileFormatError", isinstance(out.value, Obj) and out.value.cls is U_.FileFormatError, kind="raises")
            ctx.prove(f"{target}::raises.only-when-no-registered-module-with-the-operation-matches-the-base-name", z3.ForAll([j], z3.Implies(z3.And(j >= 0, j < R.n), z3.Not(R.eligible(b, j)))), kind="raises")
            return
        m = out.value
        ok = isinstance(m, Opaque) and hasattr(m, "index")
        ctx.prove(f"{target}::post.returns-a-registered-module", ok)
        if ok:
            k = m.index
            ctx.prove(f"{target}::post.chosen-module-supports-the-operation-and-one-of-its-patterns-matches", z3.And(k >= 0, k < R.n, R.eligible(b, k)))
            ctx.prove(f"{target}::post.no-earlier-module-in-registry-order-qualifies-(deterministic-choice)", z3.ForAll([j], z3.Implies(z3.And(j >= 0, j < k), z3.Not(R.eligible(b, j)))))

    return verify(target, setup, post, config=cfg, max_paths=200)


def job_select(attrname):
    """explicit format, the real registry."""
    target = f"{API}._select_format_module[{attrname},fmt given]"
    api = api_mod()
    FM = api.FORMAT_MODULES
    cfg = api_config()
    match = z3.Function("fnmatch", U, U, z3.BoolSort())
    base = z3.Function("basename", U, U)
    import os.path

    cfg.models[os.path.basename] = lambda interp, args, kwargs: (interp.ctx.event("basename"), SU(base(to_z3(args[0])), str))[1]
    cfg.models[_fnmatch.fnmatch] = lambda interp, args, kwargs: (interp.ctx.event("fnmatch"), wrap(match(to_z3(args[0]), to_z3(args[1]))))[1]
    cfg.models[api.fnmatch] = cfg.models[_fnmatch.fnmatch]
    U_ = source.import_repo("iodata.utils")

    def setup(ctx, interp):
        fname = SU(z3.Const("filename", U), str)
        fmt = SU(z3.Const("fmt", U), str)
        return api._select_format_module, [fname, attrname, fmt], {}, dict(fname=fname, fmt=fmt)

    def post(out, env):
        ctx = out.ctx
        fname, fmt = env["fname"], env["fmt"]
        names = [e[0] for e in ctx.trace]
        mods = list(FM.items())
        ctx.prove(f"{target}::post.no-file-system-access", set(names) <= {"basename", "fnmatch"})
        ctx.prove(f"{target}::post.an-explicit-format-always-wins-(patterns-are-not-consulted)", "fnmatch" not in names)
        if out.kind == "raise":
            ok = isinstance(out.value, Obj) and out.value.cls is U_.FileFormatError
            ctx.prove(f"{target}::raises.only-FileFormatError", ok, kind="raises")
            supported = z3.Or(*[fmt.t == ustr(k) for k, m in mods if hasattr(m, attrname)])
            ctx.prove(f"{target}::raises.only-for-an-unknown-format-or-an-unsupported-operation", z3.Not(supported), kind="raises")
            return
        m = out.value
        key = next((k for k, mm in mods if mm is m), None)
        ctx.prove(f"{target}::post.returns-the-named-module-which-supports-the-operation", key is not None and hasattr(m, attrname))
        if key is not None:
            ctx.prove(f"{target}::post.returned-module-is-the-one-named-by-fmt", fmt.t == ustr(key))

    return verify(target, setup, post, config=cfg, max_paths=3000)


def job_select_input():
    target = f"{API}._select_input_module"
    api = api_mod()
    U_ = source.import_repo("iodata.utils")
    cfg = api_config()

    def setup(ctx, interp):
        fmt = SU(z3.Const("fmt", U), str)
        return api._select_input_module, [SU(z3.Const("filename", U), str), fmt], {}, dict(fmt=fmt)

    def post(out, env):
        ctx = out.ctx
        fmt = env["fmt"]
        known = z3.Or(*[fmt.t == ustr(k) for k in api.INPUT_MODULES])
        ctx.prove(f"{target}::post.no-file-system-access", not ctx.trace)
        if out.kind == "raise":
            ctx.prove(f"{target}::raises.FileFormatError-only-for-an-unknown-program", z3.And(z3.BoolVal(isinstance(out.value, Obj) and out.value.cls is U_.FileFormatError), z3.Not(known)), kind="raises")
        else:
            key = next((k for k, m in api.INPUT_MODULES.items() if m is out.value), None)
            ctx.prove(f"{target}::post.returns-the-named-input-module", z3.BoolVal(key is not None) if key is None else fmt.t == ustr(key))

    return verify(target, setup, post, config=cfg)


# ------------------------------------------------------------------------------------------------
def spec_select(api, basename, attrname, fmt):
    """The statement, executable."""
    FM = api.FORMAT_MODULES
    if fmt is not None:
        if fmt in FM and hasattr(FM[fmt], attrname):
            return fmt
        return None
    for k in sorted(FM):
        m = FM[k]
        if hasattr(m, attrname) and any(_fnmatch.fnmatch(basename, p) for p in m.PATTERNS):
            return k
    return None


def job_ground():
    led = Ledger()
    api = api_mod()
    FM = api.FORMAT_MODULES
    U_ = source.import_repo("iodata.utils")

    def rec(name, ok, detail="", witness=None):
        led.record(f"C17.ground::{name}", "ground", "discharged" if ok else "refuted", "eval", 0.0, detail=detail, witness=witness)

    # registry: every module of iodata/formats with PATTERNS, in alphabetical (import-time constant) order
    fdir = os.path.join(source.REPO, "iodata", "formats")
    on_disk = sorted(f[:-3] for f in os.listdir(fdir) if f.endswith(".py") and f != "__init__.py")
    with_patterns = [n for n in on_disk if hasattr(source.import_repo(f"iodata.formats.{n}"), "PATTERNS")]
    rec("registry-is-every-format-module-with-PATTERNS-in-sorted-order", list(FM) == with_patterns, detail=f"{list(FM)} vs {with_patterns}")
    rec("every-registered-module-offers-an-operation-and-string-patterns", all(any(hasattr(m, op) for op in OPS) and all(isinstance(p, str) and p for p in m.PATTERNS) for m in FM.values()))
    # names: patterns instantiated, names matching several patterns, case variants, directories containing pattern text
    names = set()
    for k, m in FM.items():
        for p in m.PATTERNS:
            inst = p.replace("*", "x")
            names |= {inst, inst.upper(), inst.lower(), "dir.fchk/" + inst, inst + ".bak", "a" + inst}
    names |= {"x.cp2k.out", "FCIDUMP.molden", "POSCAR.xyz", "x.fchk.wfn", "CHGCAR", "chgcar", "LOCPOT.cube", "x.log", "x.out", "x.json", "noext", "", ".xyz", "x.XYZ", "/abs/path.with.molden/file.txt", "x.molden.input", "x.gro", "x.mkl", "x.dat", "x.in", "x.com", "x.gjf", "x.extxyz", "x.pdb", "x.mol2", "x.sdf", "x.crd", "x.wfx", "x.mwfn", "x.fcidump", "x.FCIDUMP"}
    data_dir = os.path.join(source.REPO, "iodata", "test", "data")
    if os.path.isdir(data_dir):
        names |= set(os.listdir(data_dir))
    bad = []
    n = 0
    for name in sorted(names):
        for op in OPS:
            for fmt in [None, "nonexistent"] + list(FM):
                n += 1
                want = spec_select(api, os.path.basename(name), op, fmt)
                try:
                    got = api._select_format_module(name, op, fmt)
                    got = next(k for k, m in FM.items() if m is got)
                except U_.FileFormatError:
                    got = None
                except Exception as exc:  # noqa: BLE001
                    got = f"raised {type(exc).__name__}"
                if got != want:
                    bad.append((name, op, fmt, want, got))
    rec("selection-equals-the-statement-on-generated-and-corpus-names", not bad, detail=str(bad[:3]), witness={"cases": bad[:3]} if bad else None)
    # S3 declared attribute names exist
    import attrs

    IOData = source.import_repo("iodata.iodata").IOData
    attrs_ok = {f.name.lstrip("_") for f in attrs.fields(IOData)} | {k for k, v in vars(IOData).items() if isinstance(v, property)}
    badnames = []
    ndecl = 0
    for k, m in FM.items():
        for op in OPS:
            f = getattr(m, op, None)
            if f is None:
                continue
            for lst in ("guaranteed", "ifpresent", "required", "optional"):
                for a in getattr(f, lst, None) or []:
                    ndecl += 1
                    if a not in attrs_ok:
                        badnames.append((k, op, lst, a))
    # the input writers declare attributes through the same decorators and their lists appear in the same documentation
    for k, m in source.import_repo("iodata.api").INPUT_MODULES.items():
        f = getattr(m, "write_input", None)
        for lst in ("required", "optional"):
            for a in getattr(f, lst, None) or []:
                ndecl += 1
                if a not in attrs_ok:
                    badnames.append(("inputs." + k, "write_input", lst, a))
    rec("every-declared-attribute-name-is-an-IOData-attribute", not badnames, detail=str(badnames), witness={"names": [str(b) for b in badnames]} if badnames else None)
    # the command-line description lists exactly the modules that have each operation
    mm = source.import_repo("iodata.__main__")
    ok = True
    for op in OPS:
        line = mm.DESCRIPTION.split(op + "\n")[1].split("\n")[0].split()
        ok = ok and line == sorted(k for k, m in FM.items() if hasattr(m, op))
    rec("command-line-description-lists-the-formats-that-support-each-operation", ok)
    return {"ledger": led, "selection_cases": n, "declared_names": ndecl}


# ------------------------------------------------------------------------------------------------
def must_define(modname, fname, guaranteed):
    """Static must-define analysis of the dictionary a reader returns: for each guaranteed key, True when every
    normal return provably carries the key with a value that is not syntactically None / dict.get(...)."""
    node = source.find_def(modname, fname)
    rets = [n for n in ast.walk(node) if isinstance(n, ast.Return) and n.value is not None]
    if source.is_generator_def(node):
        return None
    result = {}
    for key in guaranteed:
        ok_all = bool(rets)
        for r in rets:
            v = r.value
            d = None
            if isinstance(v, ast.Dict):
                d = v
            elif isinstance(v, ast.Name):
                # result = {...} at the top level of the function, plus unconditional result["k"] = ...
                for st in node.body:
                    if isinstance(st, ast.Assign) and isinstance(st.targets[0], ast.Name) and st.targets[0].id == v.id and isinstance(st.value, ast.Dict):
                        d = st.value
                uncond = set()
                for st in node.body:
                    if isinstance(st, ast.Assign) and isinstance(st.targets[0], ast.Subscript) and isinstance(st.targets[0].value, ast.Name) and st.targets[0].value.id == v.id and isinstance(st.targets[0].slice, ast.Constant):
                        if not (isinstance(st.value, ast.Constant) and st.value.value is None):
                            uncond.add(st.targets[0].slice.value)
                if key in uncond:
                    continue
            if d is None:
                ok_all = False
                break
            found = False
            for k, val in zip(d.keys, d.values):
                if isinstance(k, ast.Constant) and k.value == key:
                    found = not (isinstance(val, ast.Constant) and val.value is None) and not (isinstance(val, ast.Call) and isinstance(val.func, ast.Attribute) and val.func.attr == "get" and len(val.args) == 1)
            ok_all = ok_all and found
        result[key] = ok_all
    return result


MUST_DEFINE_BASELINE = json.load(open(os.path.join(os.path.dirname(__file__), "c17_mustdefine_baseline.json"))) if os.path.exists(os.path.join(os.path.dirname(__file__), "c17_mustdefine_baseline.json")) else {}


def job_guaranteed():
    led = Ledger()
    api = api_mod()
    summary = {}
    for k, m in api.FORMAT_MODULES.items():
        f = getattr(m, "load_one", None)
        if f is None:
            continue
        res = must_define(m.__name__, "load_one", list(f.guaranteed))
        if res is None:
            continue
        proved = [a for a, ok in res.items() if ok]
        open_ = [a for a, ok in res.items() if not ok]
        summary[k] = {"proved": proved, "not_decided_statically": open_}
        for a in proved:
            led.record(f"{m.__name__}.load_one::post.guaranteed.{a}-is-set-on-every-return", "post", "discharged", "must-define", 0.0)
        # attributes that are provable on the pinned tree (committed list) must stay provable: a lost proof is
        # reported as undecided, the bounded generated-file driver looks for a concrete witness
        for a in MUST_DEFINE_BASELINE.get(k, []):
            if a in res and not res[a]:
                led.record(f"{m.__name__}.load_one::post.guaranteed.{a}-is-set-on-every-return", "post", "unknown", "must-define", 0.0, detail=f"the returned dictionary no longer provably carries '{a}' on every return path")
    return {"ledger": led, "must_define": summary}


BOUNDED = r"""
import glob, json, os, sys, warnings
warnings.simplefilter("ignore")
import iodata
from iodata import load_one, load_many
from iodata.api import FORMAT_MODULES, _select_format_module
from iodata.utils import LoadError, FileFormatError
data = os.path.join(os.path.dirname(iodata.__file__), "test", "data")
fails, cases, loaded = [], 0, 0
maxsize, maxfiles = int(sys.argv[1]), int(sys.argv[2])
for path in sorted(glob.glob(os.path.join(data, "*")), key=lambda p: (os.path.getsize(p) if os.path.isfile(p) else 0))[:maxfiles]:
    if not os.path.isfile(path) or os.path.getsize(path) > maxsize: continue
    for op in ("load_one", "load_many"):
        try:
            mod = _select_format_module(path, op)
        except FileFormatError:
            continue
        cases += 1
        try:
            objs = [load_one(path)] if op == "load_one" else list(load_many(path))
        except (LoadError, Exception):
            continue
        loaded += 1
        name = [k for k, m in FORMAT_MODULES.items() if m is mod][0]
        for o in objs[:3]:
            for a in getattr(mod, op).guaranteed:
                try:
                    v = getattr(o, a)
                except AttributeError:
                    fails.append(((name, a), "declared attribute does not exist: " + name + "." + a)); continue
                if v is None: fails.append(((name, a, os.path.basename(path)), "guaranteed attribute is None: " + name + "." + a))
# the same corpus files with every format given explicitly (a file name does not restrict which reader the user
# may ask for): whenever a reader accepts a file, its guaranteed attributes must be set
for path in sorted(glob.glob(os.path.join(data, "*")), key=lambda p: (os.path.getsize(p) if os.path.isfile(p) else 0))[:maxfiles]:
    if not os.path.isfile(path) or os.path.getsize(path) > min(maxsize // 3, 400_000): continue
    try:
        auto = _select_format_module(path, "load_one")
    except FileFormatError:
        auto = None
    for name, mod in sorted(FORMAT_MODULES.items()):
        if not hasattr(mod, "load_one") or mod is auto: continue
        cases += 1
        try:
            o = load_one(path, fmt=name)
        except Exception:
            continue
        loaded += 1
        for a in mod.load_one.guaranteed:
            if getattr(o, a, None) is None: fails.append(((name, a, os.path.basename(path)), "guaranteed attribute is None: " + name + "." + a))
# FCHK files of other job types than the four the reader maps (the route word is free text), without a charges section
import re as _re, tempfile as _tf
_src = os.path.join(data, "water_sto3g_hf_g03.fchk")
if os.path.exists(_src):
    _txt = open(_src).read().splitlines(keepends=True)
    for word in ("Force", "POpt", "Stability"):
        cases += 1
        l2 = list(_txt); l2[1] = word.ljust(10) + l2[1][10:]
        keep, skip = [], 0
        for line in l2:
            if skip: skip -= 1; continue
            m = _re.match(r"Mulliken Charges\s+R\s+N=\s+(\d+)", line)
            if m: skip = (int(m.group(1)) + 4) // 5; continue
            keep.append(line)
        _d = _tf.mkdtemp()
        __import__("atexit").register(__import__("shutil").rmtree, _d, True)
        fn = os.path.join(_d, "job.fchk")
        open(fn, "w").write("".join(keep))
        try:
            o = load_one(fn)
        except Exception:
            continue
        loaded += 1
        for a in FORMAT_MODULES["fchk"].load_one.guaranteed:
            if getattr(o, a, None) is None: fails.append((("fchk", a, "job word " + word), "guaranteed attribute is None: fchk." + a))
# generated minimal files: a single atom / a bond-less pair without optional data, dumped and reloaded
import numpy as np, tempfile
from iodata import IOData, dump_one, dump_many
tmp = tempfile.mkdtemp()
__import__("atexit").register(__import__("shutil").rmtree, tmp, True)
minimal = [IOData(atnums=[2], atcoords=np.zeros((1, 3)), title="one atom"), IOData(atnums=[10, 18], atcoords=np.array([[0.0, 0, 0], [0, 0, 6.0]]), title="no bonds", cellvecs=np.eye(3) * 20.0)]
for name, mod in sorted(FORMAT_MODULES.items()):
    if not (hasattr(mod, "dump_one") and hasattr(mod, "load_one")): continue
    for k, obj in enumerate(minimal):
        fn = os.path.join(tmp, f"min{k}.{name}")
        try:
            dump_one(obj, fn, fmt=name)
        except Exception:
            continue
        cases += 1
        for op in ("load_one", "load_many"):
            if not hasattr(mod, op): continue
            try:
                objs = [load_one(fn, fmt=name)] if op == "load_one" else list(load_many(fn, fmt=name))
            except Exception:
                continue
            for o in objs:
                for a in getattr(mod, op).guaranteed:
                    if getattr(o, a, None) is None: fails.append(((name, a, "generated minimal file"), "guaranteed attribute is None: " + name + "." + a))
sig = {}
for f in fails: sig.setdefault(f[1], f)
print(json.dumps(dict(cases=cases, loaded=loaded, nfails=len(fails), kinds={k: repr(v)[:400] for k, v in sig.items()}), default=str))
"""
_TAIL = "print(json.dumps(dict(cases=cases, loaded=loaded, nfails=len(fails), kinds={k: repr(v)[:400] for k, v in sig.items()}), default=str))"


def run_bounded(chk):
    env = dict(os.environ, PYTHONPATH=source.REPO)
    maxsize, maxfiles = (150_000, 100000) if chk.tier == "quick" else (5_000_000, 100000)
    out = subprocess.run([VENV_PY, "-c", BOUNDED, str(maxsize), str(maxfiles)], capture_output=True, text=True, env=env, cwd="/", timeout=3000)
    if out.returncode != 0:
        chk.fault(f"bounded driver crashed: {out.stderr[-1500:]}")
        return
    res = json.loads(out.stdout.strip().splitlines()[-1])
    bound = f"every file of the test corpus that a format module accepts ({res['loaded']} successful loads): guaranteed attributes of the first 3 frames"
    for kind, example in sorted(res["kinds"].items()):
        script = BOUNDED.replace("maxsize, maxfiles = int(sys.argv[1]), int(sys.argv[2])", f"maxsize, maxfiles = {maxsize}, {maxfiles}").replace(_TAIL, f"print(sig.get({kind!r}))\nif {kind!r} in sig:\n    print('REPRODUCED'); sys.exit(1)")
        chk.add_bounded(f"guaranteed.{kind}", bound, res["cases"], [example], replay_script=script)
    if not res["kinds"]:
        chk.add_bounded("guaranteed", bound, res["cases"], [])


REPLAY_NAMES = """
import sys, attrs
from iodata import IOData
from iodata.api import FORMAT_MODULES
ok = {f.name.lstrip("_") for f in attrs.fields(IOData)} | {k for k, v in vars(IOData).items() if isinstance(v, property)}
bad = [(k, op, a) for k, m in FORMAT_MODULES.items() for op in ("load_one", "load_many", "dump_one", "dump_many") if hasattr(m, op) for lst in ("guaranteed", "ifpresent", "required", "optional") for a in (getattr(getattr(m, op), lst, None) or []) if a not in ok]
print("declared names that are not IOData attributes:", bad)
if bad:
    print("REPRODUCED"); sys.exit(1)
"""


def run(chk):
    chk.functions += [f"{API}._select_format_module", f"{API}._select_input_module", f"{API}._find_format_modules (ground)", "iodata.docstrings._document_load/_document_dump (ground: declared lists)", "load_one of the format modules (must-define of guaranteed keys where the result is a dict literal)"]
    chk.trusted += ["z3", "fnmatch.fnmatch and os.path.basename are pure functions of their arguments (uninterpreted in S1, the real ones in S2)", "pkgutil.iter_modules lists a directory in sorted order", "dict iteration follows insertion order"]
    chk.assumptions += ["S5 (required attributes are enforced before the output file is opened): the dump_one obligations of C08 are re-run here", "guaranteed attributes filled by section-driven loops cannot be decided statically; they are covered by the bounded corpus check only and listed under must_define.not_decided_statically"]
    jobs = [("checks.c17", "job_select", {"attrname": a}) for a in OPS] + [("checks.c17", "job_select_generic", {})]
    jobs += [("checks.c17", f, {}) for f in ("job_select_input", "job_ground", "job_guaranteed")]
    # S5: required attributes are enforced before the output file is opened (the obligations of C08 for dump_one)
    from checks import c08

    jobs += [("checks.c08", "job_dump_one", {"modname": m}) for m in sorted(c08.dump_modules("dump_one"))] + [("checks.c08", "job_check_required", {})]
    res = collect(chk, run_jobs(jobs))
    for r in res:
        for k in ("selection_cases", "declared_names", "must_define"):
            if k in r:
                chk.notes[k] = r[k]
    run_bounded(chk)
    for o in chk.ledger.obligations.values():
        if o.status == "refuted" and "declared-attribute-name" in o.name:
            chk.set_replay(o.name, REPLAY_NAMES)
    chk.samples = [o.as_dict() for o in list(chk.ledger.obligations.values())[:6]]
    chk.notes["explanation"] = "C17: selection contract for all names; registry, patterns and declared names exhaustively; guaranteed keys by must-define + corpus"
