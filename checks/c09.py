"""C09 -- dumping never alters the caller's data; conversions are explicit and equivalent.

Frame obligations (pyvc.frame): for every function reachable from api.dump_one / dump_many / write_input, every
mutating statement targets an object allocated in that activation -- never an object reachable from the arguments
(the caller's IOData, its arrays, dictionaries and nested lists) nor module-level state.  The one licence of the
statement (filling in the default core charges) is the IOData.atcorenums getter, which is excluded by name.
R1/R2: each prepare_dump returns its argument, or what prepare_segmented / prepare_unrestricted_aminusb return
(contracts of C14: the same object, or a shallow copy announced by exactly one PrepareDumpWarning), or raises
PrepareDumpError; api.dump_one returns the object that was written (C08).
"""

from __future__ import annotations

import ast
import json
import os
import subprocess

from pyvc import source
from pyvc.core import Ledger
from pyvc.frame import Analysis
from pyvc.pool import collect, run_jobs
from pyvc.report import VENV_PY

LEVEL = "proof"
ROOTS = ["iodata.api.dump_one", "iodata.api.dump_many", "iodata.api.write_input"]
# the statement's licence: "filling in the default core charges from the atomic numbers is not a change"
LICENSED = {"iodata.iodata.IOData.atcorenums", "iodata.iodata.IOData.atcorenums.setter", "iodata.iodata.IOData.charge", "iodata.iodata.IOData.charge.setter", "iodata.iodata.IOData.nelec.setter"}


def all_modules():
    api = source.import_repo("iodata.api")
    return ["iodata.api", "iodata.prepare", "iodata.convert", "iodata.utils", "iodata.iodata", "iodata.orbitals", "iodata.basis", "iodata.overlap", "iodata.overlap_cartpure", "iodata.periodic", "iodata.attrutils", "iodata.docstrings", "iodata.inputs.common", "iodata.inputs.gaussian", "iodata.inputs.orca", "iodata.__main__"] + [m.__name__ for m in api.FORMAT_MODULES.values()]


def offending(fi, kinds=("arg", "global")):
    out = []
    for ln, txt, p in fi.sites:
        tags = [t for t in p if t != "fresh" and not t.startswith("elem:") and t.split(":")[0] in kinds]
        if tags:
            out.append((ln, txt, sorted(tags)))
    return out


def job_frame():
    led = Ledger()
    an = Analysis(all_modules()).run()
    reach = an.reachable(ROOTS)
    nsites = 0
    listing = {}
    for k in sorted(reach):
        fi = an.funcs[k]
        nsites += len(fi.sites)
        if k in LICENSED or k.startswith("iodata.orbitals.MolecularOrbitals.") or k.startswith("iodata.utils.LineIterator.") or k.startswith("iodata.utils.BaseFile"):
            continue  # methods that store into `self` by design (setters, iterators, error constructors)
        bad = offending(fi)
        if fi.qualname.endswith("__init__") or fi.qualname.endswith("__attrs_post_init__"):
            bad = [b for b in bad if b[2] != ["arg:self"]]
        # the file handle is written to by design: `f` / `fh` / `file` parameters are output streams
        bad = [b for b in bad if not all(t in ("arg:f", "arg:fh", "arg:file") for t in b[2])]
        listing[k] = len(fi.sites)
        led.record(f"frame@{k}::modifies-nothing-reachable-from-arguments-or-module-state", "frame", "refuted" if bad else "discharged", "provenance", 0.0, detail="; ".join(f"line {ln}: {txt} -> {tags}" for ln, txt, tags in bad[:3]), witness={"sites": [str(b) for b in bad[:3]]} if bad else None)
    # R1/R2 structure of the prepare_dump functions
    api = source.import_repo("iodata.api")
    for m in api.FORMAT_MODULES.values():
        if not hasattr(m, "prepare_dump"):
            continue
        node = source.find_def(m.__name__, "prepare_dump")
        rets = [n for n in ast.walk(node) if isinstance(n, ast.Return)]
        ok_ret = bool(rets)
        for r in rets:
            v = r.value
            ok = isinstance(v, ast.Name) and v.id == "data"
            ok = ok or (isinstance(v, ast.Call) and isinstance(v.func, ast.Name) and v.func.id in ("prepare_segmented", "prepare_unrestricted_aminusb") and isinstance(v.args[0], ast.Name) and v.args[0].id == "data")
            ok_ret = ok_ret and ok
        # `data` is only ever rebound to the result of a prepare_* call on itself
        for n in ast.walk(node):
            if isinstance(n, ast.Assign) and any(isinstance(t, ast.Name) and t.id == "data" for t in n.targets):
                v = n.value
                ok_ret = ok_ret and isinstance(v, ast.Call) and isinstance(v.func, ast.Name) and v.func.id in ("prepare_segmented", "prepare_unrestricted_aminusb") and isinstance(v.args[0], ast.Name) and v.args[0].id == "data"
            if isinstance(n, ast.Call) and isinstance(n.func, ast.Name) and n.func.id in ("prepare_segmented", "prepare_unrestricted_aminusb"):
                # allow_changes is passed on unchanged
                names = [ast.unparse(a) for a in n.args]
                ok_ret = ok_ret and "allow_changes" in names
        raises = [n for n in ast.walk(node) if isinstance(n, ast.Raise)]
        ok_raise = all(isinstance(r.exc, ast.Call) and isinstance(r.exc.func, ast.Name) and r.exc.func.id == "PrepareDumpError" for r in raises)
        led.record(f"{m.__name__}.prepare_dump::post.returns-the-argument-or-the-announced-conversion-of-prepare_*-(allow_changes-passed-on)", "post", "discharged" if ok_ret else "unknown", "ast", 0.0, detail=ast.unparse(node)[-300:])
        led.record(f"{m.__name__}.prepare_dump::raises.only-PrepareDumpError", "raises", "discharged" if ok_raise else "unknown", "ast", 0.0)
    return {"ledger": led, "functions": len(reach), "mutation_sites": nsites}


BOUNDED = r"""
import copy, json, os, sys, tempfile, warnings
import numpy as np
import iodata
from iodata import IOData, load_one, dump_one, dump_many, write_input
from iodata.api import FORMAT_MODULES
from iodata.utils import PrepareDumpError, DumpError, PrepareDumpWarning
from iodata.basis import MolecularBasis, Shell
from iodata.convert import HORTON2_CONVENTIONS
from iodata.orbitals import MolecularOrbitals
data_dir = os.path.join(os.path.dirname(iodata.__file__), "test", "data")
tmp = tempfile.mkdtemp()
__import__("atexit").register(__import__("shutil").rmtree, tmp, True)
fails, cases = [], 0
def snap(x, depth=0):
    if isinstance(x, np.ndarray): return ("arr", x.dtype.str, x.shape, x.tobytes(), id(x))
    if isinstance(x, dict): return ("dict", tuple((k, snap(v, depth + 1)) for k, v in x.items()), id(x))
    if isinstance(x, (list, tuple)): return (type(x).__name__, tuple(snap(v, depth + 1) for v in x), id(x))
    if hasattr(x, "__attrs_attrs__") and depth < 6:
        return (type(x).__name__, tuple((a.name, snap(getattr(x, a.name), depth + 1)) for a in x.__attrs_attrs__), id(x))
    return ("val", repr(x))
def observables(d):
    out = {}
    for k in ("natom", "charge", "nelec", "spinpol"):
        # every property is read from its own copy of the object: what one getter stores (lazy defaults) must not
        # influence what is recorded for another one
        out[k] = repr(getattr(copy.copy(d), k))
    if d.mo is not None and d.mo.kind != "generalized":
        out["mo"] = (repr(d.mo.nelec), repr(d.mo.spinpol), None if d.mo.occsa is None else d.mo.occsa.tobytes())
    if d.obasis is not None:
        out["nbasis"] = d.obasis.nbasis
    return out
def objects():
    out = []
    for fn in ("water_sto3g_hf_g03.fchk", "h2o_sto3g.wfn", "water.xyz", "ch5plus.pdb", "caffeine.mol2", "example.sdf", "POSCAR.water", "h2_ccpvqz.fcidump" if os.path.exists(os.path.join(data_dir, "h2_ccpvqz.fcidump")) else "FCIDUMP.molpro.h2o", "cubegen_ch4_6_gen.cube", "li_h_3-21G_hf_g09.fchk"):
        p = os.path.join(data_dir, fn)
        if os.path.exists(p):
            try:
                with warnings.catch_warnings():
                    warnings.simplefilter("ignore")
                    out.append((fn, load_one(p)))
            except Exception:
                pass
    # generalized contraction + occs_aminusb (need conversion), nested lists in extra
    shells = [Shell(0, [0, 0, 1], ["c", "c", "c"], np.array([1.0, 0.3]), np.ones((2, 3)) * 0.4), Shell(1, [0], ["c"], np.array([0.8]), np.array([[1.0]]))]
    mo = MolecularOrbitals("restricted", 6, 6, occs=np.array([2.0, 1, 1, 0, 0, 0]), occs_aminusb=np.array([0.0, 1, -1, 0, 0, 0]), coeffs=np.eye(6), energies=np.arange(6.0), irreps=["a"] * 6)
    out.append(("generalized+aminusb", IOData(atnums=[8, 1], atcoords=np.array([[0.0, 0, 0], [0, 0, 1.8]]), obasis=MolecularBasis(shells, HORTON2_CONVENTIONS, "L2"), mo=mo, title="t", extra={"nested": {"list": [1, [2, 3]], "d": {"a": [4]}}})))
    # the same object built in another order of assignments: charge and spin first, orbitals later (the private
    # _nelec / _spinpol fields keep their values)
    late = IOData(atnums=[8, 1], atcoords=np.array([[0.0, 0, 0], [0, 0, 1.8]]), title="t")
    late.charge = 3.0
    late.spinpol = 0
    late.obasis = MolecularBasis(shells, HORTON2_CONVENTIONS, "L2")
    late.mo = MolecularOrbitals("restricted", 6, 6, occs=np.array([2.0, 1, 1, 0, 0, 0]), occs_aminusb=np.array([0.0, 1, -1, 0, 0, 0]), coeffs=np.eye(6), energies=np.arange(6.0), irreps=["a"] * 6)
    out.append(("generalized+aminusb, orbitals assigned after charge and spinpol", late))
    q = IOData(atnums=[1, 1], atcoords=np.array([[0.0, 0, 0], [0, 0, 1.4]]), charge=0, spinpol=0, extra={"schema_name": "qcschema_molecule", "schema_version": 2, "molecule": {"provenance": [{"creator": "x"}], "unparsed": {"k": [1, 2]}}})
    out.append(("qcschema", q))
    return out
for name, d in objects():
    for fmt, mod in sorted(FORMAT_MODULES.items()):
        if not hasattr(mod, "dump_one"): continue
        for allow in (False, True):
            before, obs0 = snap(d), observables(d)
            results = []
            for rep in range(2):
                cases += 1
                fn = os.path.join(tmp, f"o{rep}.{fmt}")
                with warnings.catch_warnings(record=True) as w:
                    warnings.simplefilter("always")
                    try:
                        r = dump_one(d, fn, fmt=fmt, allow_changes=allow)
                        results.append(open(fn, "rb").read())
                    except (PrepareDumpError, DumpError) as exc:
                        r = None
                        if allow and isinstance(exc, PrepareDumpError) and any(issubclass(x.category, PrepareDumpWarning) for x in w):
                            fails.append(((name, fmt, repr(exc.__cause__)[:120]), "a conversion was announced (PrepareDumpWarning) and then refused (PrepareDumpError)"))
                nw = sum(issubclass(x.category, PrepareDumpWarning) for x in w)
                if r is not None:
                    if not allow and r is not d: fails.append(((name, fmt), "without allow_changes a different object was returned"))
                    if r is not d and nw == 0: fails.append(((name, fmt), "conversion without PrepareDumpWarning"))
                    if r is d and nw: fails.append(((name, fmt), "warning without conversion"))
                    if r is not d:
                        o1 = observables(r)
                        for k in ("natom", "charge", "nelec", "spinpol", "nbasis"):
                            if k in o1 and k in obs0 and o1[k] != obs0[k] and not (k in ("charge", "nelec", "spinpol") and abs(float(o1[k]) - float(obs0[k])) < 1e-9):
                                fails.append(((name, fmt, k), "converted object differs in " + k))
                after = snap(d)
                if after != before:
                    # which attribute
                    for (k0, s0), (k1, s1) in zip(before[1], after[1]):
                        if s0 != s1 and k0 != "_atcorenums": fails.append(((name, fmt, allow, k0), "dump_one altered the caller's object: attribute " + k0)); break
                    before = after
            if len(results) == 2 and results[0] != results[1] and fmt != "json_qcschema": fails.append(((name, fmt), "two dumps of the same object differ"))
    for prog in ("gaussian", "orca"):
        if d.atnums is None or d.atcoords is None: continue
        before = snap(d)
        for rep in range(2):
            cases += 1
            try:
                write_input(d, os.path.join(tmp, "inp"), prog)
            except Exception:
                pass
        after = snap(d)
        if after != before:
            for (k0, s0), (k1, s1) in zip(before[1], after[1]):
                if s0 != s1 and k0 != "_atcorenums": fails.append(((name, prog, k0), "write_input altered the caller's object: attribute " + k0)); break
# an object whose charge was assigned while the atoms were still unknown (the private _charge keeps the value until a
# getter is called) and that nobody has read before it is handed to dump_one: the outcome must not depend on that
def early(read_first, with_mo=True):
    shells = [Shell(0, [0, 0, 1], ["c", "c", "c"], np.array([1.0, 0.3]), np.ones((2, 3)) * 0.4), Shell(1, [0], ["c"], np.array([0.8]), np.array([[1.0]]))]
    e = IOData()
    e.charge = 3.0
    e.atnums = [8, 1]
    e.atcoords = np.array([[0.0, 0, 0], [0, 0, 1.8]])
    e.title = "t"
    if with_mo:
        e.obasis = MolecularBasis(shells, HORTON2_CONVENTIONS, "L2")
        e.mo = MolecularOrbitals("restricted", 6, 6, occs=np.array([2.0, 1, 1, 0, 0, 0]), occs_aminusb=np.array([0.0, 1, -1, 0, 0, 0]), coeffs=np.eye(6), energies=np.arange(6.0), irreps=["a"] * 6)
    else:
        e.one_ints = {"core_mo": np.eye(2)}
        e.two_ints = {"two_mo": np.zeros((2, 2, 2, 2))}
        e.core_energy = 0.5
        e.atffparams = {"attypes": np.array(["O", "H"]), "restypes": np.array(["X", "X"]), "resnums": np.array([1, 1])}
    if read_first:
        e.charge
    return e
for fmt, mod in sorted(FORMAT_MODULES.items()):
  for with_mo in (True, False):
    if not hasattr(mod, "dump_one"): continue
    outcome = []
    for read_first in (False, True):
        cases += 1
        e = early(read_first, with_mo)
        obs_e = observables(e)
        fn = os.path.join(tmp, f"e.{fmt}")
        with warnings.catch_warnings(record=True) as w:
            warnings.simplefilter("always")
            try:
                dump_one(e, fn, fmt=fmt, allow_changes=True)
                outcome.append(("ok", open(fn, "rb").read()))
            except (PrepareDumpError, DumpError) as exc:
                outcome.append((type(exc).__name__, repr(exc.__cause__)[:120]))
                if isinstance(exc, PrepareDumpError) and any(issubclass(x.category, PrepareDumpWarning) for x in w):
                    fails.append((("charge assigned before the atoms, object not read before the dump" if not read_first else "charge assigned before the atoms", fmt, repr(exc.__cause__)[:120]), "a conversion was announced (PrepareDumpWarning) and then refused (PrepareDumpError)"))
        for k, v in observables(e).items():
            if obs_e[k] != v: fails.append(((fmt, k, obs_e[k], v), "dump_one altered a derived property of the caller's object")); break
    if outcome[0] != outcome[1] and fmt != "json_qcschema":
        fails.append(((fmt, outcome[0][0], outcome[1][0]), "the outcome of dump_one depends on whether the object was read before"))
sig = {}
for f in fails: sig.setdefault(f[1], f)
print(json.dumps(dict(cases=cases, nfails=len(fails), kinds={k: repr(v)[:400] for k, v in sig.items()}), default=str))
"""
_TAIL = "print(json.dumps(dict(cases=cases, nfails=len(fails), kinds={k: repr(v)[:400] for k, v in sig.items()}), default=str))"


def run_bounded(chk):
    env = dict(os.environ, PYTHONPATH=source.REPO)
    out = subprocess.run([VENV_PY, "-c", BOUNDED], capture_output=True, text=True, env=env, cwd="/", timeout=3000)
    if out.returncode != 0:
        chk.fault(f"bounded driver crashed: {out.stderr[-1500:]}")
        return
    res = json.loads(out.stdout.strip().splitlines()[-1])
    bound = "12 objects (10 corpus files + generalized/occs_aminusb object + QCSchema object with nested extra) x 13 dump formats x allow_changes x two dumps in a row, 2 input writers; deep snapshot (array bytes, dict contents, member identities) before/after"
    for kind, example in sorted(res["kinds"].items()):
        script = BOUNDED.replace(_TAIL, f"print(sig.get({kind!r}))\nif {kind!r} in sig:\n    print('REPRODUCED'); sys.exit(1)")
        chk.add_bounded(f"snapshots.{kind}", bound, res["cases"], [example], replay_script=script)
    if not res["kinds"]:
        chk.add_bounded("snapshots", bound, res["cases"], [])


def run(chk):
    chk.functions += ["every function reachable from api.dump_one / dump_many / write_input in the call graph of iodata (see coverage.functions_in_call_graph)", "the six prepare_dump functions (R1/R2 structure)"]
    chk.trusted += [
        "provenance axioms for numpy / builtins: basic indexing, .T, reshape, ravel, asarray, dict.get/values/items yield aliases; arithmetic, astype, copy, array, comprehension, sorted, list(), dict() yield fresh objects (a fresh container may hold aliased elements: tracked as elem:)",
        "C-level code of numpy / scipy does not write into its inputs unless asked to (out=)",
        "method calls are resolved by name over all iodata classes (over-approximation)",
        "contract of api.dump_one (C08); the prepare_* contracts of C14 are re-proved in this check",
    ]
    chk.assumptions += ["the analysis is flow-insensitive within a function (sound over-approximation of provenance)", "storing into self inside setters/constructors of iodata classes is not a mutation of the *caller's* data unless the object came from the caller; the IOData.atcorenums getter is licensed by the statement", "output streams (parameters f / fh / file) are written to by design"]
    # "conversions are explicit and equivalent": the contracts of the two prepare_* helpers (identity short-cut only when
    # nothing needs converting, error without allow_changes, warning with it) are those proved for C14; re-proved here
    res = collect(chk, run_jobs([("checks.c09", "job_frame", {}), ("checks.c14", "job_prepare_unrestricted", {}), ("checks.c14", "job_prepare_segmented", {})]))
    for r in res:
        if not isinstance(r, dict) or "functions" not in r:
            continue
        chk.notes["functions_in_call_graph"] = r.get("functions")
        chk.notes["mutation_sites_checked"] = r.get("mutation_sites")
    run_bounded(chk)
    chk.samples = [o.as_dict() for o in list(chk.ledger.obligations.values())[:6]]
    chk.notes["explanation"] = "C09: frame obligations by provenance analysis over the dump call graph; return-identity structure; deep snapshots as bounded cross-check"
