"""C13 -- trajectories keep every frame, in order, each identical to a single load.

F1  api.load_many: one IOData per dictionary of the format generator, in order            (obligations of C07, re-run)
F2  api.dump_many: first frame checked before open, then one pull per written frame, lazily  (obligations of C08, re-run)
F3  format-level load_many: every yielded frame is the result of the module's own load_one on the shared cursor
F4  boundary discipline: the handlers that turn end-of-input into normal termination may fire only when no line of
    the current frame has been consumed (else a truncated frame ends the sequence silently)
F5  fchk.load_many: frames are slices of the per-point arrays in file order; a count mismatch warns
Data equality per frame is C02; here it is a bounded stand-in (dump_many / load_many on generated sequences).
"""

from __future__ import annotations

import ast
import json
import os
import subprocess

import z3

from pyvc import source
from pyvc.apimodel import FileObj, api_config, havoc_line_iterators, true_loop
from pyvc.core import Ledger
from pyvc.harness import verify
from pyvc.interp import PyRaise
from pyvc.pool import collect, run_jobs
from pyvc.report import VENV_PY
from pyvc.values import Obj, Opaque, SInt, SList, SSeq, SU, SymExc, SymExcClass, U, seq_of

LEVEL = "other"
FORMATS = ("xyz", "extxyz", "sdf", "gromacs", "pdb", "mol2")


def job_boundary(fmt):
    mod = source.import_repo(f"iodata.formats.{fmt}")
    target = f"{mod.__name__}.load_many"
    U_ = source.import_repo("iodata.utils")
    cfg = api_config()
    cfg.inline_generators.add(target)
    # the frame loop is the first loop of load_many, whatever its header is (`while True:` + next(lit), `for line in lit:`)
    cfg.loop_specs[(target, 0)] = true_loop("", "loop.frames")
    cfg.on_yield = lambda interp, v: interp.ctx.event("yield", v)

    def load_one(interp, args, kwargs):
        """Contract of the format's load_one for an arbitrary file content."""
        ctx = interp.ctx
        lit = args[0]
        depth = seq_of(lit.fields["stack"]).n
        k = ctx.choose(4, "load_one.outcome")
        if k == 0:
            havoc_line_iterators(interp, [lit])
            tok = Opaque(ctx.fresh("frame"))
            ctx.event("load_one-returned", tok)
            return tok
        partial = z3.Bool(ctx.fresh("partial"))
        # a pushed-back line is handed out first, so an end-of-file *after* it is inside the frame
        ctx.assume(z3.Implies(depth > 0, partial))
        havoc_line_iterators(interp, [lit])
        if k == 1:
            ctx.event("load_one-StopIteration", partial)
            raise PyRaise(StopIteration())
        if k == 2:
            ctx.event("load_one-LoadError", partial)
            raise PyRaise(interp.call(U_.LoadError, ["malformed frame", lit]))
        cls = SymExcClass(ctx.fresh("E.load_one"), Exception)
        ctx.assume(z3.Not(cls.sub_pred(StopIteration)))
        ctx.assume(z3.Not(cls.sub_pred(U_.LoadError)))
        ctx.event("load_one-other-exception")
        raise PyRaise(SymExc(cls, "load_one"))

    cfg.contracts[f"{mod.__name__}.load_one"] = load_one

    def setup(ctx, interp):
        lit = Obj(U_.LineIterator, tag="lit")
        fh = FileObj(ctx, "f", "r")
        lit.fields.update(filename=SU(z3.Const("filename", U), str), fh=fh, lineno=SInt(z3.Int("lineno0")), stack=SList(SSeq(0, lambda i: 0, list)))
        return mod.load_many, [lit], {}, {}

    def post(out, env):
        ctx = out.ctx
        tr = ctx.trace
        # F3: what is yielded is exactly what load_one returned, in order
        ev = [e for e in tr if e[0] in ("load_one-returned", "yield")]
        ok = len(ev) % 2 == 0 and all(ev[i][0] == "load_one-returned" and ev[i + 1][0] == "yield" and ev[i][1] is ev[i + 1][1] for i in range(0, len(ev), 2))
        ctx.prove(f"{target}::post.every-frame-is-one-load_one-result-on-the-shared-cursor-in-order", ok)
        if out.kind == "raise":
            e = out.value
            swallowable = any(x[0] in ("load_one-StopIteration",) for x in tr)
            ctx.prove(f"{target}::raises.malformed-frames-are-not-skipped-(exceptions-of-load_one-propagate)", isinstance(e, (SymExc, Obj)) or isinstance(e, StopIteration), kind="raises")
            return
        # normal termination of the generator
        last = tr[-1] if tr else None
        if last is not None and last[0] == "readline":
            # the sequence was ended after looking at a line (not by end of file): only a blank line may do that
            from pyvc.values import ustr

            strip = z3.Function("str.strip", U, U)
            ctx.prove(f"{target}::post.a-line-ends-the-sequence-only-if-it-is-blank", strip(last[2].t) == ustr(""))
            # ... and even a blank line is not the end of the input: complete frames may follow it (a blanked count field,
            # an empty line between two frames); ending here drops them silently
            ctx.prove(f"{target}::post.the-sequence-ends-only-at-the-end-of-the-input-(frames-after-a-blank-line-are-not-dropped)", False)
        for x in tr:
            if x[0] == "load_one-StopIteration":
                ctx.prove(f"{target}::post.end-of-input-ends-the-sequence-only-at-a-frame-boundary", z3.Not(x[1]))
            if x[0] == "load_one-LoadError":
                ctx.prove(f"{target}::post.a-LoadError-ends-the-sequence-only-if-no-line-of-a-frame-was-read", z3.Not(x[1]))
            if x[0] == "load_one-other-exception":
                ctx.prove(f"{target}::post.no-other-exception-is-swallowed", False)

    return verify(target, setup, post, config=cfg, max_paths=400)


def job_fchk():
    """fchk.load_many: structural obligations on the AST (frames are produced in file order from zip slices; a count
    mismatch emits a LoadWarning and never drops frames silently)."""
    led = Ledger()
    node = source.find_def("iodata.formats.fchk", "load_many")
    src = ast.unparse(node)
    loops = [n for n in ast.walk(node) if isinstance(n, ast.For)]
    outer_ok = any(ast.unparse(l.iter) == "enumerate(nsteps)" for l in loops)
    inner_ok = any(ast.unparse(l.iter) == "enumerate(trajectory)" and any(isinstance(n, ast.Yield) for n in ast.walk(l)) for l in loops)
    led.record("iodata.formats.fchk.load_many::post.frames-in-file-order-(points-then-steps)", "post", "discharged" if outer_ok and inner_ok else "unknown", "ast", 0.0, detail=src[:200])
    warn_ok = any(isinstance(n, ast.If) and "len(trajectory) != nstep" in ast.unparse(n.test) and "LoadWarning" in ast.unparse(n) for n in ast.walk(node))
    led.record("iodata.formats.fchk.load_many::post.count-mismatch-emits-a-LoadWarning", "post", "discharged" if warn_ok else "unknown", "ast", 0.0)
    no_try = not any(isinstance(n, ast.Try) for n in ast.walk(node))
    led.record("iodata.formats.fchk.load_many::post.no-handler-can-swallow-a-malformed-point", "post", "discharged" if no_try else "unknown", "ast", 0.0)
    return led


BOUNDED = r"""
import itertools, json, os, sys, tempfile, warnings
import numpy as np
from iodata import IOData, load_many, load_one, dump_many, dump_one
from iodata.utils import LoadError, DumpError, PrepareDumpError
seed, maxframes = int(sys.argv[1]), int(sys.argv[2])
rng = np.random.default_rng(seed)
tmp = tempfile.mkdtemp()
__import__("atexit").register(__import__("shutil").rmtree, tmp, True)
fails, cases = [], 0
def frame(i, n):
    bonds = np.array([[a, a + 1, 1 + (a % 3)] for a in range(n - 1)]) if n > 1 else None
    return IOData(atnums=rng.integers(1, 30, size=n), atcoords=rng.normal(size=(n, 3)) * 3, title=f"frame {i}", bonds=bonds, atcharges={"mol2charges": rng.normal(size=n).round(4)})
def same(a, b, fmt):
    if not np.array_equal(a.atnums, b.atnums): return "atnums"
    if not np.allclose(a.atcoords, b.atcoords, atol=2e-3): return "atcoords"
    if fmt in ("sdf", "mol2", "pdb") and (a.bonds is None) != (b.bonds is None): return "bonds"
    if a.bonds is not None and b.bonds is not None and fmt in ("sdf", "mol2") and not np.array_equal(a.bonds, b.bonds): return "bonds"
    if a.title != b.title: return "title"
    return None
for fmt in ("xyz", "pdb", "mol2", "sdf"):
    for nfr in sorted(set([1, 2, 3, maxframes])):
        frames = [frame(i, int(rng.integers(1, 7))) for i in range(nfr)]
        for kind in ("list", "generator"):
            cases += 1
            fn = os.path.join(tmp, f"t_{nfr}_{kind}.{fmt}")
            pulled = []
            def gen():
                for k, f in enumerate(frames):
                    pulled.append(k); yield f
            dump_many(frames if kind == "list" else gen(), fn)
            if kind == "generator" and pulled != list(range(nfr)): fails.append(((fmt, nfr), "iterable not consumed exactly once in order"))
            got = list(load_many(fn))
            if len(got) != nfr: fails.append(((fmt, nfr, kind), "number of frames changed", len(got))); continue
            for i, (a, b) in enumerate(zip(frames, got)):
                fn1 = os.path.join(tmp, f"single.{fmt}")
                dump_one(a, fn1)
                c = load_one(fn1)
                w = same(c, b, fmt)
                if w: fails.append(((fmt, nfr, i), "frame differs from a per-frame save and reload: " + w)); break
        # generator raising mid-way: frames before the fault are written, the error is not swallowed
        cases += 1
        def bad():
            for k, f in enumerate(frames):
                if k == nfr - 1: raise RuntimeError("boom")
                yield f
        fn = os.path.join(tmp, f"bad.{fmt}")
        try:
            dump_many(bad(), fn)
            fails.append(((fmt, nfr), "exception of the iterable swallowed"))
        except (DumpError, RuntimeError):
            pass
        # laziness: frame k+1 is not pulled before frame k was written
        if fmt == "xyz" and nfr >= 3:
            cases += 1
            seen = []
            fn = os.path.join(tmp, "lazy.xyz")
            def lazy():
                for k, f in enumerate(frames):
                    if k >= 1:
                        seen.append(open(fn).read().count("frame"))
                    yield f
            dump_many(lazy(), fn)
            if any(s > k + 1 for k, s in enumerate(seen)): fails.append(((fmt, nfr), "frames pulled ahead"))
    # truncation at every line of a 3-frame file: frames before the cut survive, no partial frame without warning/error
    frames = [frame(i, 3) for i in range(3)]
    fn = os.path.join(tmp, f"trunc.{fmt}")
    dump_many(frames, fn)
    lines = open(fn).read().splitlines(keepends=True)
    per = len(lines) // 3
    for cut in range(1, len(lines)):
        cases += 1
        with open(fn, "w") as fh: fh.write("".join(lines[:cut]))
        with warnings.catch_warnings(record=True) as w:
            warnings.simplefilter("always")
            try:
                got = list(load_many(fn))
            except LoadError:
                continue
            except Exception as exc:
                fails.append(((fmt, cut), "escaping " + type(exc).__name__)); continue
        complete = cut // per
        inside = cut % per != 0
        if len(got) < complete: fails.append(((fmt, cut), "a complete frame before the cut was lost"))
        if inside and len(got) > complete and not w: fails.append(((fmt, cut, per), "partial frame yielded without warning or error: " + fmt))
        if inside and len(got) == complete and not w: fails.append(((fmt, cut, per), "file cut inside its last frame ends the sequence silently: " + fmt))
    # an empty line between two complete frames / a blanked count field: the later frames must not vanish silently
    dump_many(frames, fn)
    lines = open(fn).read().splitlines(keepends=True)
    for variant, l2 in (("empty line inserted between frames", lines[:per] + ["\n"] + lines[per:]), ("first line of the second frame blanked", lines[:per] + [" " * (len(lines[per]) - 1) + "\n"] + lines[per + 1:])):
        cases += 1
        with open(fn, "w") as fh: fh.write("".join(l2))
        with warnings.catch_warnings(record=True) as w:
            warnings.simplefilter("always")
            try:
                got = list(load_many(fn))
            except LoadError:
                continue
            except Exception as exc:
                fails.append(((fmt, variant), "escaping " + type(exc).__name__)); continue
        if len(got) < 3 and not w: fails.append(((fmt, variant, len(got)), "frames after a blank line dropped silently: " + fmt))
    # corruption of one numeric field in the middle frame -> LoadError when it is reached
    dump_many(frames, fn)
    lines = open(fn).read().splitlines(keepends=True)
    for ln in range(per, 2 * per):
        toks = lines[ln].split()
        if len(toks) == 1 and toks[0].isdigit():
            # a count line: corrupt it
            cases += 1
            l2 = list(lines); l2[ln] = toks[0] + "x\n"
            with open(fn, "w") as fh: fh.write("".join(l2))
            try:
                got = list(load_many(fn)); fails.append(((fmt, ln), "malformed frame skipped or sequence ended silently", len(got)))
            except LoadError:
                pass
            continue
        if len(toks) >= 2 and all(t.isdigit() for t in toks) and ln >= 2 and lines[ln - 2].startswith("@<TRIPOS>MOLECULE"):
            # the MOL2 counts line (atoms, bonds, ...): corrupt each interpreted counter in turn, same width
            for k, t in enumerate(toks[:2]):  # atom and bond counts: the counters a reader needs to find the frame's records
                cases += 1
                t2 = list(toks); t2[k] = t[:-1] + "x"
                l2 = list(lines); l2[ln] = " ".join(t2) + "\n"
                with open(fn, "w") as fh: fh.write("".join(l2))
                try:
                    got = list(load_many(fn))
                    fails.append(((fmt, ln, "integer counter", k), "malformed frame skipped or sequence ended silently", len(got)))
                except LoadError:
                    pass
            continue
        if not any(t.replace(".", "").replace("-", "").isdigit() and "." in t for t in toks): continue
        cases += 1
        tok = next(t for t in toks if "." in t and t.replace(".", "").replace("-", "").isdigit())
        l2 = list(lines); l2[ln] = l2[ln].replace(tok, tok[:-1] + "x", 1)  # same width: the other columns stay where they are
        with open(fn, "w") as fh: fh.write("".join(l2))
        try:
            got = list(load_many(fn))
            fails.append(((fmt, ln), "malformed frame skipped or sequence ended silently", len(got)))
        except LoadError:
            pass
# extended XYZ trajectories whose frames use different Properties layouts: every frame must be what its own text says,
# whatever layouts the frames before it had (species-only frames, then frames with both species and Z, and back)
def ext_frame(layout, n, tag):
    out = [str(n)]
    if layout == "species":
        out.append(f'Properties=species:S:1:pos:R:3 title="{tag}"')
        out += [f"{['H', 'O', 'C'][i % 3]} {i * 1.0:.4f} {0.5 * i:.4f} {-0.25 * i:.4f}" for i in range(n)]
    else:
        out.append(f'Properties=species:S:1:pos:R:3:Z:I:1 title="{tag}"')
        out += [f"{['Xa', 'Xb', 'Xc'][i % 3]} {i * 1.0:.4f} {0.5 * i:.4f} {-0.25 * i:.4f} {[1, 8, 6][i % 3]}" for i in range(n)]
    return "\n".join(out) + "\n"
for order in itertools.product(("species", "both"), repeat=3):
    cases += 1
    sizes = [int(rng.integers(1, 5)) for _ in order]
    fn = os.path.join(tmp, "het.xyz")
    with open(fn, "w") as fh: fh.write("".join(ext_frame(l, n, f"f{k}") for k, (l, n) in enumerate(zip(order, sizes))))
    try:
        got = list(load_many(fn, fmt="extxyz"))
    except Exception as exc:
        fails.append((("extxyz", order), "heterogeneous extended-XYZ trajectory cannot be loaded: " + type(exc).__name__)); continue
    if len(got) != 3: fails.append((("extxyz", order), "number of frames changed", len(got))); continue
    for k, (l, n, g) in enumerate(zip(order, sizes, got)):
        want_z = [[1, 8, 6][i % 3] for i in range(n)]
        want_species = None if l == "species" else [["Xa", "Xb", "Xc"][i % 3] for i in range(n)]
        have_species = None if "species" not in g.extra else list(g.extra["species"])
        if list(g.atnums) != want_z or have_species != want_species:
            fails.append((("extxyz", order, k), "frame of a heterogeneous extended-XYZ trajectory differs from what its own text says", dict(atnums=list(map(int, g.atnums)), species=have_species, expected_species=want_species))); break
sig = {}
for f in fails: sig.setdefault(f[1], f)
print(json.dumps(dict(cases=cases, nfails=len(fails), kinds={k: repr(v)[:400] for k, v in sig.items()}), default=str))
"""
_TAIL = "print(json.dumps(dict(cases=cases, nfails=len(fails), kinds={k: repr(v)[:400] for k, v in sig.items()}), default=str))"


def run_bounded(chk):
    maxframes = 8 if chk.tier == "quick" else 50
    env = dict(os.environ, PYTHONPATH=source.REPO)
    out = subprocess.run([VENV_PY, "-c", BOUNDED, str(chk.seed), str(maxframes)], capture_output=True, text=True, env=env, cwd="/", timeout=3000)
    if out.returncode != 0:
        chk.fault(f"bounded driver crashed: {out.stderr[-1500:]}")
        return
    res = json.loads(out.stdout.strip().splitlines()[-1])
    bound = f"4 dump_many formats x sequences of 1,2,3,{maxframes} frames (1..6 atoms) x list/generator/raising generator; truncation of a 3-frame file at every line; one corrupted numeric field per line of the middle frame; all 8 orders of 3 extended-XYZ frames with two Properties layouts"
    for kind, example in sorted(res["kinds"].items()):
        script = BOUNDED.replace("seed, maxframes = int(sys.argv[1]), int(sys.argv[2])", f"seed, maxframes = {chk.seed}, {maxframes}").replace(_TAIL, f"print(sig.get({kind!r}))\nif {kind!r} in sig:\n    print('REPRODUCED'); sys.exit(1)")
        chk.add_bounded(f"trajectories.{kind}", bound, res["cases"], [example], replay_script=script)
    if not res["kinds"]:
        chk.add_bounded("trajectories", bound, res["cases"], [])


REPLAY_TRUNC = """
import sys, os, tempfile, warnings
import numpy as np
from iodata import IOData, dump_many, load_many
fmt = {fmt!r}
src = {src!r}
if src:
    lines = open(src).read().splitlines(keepends=True)
    per = int(lines[1]) + 3
    lines = lines[: 2 * per]
else:
    frames = [IOData(atnums=[8, 1, 1], atcoords=np.arange(9.0).reshape(3, 3) + i, title=f"frame {{i}}", bonds=np.array([[0, 1, 1], [0, 2, 1]]), atcharges={{"mol2charges": np.zeros(3)}}) for i in range(2)]
    _d = tempfile.mkdtemp()
    __import__("atexit").register(__import__("shutil").rmtree, _d, True)
    fn = os.path.join(_d, "t." + fmt)
    dump_many(frames, fn, fmt=fmt)
    lines = open(fn).read().splitlines(keepends=True)
    per = len(lines) // 2
_d = tempfile.mkdtemp()
__import__("atexit").register(__import__("shutil").rmtree, _d, True)
fn = os.path.join(_d, "cut." + fmt)
open(fn, "w").write("".join(lines[: per + max(2, per // 2)]))
with warnings.catch_warnings(record=True) as w:
    warnings.simplefilter("always")
    try:
        n = len(list(load_many(fn, fmt=fmt)))
    except Exception as exc:
        print("raised", type(exc).__name__); sys.exit(0)
print("file with 2 frames cut inside frame 2:", n, "frame(s) loaded,", len(w), "warning(s), no error")
if not w:
    print("REPRODUCED"); sys.exit(1)
"""


def run(chk):
    from checks import c07, c08

    chk.functions += ["iodata.api.load_many (F1, obligations of C07)", "iodata.api.dump_many + checking_iterator (F2, obligations of C08)"] + [f"iodata.formats.{f}.load_many" for f in FORMATS] + ["iodata.formats.fchk.load_many (structural)"]
    chk.trusted += ["z3", "contract of the format-level load_one: returns a frame, or raises StopIteration / LoadError / another Exception after consuming any number of lines (ghost flag `partial`)", "a pushed-back line is returned by the next next(lit) (LineIterator contract, C07)", "havoc contracts and file model as in C07/C08"]
    chk.assumptions += ["per-frame data equality is C02 (bounded there and here)", "the four format-level dump_many are plain loops over dump_one (ground obligation of C08)"]
    jobs = [("checks.c13", "job_boundary", {"fmt": f}) for f in FORMATS] + [("checks.c13", "job_fchk", {})]
    jobs += [("checks.c07", "job_load_many", {}), ("checks.c08", "job_checking_iterator", {})] + [("checks.c08", "job_dump_many", {"modname": m}) for m in sorted(c08.dump_modules("dump_many"))]
    collect(chk, run_jobs(jobs))
    run_bounded(chk)
    for o in chk.ledger.obligations.values():
        if o.status == "refuted" and "only-at-a-frame-boundary" in o.name or (o.status == "refuted" and "only-if-no-line-of-a-frame-was-read" in o.name):
            fmt = o.name.split(".")[2]
            src = os.path.join(source.REPO, "iodata", "test", "data", "water2.gro") if fmt == "gromacs" else ""
            chk.set_replay(o.name, REPLAY_TRUNC.format(fmt=fmt, src=src))
    chk.samples = [o.as_dict() for o in list(chk.ledger.obligations.values())[:6]]
    chk.notes["explanation"] = "C13: order/laziness obligations of the API (C07/C08 jobs re-run), frame-boundary discipline of the format-level load_many functions with load_one havoc'ed; per-frame data equality only bounded"
