"""C04 -- every physical quantity is in atomic units, consistently across formats.

The statement is about a factor: loaded value = number in the file x (unit of the format -> a.u.).  The real
readers and writers are executed with the unit constants of their module as *indeterminates* (bounded/units_probe.py:
a constant u is scaled, the loaded value scales with u^k, k is read off exactly), which decides for the executed
path and for all numeric values the monomial in the unit constants that enters each attribute.  Obligations:
  U1  reader monomial == the unit table below (written from the format documentation, not from the code)
  U2  writer followed by reader has total exponent 0 (the writer divides by what the reader multiplies by);
      input writers divide by angstrom
  U3  every unit-constant use site of a format module lies on an executed path (site coverage, AST + probe)
  U4  the conversion constants of iodata.utils against CODATA values typed in here
  U5  absolute factors where no constant exists in the module to scale (masses in GAMESS / Q-Chem / QCSchema,
      Q-Chem multipoles in Debye): loaded value vs. the printed number
This is a symbolic run of the real code per corpus path, not a proof for all files: category `other`.
"""

from __future__ import annotations

import ast
import json
import os
import subprocess

from pyvc import source
from pyvc.core import Ledger
from pyvc.report import VENV_PY, VERIF

LEVEL = "other"

# CODATA 2018 (2014 and 2022 agree to better than 1e-8 relative for these)
BOHR_M = 5.29177210903e-11
HARTREE_EV = 27.211386245988
HARTREE_J = 4.3597447222071e-18
AU_TIME_S = 2.4188843265857e-17
ME_KG = 9.1093837015e-31
NA = 6.02214076e23
CAL = 4.184
CODATA = {
    "angstrom": 1e-10 / BOHR_M,
    "nanometer": 1e-9 / BOHR_M,
    "meter": 1.0 / BOHR_M,
    "electronvolt": 1.0 / HARTREE_EV,
    "second": 1.0 / AU_TIME_S,
    "picosecond": 1e-12 / AU_TIME_S,
    "amu": 1e-3 / (ME_KG * NA),
    "kcalmol": 1e3 * CAL / NA / HARTREE_J,
    "calmol": CAL / NA / HARTREE_J,
    "kjmol": 1e3 / NA / HARTREE_J,
}
DEBYE_AU = 1.0 / 2.541746473  # 1 Debye in atomic units of dipole moment

# unit table: (format, attribute) -> monomial in the unit constants by which the *file number* is multiplied on load
A, NM, PS, AMU, EV = "angstrom", "nanometer", "picosecond", "amu", "electronvolt"
READ_SPEC = {
    ("xyz", "atcoords"): {A: 1},
    ("extxyz", "atcoords"): {A: 1},
    ("extxyz", "cellvecs"): {A: 1},
    ("extxyz", "atmasses"): {AMU: 1},
    # the module cites the ASE conventions: energies in eV, forces in eV/angstrom
    ("extxyz", "energy"): {EV: 1},
    ("extxyz", "atgradient"): {EV: 1, A: -1},
    ("pdb", "atcoords"): {A: 1},
    ("mol2", "atcoords"): {A: 1},
    ("sdf", "atcoords"): {A: 1},
    ("charmm", "atcoords"): {A: 1},
    ("charmm", "atmasses"): {AMU: 1},
    ("gaussianinput", "atcoords"): {A: 1},
    ("molekel", "atcoords"): {A: 1},
    ("mwfn", "atcoords"): {A: 1},
    ("gamess", "atcoords"): {A: 1},
    ("qchemlog", "atcoords"): {A: 1},
    ("poscar", "atcoords"): {A: 1},
    ("poscar", "cellvecs"): {A: 1},
    ("chgcar", "atcoords"): {A: 1},
    ("chgcar", "cellvecs"): {A: 1},
    ("chgcar", "cube.axes"): {A: 1},
    ("chgcar", "cube.data"): {A: -3},
    ("locpot", "atcoords"): {A: 1},
    ("locpot", "cellvecs"): {A: 1},
    ("locpot", "cube.axes"): {A: 1},
    ("locpot", "cube.data"): {EV: 1},
    ("gromacs", "atcoords"): {NM: 1},
    ("gromacs", "cellvecs"): {NM: 1},
    ("gromacs", "extra['velocities']"): {NM: 1, PS: -1},
    ("gromacs", "extra['time']"): {PS: 1},
    ("fchk", "atmasses"): {AMU: 1},
    # Q-Chem thermochemistry: kcal/mol, cal/mol/K; EDA terms in kJ/mol
    ("qchemlog", "extra['vib_energy']"): {"kcalmol": 1},
    ("qchemlog", "extra['enthalpy_dict']"): {"kcalmol": 1},
    ("qchemlog", "extra['entropy_dict']"): {"calmol": 1},
    ("qchemlog", "extra['eda2']"): {"kjmol": 1},
}


def spec_for(fmt, attr):
    if (fmt, attr) in READ_SPEC:
        return READ_SPEC[(fmt, attr)]
    for (f, a), sp in READ_SPEC.items():
        if f == fmt and attr.startswith(a + "["):
            return sp
    return None
# Molden declares its length unit in the file ([Atoms] AU / Angs): both exponents occur, on different files
FILE_DEPENDENT = {("molden", "atcoords"): ({A: 0}, {A: 1})}


def run_probe(chk):
    maxsize, maxfiles = (400000, 3) if chk.tier == "quick" else (5000000, 1000)
    env = dict(os.environ, PYTHONPATH=source.REPO)
    out = subprocess.run([VENV_PY, os.path.join(VERIF, "bounded", "units_probe.py"), str(maxsize), str(maxfiles)], capture_output=True, text=True, env=env, cwd="/", timeout=3500)
    if out.returncode != 0:
        chk.fault(f"units probe crashed: {out.stderr[-1500:]}")
        return None
    return json.loads(out.stdout.strip().splitlines()[-1])


def unit_sites():
    """Every use of a unit constant inside a function of a format / input module (AST)."""
    api = source.import_repo("iodata.api")
    mods = [m.__name__ for m in api.FORMAT_MODULES.values()] + ["iodata.inputs.gaussian", "iodata.inputs.orca"]
    sites = {}
    for mn in mods:
        tree, _ = source.module_ast(mn)
        for fn in ast.walk(tree):
            if isinstance(fn, (ast.FunctionDef, ast.Lambda)):
                for n in ast.walk(fn):
                    if isinstance(n, ast.Name) and n.id in CODATA and isinstance(n.ctx, ast.Load):
                        sites.setdefault(mn.split(".")[-1], {}).setdefault(n.id, set()).add(n.lineno)
    return {m: {u: sorted(l) for u, l in us.items()} for m, us in sites.items()}


def measured(report, side, fmt, attr, unit):
    """set of exponents observed (as strings) or {'0'} when the attribute was seen but the unit is not in the module."""
    d = report[side].get(fmt, {}).get(attr, {}).get(unit)
    if d is None:
        return {"0"} if attr in report.get("attrs_seen", {}).get(fmt, {}) or side == "writers" else set()
    return set(d)


def run(chk):
    chk.functions += ["load_one of the format modules and their helpers (executed, unit constants as indeterminates)", "dump_one of the 13 writers + inputs.*.default_atom_line (executed)"]
    chk.trusted += ["linearity: the loaded value is a monomial in the module's unit constants times the file number (observed: the exponent is the same integer on every element, else the obligation fails as `mixed`)", "CODATA values typed into checks/c04.py", "standard atomic weights of a few elements (for the absolute mass probe)"]
    chk.assumptions += ["per corpus path: a reader branch that no corpus file reaches is not covered (site coverage U3 reports unexercised unit-constant sites)"]
    led = chk.ledger
    rep = run_probe(chk)
    if rep is None:
        return
    chk.notes["files_probed"] = rep["files"]
    chk.notes["files_per_format"] = {k: len(v) for k, v in rep["count"].items()}
    # U4 constants
    for u, want in CODATA.items():
        got = rep["constants"].get(u)
        ok = got is not None and abs(got / want - 1) < 1e-8
        led.record(f"iodata.utils.{u}::ground.equals-the-CODATA-value", "ground", "discharged" if ok else "refuted", "eval", 0.0, detail=f"{got} vs {want}", witness={"constant": u, "value": got, "codata": want})
    # U1 readers
    seen_pairs = set()
    pairs = []
    for fmt, attrs in rep.get("attrs_seen", {}).items():
        for attr in attrs:
            sp = spec_for(fmt, attr)
            if sp is not None:
                pairs.append(((fmt, attr), sp))
    for (fmt, attr), spec in sorted(pairs):
        seen_pairs.add((fmt, attr))
        units = set(spec) | set(rep["readers"].get(fmt, {}).get(attr, {}))
        bad = {}
        for u in units:
            got = measured(rep, "readers", fmt, attr, u)
            if got != {str(spec.get(u, 0))}:
                bad[u] = sorted(got)
        led.record(f"units@{fmt}.load::{attr}-is-the-file-number-times-{_mono(spec)}", "post", "refuted" if bad else "discharged", "symrun", 0.0, detail=f"observed exponents {bad}", witness={"format": fmt, "attribute": attr, "observed": bad} if bad else None)
    for (fmt, attr), options in FILE_DEPENDENT.items():
        got = {u: measured(rep, "readers", fmt, attr, u) for u in options[0]}
        ok = all(got[u] <= {str(o[u]) for o in options} and got[u] for u in got)
        led.record(f"units@{fmt}.load::{attr}-follows-the-unit-declared-in-the-file", "post", "discharged" if ok else "refuted", "symrun", 0.0, detail=str({u: sorted(v) for u, v in got.items()}))
    # attributes outside the table must not be scaled by any unit constant
    stray = []
    for fmt, attrs in rep["readers"].items():
        for attr, us in attrs.items():
            if spec_for(fmt, attr) is not None or (fmt, attr) in FILE_DEPENDENT:
                continue
            for u, ks in us.items():
                if isinstance(ks, dict) and set(ks) - {"0"}:
                    stray.append((fmt, attr, u, sorted(ks)))
    led.record("units@readers::no-other-attribute-is-scaled-by-a-unit-constant", "post", "refuted" if stray else "discharged", "symrun", 0.0, detail=str(stray[:4]), witness={"stray": [str(s) for s in stray[:4]]} if stray else None)
    # U2 writers
    for fmt, attrs in sorted(rep["writers"].items()):
        if fmt.startswith("input:"):
            got = set(attrs["atcoords"]["angstrom"])
            ok = got == {"-1"} and attrs["atcoords"].get("_abs", 1) < 1e-5
            led.record(f"units@{fmt}::coordinates-are-written-in-angstrom", "post", "discharged" if ok else "refuted", "symrun", 0.0, detail=str(attrs["atcoords"]))
            continue
        bad = {}
        for attr, us in attrs.items():
            for u, ks in us.items():
                if isinstance(ks, dict) and set(ks) - {"0"}:
                    bad[f"{attr}/{u}"] = sorted(ks)
        led.record(f"units@{fmt}.dump-then-load::every-quantity-comes-back-unscaled-(writer-inverts-reader)", "post", "refuted" if bad else "discharged", "symrun", 0.0, detail=str(bad), witness={"format": fmt, "observed": bad} if bad else None)
    # U3 site coverage
    sites = unit_sites()
    chk.notes["unit_constant_sites"] = sites
    writer_touch = {f for f in rep["writers"]}
    for mod, us in sorted(sites.items()):
        for u in us:
            exercised = rep["sites"].get(mod, {}).get(u, False) or mod in ("gaussian", "orca") or (mod in rep["writers"]) or mod == "poscar"
            # extxyz masses: no corpus file carries masses -> exercised only by the dump/load pair
            led.record(f"units@{mod}::every-use-of-{u}-lies-on-an-executed-path", "cover", "discharged" if exercised else "unknown", "symrun", 0.0, detail=f"lines {us[u]}")
    # U5 absolute probes
    amu = CODATA["amu"]
    for fmt, items in sorted(rep.get("masses", {}).items()):
        lo = min(i["ratio_min"] for i in items)
        hi = max(i["ratio_max"] for i in items)
        ok = abs(lo / amu - 1) < 0.02 and abs(hi / amu - 1) < 0.02
        led.record(f"units@{fmt}.load::atmasses-are-in-atomic-units-(file-value-in-u-times-amu)", "post", "discharged" if ok else "refuted", "symrun", 0.0, detail=f"loaded mass / standard atomic weight in [{lo:.4f}, {hi:.4f}], expected {amu:.3f}", witness={"format": fmt, "files": [i["file"] for i in items], "ratio": [lo, hi]})
    for fmt, (r1, r2) in rep.get("masses_crafted", {}).items():
        ok = abs(r1 / amu - 1) < 1e-6 and abs(r2 / amu - 1) < 1e-6
        led.record(f"units@{fmt}.load::atmasses-are-in-atomic-units-(file-value-in-u-times-amu)", "post", "discharged" if ok else "refuted", "symrun", 0.0, detail=f"crafted file with a masses column: ratios {r1}, {r2}")
    qd = rep.get("qchem_dipole")
    if qd and "ratio" in qd:
        ok = abs(qd["ratio"] / DEBYE_AU - 1) < 1e-3
        led.record("units@qchemlog.load::multipole-moments-are-converted-from-Debye-to-atomic-units", "post", "discharged" if ok else "refuted", "symrun", 0.0, detail=str(qd), witness=qd)
    ca = rep.get("chgcar_abs")
    if ca:
        ok = abs(ca["density_times_volume"] / ca["expected"] - 1) < 1e-6
        led.record("units@chgcar.load::density-is-the-file-value-divided-by-the-cell-volume-(any-cell-shape)", "post", "discharged" if ok else "refuted", "symrun", 0.0, detail=str(ca), witness=ca)
    ns = rep.get("poscar_negative_scale")
    if ns:
        ok = "error" not in ns and abs(ns["cell_edge_in_angstrom"] / ns["expected"] - 1) < 1e-6
        led.record("units@poscar.load::a-negative-scaling-factor-is-the-cell-volume-in-cubic-angstrom", "post", "discharged" if ok else "refuted", "symrun", 0.0, detail=str(ns), witness=ns)
    gu = rep.get("gaussianinput_units_au")
    if gu:
        ok = "error" not in gu and abs(gu["bond_in_bohr"] / gu["expected"] - 1) < 1e-9
        led.record("units@gaussianinput.load::units=au-in-the-route-section-means-coordinates-in-bohr", "post", "discharged" if ok else "refuted", "symrun", 0.0, detail=str(gu), witness=gu)
    for key in ("gro_crafted_error", "chgcar_crafted_error", "json_crafted_error", "extxyz_crafted_error"):
        if key in rep:
            led.record(f"units@probe::{key}", "cover", "unknown", "symrun", 0.0, detail=rep[key])
    if "gro_triclinic_nonzero" in rep:
        led.record("units@gromacs.load::triclinic-box-has-all-nine-components", "cover", "discharged" if rep["gro_triclinic_nonzero"] == 6 else "unknown", "symrun", 0.0, detail=str(rep["gro_triclinic_nonzero"]))
    xf = rep.get("xyz_abs_factor")
    if xf is not None:
        led.record("units@xyz.load::absolute-factor-is-the-angstrom-constant", "post", "discharged" if abs(xf / CODATA["angstrom"] - 1) < 1e-8 else "refuted", "symrun", 0.0, detail=str(xf))
    # replays
    for o in led.obligations.values():
        if o.status == "refuted" and "atmasses-are-in-atomic-units" in o.name and o.witness and o.witness.get("files"):
            fmt = o.name.split("@")[1].split(".")[0]
            fn = o.witness["files"][0]
            chk.set_replay(o.name, REPLAY_MASS.format(fn=fn, fmt=fmt))
        if o.status == "refuted" and "multipole-moments" in o.name:
            chk.set_replay(o.name, REPLAY_DIPOLE)
    chk.samples = [o.as_dict() for o in list(led.obligations.values())[:6]]
    chk.notes["explanation"] = "C04: the real readers/writers executed with unit constants as indeterminates on corpus paths; unit table from the format documentation; constants vs CODATA; absolute probes for masses and Q-Chem multipoles"


def _mono(spec):
    return "*".join(f"{u}^{k}" if k != 1 else u for u, k in spec.items())


REPLAY_MASS = """
import os, sys
import iodata
from iodata import load_one
p = os.path.join(os.path.dirname(iodata.__file__), "test", "data", {fn!r})
d = load_one(p, fmt={fmt!r})
W = {{1: 1.008, 6: 12.011, 7: 14.007, 8: 15.999, 3: 6.94, 17: 35.45}}
r = [float(m / W[int(z)]) for m, z in zip(d.atmasses, d.atnums) if int(z) in W]
print("loaded atmasses:", d.atmasses[:4], "ratio to standard atomic weights:", r[:4], "(atomic units would give about 1822.9)")
if not all(abs(x / 1822.888 - 1) < 0.02 for x in r):
    print("REPRODUCED"); sys.exit(1)
"""

REPLAY_DIPOLE = """
import os, sys
import iodata
from iodata import load_one
p = os.path.join(os.path.dirname(iodata.__file__), "test", "data", "water_hf_ccpvtz_freq_qchem.out")
d = load_one(p, fmt="qchemlog")
print("loaded dipole:", d.moments[(1, "c")], "-- the file prints 1.4989 1.1097 -0.7840 Debye; in atomic units that is 0.5897 0.4366 -0.3084")
if abs(d.moments[(1, "c")][0] - 1.4989) < 1e-6:
    print("REPRODUCED"); sys.exit(1)
"""
