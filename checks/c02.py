"""C02 - save-then-reload returns the same data for every read/write format.

Obligations (all generated from /repo's current source):
  T  tables@...      inverse tables: sym2num o num2sym, bond2num o num2bond, FCHK run types (writer map o reader map),
                     FCHK quadrupole permutation (writer o reader = identity and each side matches the documented orders)
  P  packing@...     triangular packing: for every n and every symmetric matrix, _triangle_to_dense(A[tril_indices(n)]) = A
                     (z3 lemma over the contract of _triangle_to_dense proved in C03 + the row-major order of tril_indices,
                     which is checked for n <= 40); the three writer sites use exactly that packing expression
  F  fcidump@...     for every norb: every element of an 8-fold symmetric two-electron array is covered by a written
                     record whose reader orbit contains it (z3 over loop bounds, condition and index orders taken from
                     the ASTs of dump_one, load_one and set_four_index_element); same for the symmetric one-electron part
  U  inverse-unit@ / factor-is-a-unit-constant@ / no-grouping@   (as in C15)
  S  separated@...   adjacent fields of a record that the reader splits on white space are separated by white space
  K  columns@...     for fixed-column readers (PDB ATOM, WFN): every reader slice holds exactly one writer field
  B  bounded         generated objects + corpus conversions: dump -> load -> compare (bounded/roundtrip_probe.py)
"""

from __future__ import annotations

import ast
import itertools

import z3

from pyvc import fmtspec, source
from pyvc.core import Ledger, check_valid

from . import rt_common
from .c15 import static_obligations

LEVEL = "other"

# readers that cut records into fixed columns (everything else splits on white space); (format, literal that
# identifies the writer record) -> reader function whose `line[a:b]` slices are compared
FIXED = {
    ("pdb", "ATOM  "): "_parse_pdb_atom_line",
    ("wfn", "MOL ORBITALS"): "_load_helper_num",
    ("wfn", "(CENTRE"): "_load_helper_atoms",
    ("wfn", "OCC NO"): "_load_helper_mo",
    ("wfn", "TOTAL ENERGY"): "_load_helper_energy",
}
FIXED_PREFIXES = {"pdb": None, "wfn": None}  # None: every record of the format is cut into fixed columns by the reader


def rec(led, name, ok, detail="", witness=None, backend="eval", kind="post"):
    led.record(name, kind, "discharged" if ok else "refuted", backend, 0.0, detail=detail, witness=witness)


def prove(led, name, hyps, goal, detail=""):
    """z3 (cvc5 for unknowns); a refutation carries the model, `unknown` stays undecided."""
    st, backend, secs, model = check_valid(hyps, goal)
    wit = None
    if model is not None:
        wit = {str(d): str(model[d]) for d in model.decls() if d.arity() == 0}
    led.record(name, "post", st, backend, secs, detail=detail, witness=wit)


# ----------------------------------------------------------------------------------------------------------------
def tables(led):
    per = source.import_repo("iodata.periodic")
    bad = [z for z, s in per.num2sym.items() if per.sym2num.get(s) != z]
    rec(led, "tables@iodata.periodic::sym2num[num2sym[z]]==z-for-every-element", not bad and len(per.num2sym) >= 118, f"{len(per.num2sym)} elements", witness={"failing z": bad[:5]})
    bad = [s for s, z in per.sym2num.items() if per.num2sym.get(z) != s]
    rec(led, "tables@iodata.periodic::num2sym[sym2num[s]]==s-for-every-symbol", not bad, witness={"failing symbols": bad[:5]})
    bad = [b for b, n in per.bond2num.items() if per.num2bond.get(n) != b] + [n for n, b in per.num2bond.items() if per.bond2num.get(b) != n]
    rec(led, "tables@iodata.periodic::bond2num-and-num2bond-are-inverse", not bad and len(per.bond2num) >= 4, f"{len(per.bond2num)} bond types", witness={"failing": bad[:5]})

    # FCHK run types: the writer's expression composed with the reader's dictionary
    rd = source.find_def("iodata.formats.fchk", "load_one")
    reader_map = None
    for n in ast.walk(rd):
        if isinstance(n, ast.Assign) and isinstance(n.targets[0], ast.Name) and n.targets[0].id == "run_types" and isinstance(n.value, ast.Dict):
            reader_map = ast.literal_eval(n.value)
    wr = source.find_def("iodata.formats.fchk", "dump_one")
    _, text = source.module_ast("iodata.formats.fchk")
    # statements of dump_one up to the print of the second header line, executed on a stub object
    stmts = []
    for st in wr.body:
        stmts.append(st)
        if isinstance(st, ast.Expr) and isinstance(st.value, ast.Call) and getattr(st.value.func, "id", "") == "print" and "items[0]" in (ast.get_source_segment(text, st) or ""):
            break
    results = {}
    if reader_map is not None:
        import io
        import types

        for rt in sorted(set(reader_map.values())):
            buf = io.StringIO()
            data = types.SimpleNamespace(title="t", run_type=rt, lot="hf", obasis_name="sto-3g")
            env = {"data": data, "f": buf}
            try:
                exec(compile(ast.Module(body=stmts[1:], type_ignores=[]), "<fchk.dump_one header>", "exec"), env)  # noqa: S102
                lines = buf.getvalue().splitlines()
                command = lines[-1][:10].strip() if lines else None  # the reader takes the first word of line 2
                command = lines[-1].split()[0] if lines else None
                results[rt] = reader_map.get(command)
            except Exception as exc:  # noqa: BLE001
                results[rt] = f"error: {exc!r}"
    ok = reader_map is not None and all(results.get(rt) == rt for rt in set(reader_map.values())) and set(reader_map.values()) >= {"energy", "opt", "scan", "freq"}
    rec(led, "tables@iodata.formats.fchk::run-type-written-by-dump_one-is-mapped-back-by-load_one", ok, f"reader map {reader_map}; run_type -> reloaded run_type: {results}", witness={"run types": results})

    # FCHK quadrupole permutation: index lists taken from the subscripts next to 'Quadrupole Moment'
    def perm_in(fn_node, marker):
        for n in ast.walk(fn_node):
            if isinstance(n, ast.Subscript) and isinstance(n.slice, ast.List) and len(n.slice.elts) == 6 and marker in (ast.get_source_segment(text, n) or ""):
                return [e.value for e in n.slice.elts]
        return None

    wperm = perm_in(wr, 'data.moments[(2, "c")]')
    rperm = perm_in(rd, 'fchk["Quadrupole Moment"]')
    iod = ["xx", "xy", "xz", "yy", "yz", "zz"]  # IOData: alphabetical
    fch = ["xx", "yy", "zz", "xy", "xz", "yz"]  # Gaussian FCHK order
    ok_w = wperm is not None and [iod[k] for k in wperm] == fch
    ok_r = rperm is not None and [fch[k] for k in rperm] == iod
    ok_c = wperm is not None and rperm is not None and [wperm[k] for k in rperm] == list(range(6))
    rec(led, "tables@iodata.formats.fchk::quadrupole-writer-permutation-gives-XX,YY,ZZ,XY,XZ,YZ", ok_w, f"writer {wperm}", witness={"writer": wperm})
    rec(led, "tables@iodata.formats.fchk::quadrupole-reader-permutation-gives-xx,xy,xz,yy,yz,zz", ok_r, f"reader {rperm}", witness={"reader": rperm})
    rec(led, "tables@iodata.formats.fchk::quadrupole-reader-after-writer-is-the-identity", ok_c, f"writer {wperm} reader {rperm}", witness={"writer": wperm, "reader": rperm})


# ----------------------------------------------------------------------------------------------------------------
def packing(led):
    # (a) lemma: contract of _triangle_to_dense (C03) + order of tril_indices => dense == A for symmetric A
    n, i, j = z3.Ints("n i j")
    A = z3.Function("A", z3.IntSort(), z3.IntSort(), z3.RealSort())
    packed = z3.Function("packed", z3.IntSort(), z3.RealSort())
    dense = z3.Function("dense", z3.IntSort(), z3.IntSort(), z3.RealSort())
    hi, lo = z3.If(i >= j, i, j), z3.If(i >= j, j, i)
    k = lambda a, b: (a * (a + 1)) / 2 + b  # noqa: E731
    hyps = [
        n >= 0, 0 <= i, i < n, 0 <= j, j < n,
        A(i, j) == A(j, i),  # symmetric (instance)
        packed(k(hi, lo)) == A(hi, lo),  # row-major lower triangle: element number i(i+1)/2+j is A[i,j], j<=i (instance)
        dense(i, j) == packed(k(hi, lo)),  # post.dense[i,j]-is-packed[max(max+1)/2+min] of _triangle_to_dense (C03)
    ]
    prove(led, "packing@lemma::unpack(pack(A))==A-for-every-n-and-symmetric-A", hyps, dense(i, j) == A(i, j), "z3 over the C03 contract of _triangle_to_dense and the order of np.tril_indices")
    # injectivity of the packing index on the lower triangle (no two matrix elements share a slot)
    i2, j2 = z3.Ints("i2 j2")
    prove(led, "packing@lemma::packing-index-i(i+1)/2+j-is-injective-on-the-lower-triangle", [0 <= j, j <= i, 0 <= j2, j2 <= i2, k(i, j) == k(i2, j2)], z3.And(i == i2, j == j2))
    # (b) numpy axiom, checked for n <= 40
    import numpy as np

    bad = []
    for m in range(0, 41):
        r, c = np.tril_indices(m)
        want = [(a, b) for a in range(m) for b in range(a + 1)]
        if list(zip(r.tolist(), c.tolist())) != want:
            bad.append(m)
    rec(led, "packing@numpy::tril_indices(n)-lists-the-lower-triangle-row-by-row-(n<=40)", not bad, kind="ground", witness={"failing n": bad[:3]})
    # (c) the writer sites use this packing on the whole matrix
    wr = source.find_def("iodata.formats.fchk", "dump_one")
    _, text = source.module_ast("iodata.formats.fchk")
    sites = []
    for nnode in ast.walk(wr):
        if isinstance(nnode, ast.Subscript) and isinstance(nnode.slice, ast.Call) and "tril_indices" in (ast.get_source_segment(text, nnode.slice.func) or ""):
            base = ast.get_source_segment(text, nnode.value)
            arg = ast.get_source_segment(text, nnode.slice.args[0]) if nnode.slice.args else ""
            sites.append((base, arg, len(nnode.slice.args) + len(nnode.slice.keywords)))
    ok = len(sites) >= 3 and all(arg == f"{base}.shape[0]" and nargs == 1 for base, arg, nargs in sites)
    rec(led, "packing@iodata.formats.fchk.dump_one::density-matrices,hessian-and-polarizability-are-packed-as-X[np.tril_indices(X.shape[0])]", ok, f"sites: {sites}", witness={"sites": sites}, backend="ast")
    # the reader feeds exactly these sections to _triangle_to_dense
    rd_mod, _ = source.module_ast("iodata.formats.fchk")
    calls = [ast.get_source_segment(text, c.args[0]) for c in ast.walk(rd_mod) if isinstance(c, ast.Call) and getattr(c.func, "id", "") == "_triangle_to_dense" and c.args]
    rec(led, "packing@iodata.formats.fchk::reader-unpacks-hessian,polarizability-and-densities-with-_triangle_to_dense", len(calls) >= 3, f"calls on: {calls}", witness={"calls": calls}, backend="ast")


# ----------------------------------------------------------------------------------------------------------------
def _z3expr(node, env):
    if isinstance(node, ast.Constant):
        return z3.IntVal(node.value) if isinstance(node.value, int) else z3.RealVal(node.value)
    if isinstance(node, ast.Name):
        return env[node.id]
    if isinstance(node, ast.BinOp):
        a, b = _z3expr(node.left, env), _z3expr(node.right, env)
        if isinstance(node.op, ast.Add):
            return a + b
        if isinstance(node.op, ast.Sub):
            return a - b
        if isinstance(node.op, ast.Mult):
            return a * b
        if isinstance(node.op, ast.Div):
            return z3.ToReal(a) / z3.ToReal(b) if a.sort() == z3.IntSort() else a / b
    if isinstance(node, ast.Compare) and len(node.ops) == 1:
        a, b = _z3expr(node.left, env), _z3expr(node.comparators[0], env)
        if a.sort() != b.sort():
            a = z3.ToReal(a) if a.sort() == z3.IntSort() else a
            b = z3.ToReal(b) if b.sort() == z3.IntSort() else b
        return {ast.GtE: a >= b, ast.Gt: a > b, ast.LtE: a <= b, ast.Lt: a < b, ast.Eq: a == b, ast.NotEq: a != b}[type(node.ops[0])]
    raise ValueError("unsupported expression: " + ast.dump(node))


def fcidump(led):
    _, utext = source.module_ast("iodata.utils")
    sfe = source.find_def("iodata.utils", "set_four_index_element")
    params = [a.arg for a in sfe.args.args]  # four_index_object, i0, i1, i2, i3, value
    # the index orders the function assigns, observed by running the real function on a recording object with the four
    # distinct indices 0, 1, 2, 3 (independent of how the assignments are spelled in the source)
    class _Rec:
        def __init__(self):
            self.keys = []

        def __setitem__(self, key, val):
            self.keys.append(tuple(int(k) for k in key))

    recd = _Rec()
    source.import_repo("iodata.utils").set_four_index_element(recd, 0, 1, 2, 3, 1.0)
    perms = list(dict.fromkeys(recd.keys))
    ok_group = len(set(perms)) == 8 and tuple(range(4)) in perms and all(tuple(p[q[k]] for k in range(4)) in perms for p in perms for q in perms)
    rec(led, "fcidump@iodata.utils.set_four_index_element::the-eight-assigned-index-orders-form-a-group", ok_group, f"{perms}", witness={"permutations": perms}, kind="ground")

    wr = source.find_def("iodata.formats.fcidump", "dump_one")
    _, text = source.module_ast("iodata.formats.fcidump")
    # the four-deep loop nest: four `for <name> in range(<expr>)` loops around one `if`; plain assignments of local names
    # between the loop headers (hoisted sub-expressions) are substituted into what follows
    nest = None
    for st in wr.body:
        if isinstance(st, ast.For):
            chain, lets, cur = [], [], st
            while isinstance(cur, ast.For):
                chain.append(cur)
                inner = [x for x in cur.body if not (isinstance(x, ast.Assign) and len(x.targets) == 1 and isinstance(x.targets[0], ast.Name))]
                lets.append([x for x in cur.body if x not in inner])
                cur = inner[0] if len(inner) == 1 else None
            if len(chain) == 4:
                nest = (chain, lets, cur)
                break
    if nest is None or not isinstance(nest[2], ast.If):
        # the analysis does not recognise the writer any more: undecided (re-annotation needed), not a violation
        led.record("fcidump@iodata.formats.fcidump.dump_one::two-electron-loop-nest-has-the-expected-shape", "post", "unknown", "ast", 0.0, detail="expected four nested for-range loops around one if")
        return
    rec(led, "fcidump@iodata.formats.fcidump.dump_one::two-electron-loop-nest-has-the-expected-shape", True, "four nested for-range loops around one if", backend="ast")
    chain, lets, cond_if = nest
    nact = z3.Int("nactive")
    env = {"nactive": nact}
    vars_, ranges = [], []
    for loop, let in zip(chain, lets):
        v = z3.Int(loop.target.id)
        up = _z3expr(loop.iter.args[0], env)
        env[loop.target.id] = v
        vars_.append(v)
        ranges.append(z3.And(v >= 0, v < up))
        for a_ in let:
            env[a_.targets[0].id] = _z3expr(a_.value, env)
    cond = _z3expr(cond_if.test, env)
    # value = two_mo[IDX]; print(f"{value} {w1} {w2} {w3} {w4}")
    idx, words = None, None
    for nnode in ast.walk(cond_if):
        if isinstance(nnode, ast.Assign) and isinstance(nnode.value, ast.Subscript) and getattr(nnode.value.value, "id", "") == "two_mo":
            idx = [e for e in nnode.value.slice.elts]
        if isinstance(nnode, ast.JoinedStr):
            fv = [v.value for v in nnode.values if isinstance(v, ast.FormattedValue)]
            if len(fv) == 5:
                words = fv[1:]
    rd = source.find_def("iodata.formats.fcidump", "load_one")
    # reader: ii = int(words[1]) - 1 ...; set_four_index_element(two_mo, A, B, C, D, value)
    rnames, rcall = {}, None
    for nnode in ast.walk(rd):
        if isinstance(nnode, ast.Assign) and isinstance(nnode.targets[0], ast.Name) and isinstance(nnode.value, ast.BinOp) and isinstance(nnode.value.left, ast.Call) and getattr(nnode.value.left.func, "id", "") == "int":
            sub = nnode.value.left.args[0]
            if isinstance(sub, ast.Subscript) and getattr(sub.value, "id", "") == "words" and isinstance(nnode.value.op, ast.Sub):
                rnames.setdefault(nnode.targets[0].id, []).append((sub.slice.value, nnode.value.right.value))
        if isinstance(nnode, ast.Call) and getattr(nnode.func, "id", "") == "set_four_index_element":
            rcall = [a.id for a in nnode.args[1:5]]
    shape_ok = idx is not None and words is not None and rcall is not None and all(nm in rnames for nm in rcall)
    led.record("fcidump@iodata.formats.fcidump::writer-and-reader-have-the-expected-shape", "post", "discharged" if shape_ok else "unknown", "ast", 0.0, detail=f"idx={idx and [ast.unparse(e) for e in idx]} words={words and [ast.unparse(e) for e in words]} reader call={rcall}")
    if not shape_ok:
        return
    wz = [_z3expr(w, env) for w in words]  # written words 1..4 (1-based orbital numbers)
    # reader argument k of set_four_index_element = word[pos] - off  (two-electron branch: first binding of the name)
    rargs = [wz[rnames[nm][0][0] - 1] - rnames[nm][0][1] for nm in rcall]
    idxz = [_z3expr(e, env) for e in idx]
    # consistency: the stored value's own index is in the orbit the reader writes (so symmetric data is reproduced)
    cons = z3.Or(*[z3.And(*[idxz[k] == rargs[p[k]] for k in range(4)]) for p in perms])
    prove(led, "fcidump@roundtrip::value-printed-for-a-record-belongs-to-the-orbit-the-reader-assigns", [nact >= 0, *ranges, cond], cons)
    # coverage: for all (a,b,c,d) some loop point's orbit contains it.  Witness: sort the chemists' pairs.
    a, b, c, d = z3.Ints("a b c d")
    tgt = [a, b, c, d]
    dom = [z3.And(x >= 0, x < nact) for x in tgt]
    cands = []
    for p in perms:
        # loop point whose reader arguments r satisfy tgt[k] == r[p[k]]:  r[p[k]] = tgt[k]
        r = [None] * 4
        for kk in range(4):
            r[p[kk]] = tgt[kk]
        # rargs = F(loop vars): solve loop vars from words: rargs[m] = (loopexpr + 1) - 1; substitute by equating
        point_constraints = [rargs[m] == r[m] for m in range(4)]
        cands.append(point_constraints)
    # there exist loop variables in range, satisfying cond, with reader args equal to one of the 8 rearrangements
    exists = z3.Exists(vars_, z3.And(*ranges, cond, z3.Or(*[z3.And(*pc) for pc in cands])))
    s = z3.Solver()
    s.set("timeout", 60000)
    s.add(nact >= 0, *dom, z3.Not(exists))
    r_ = s.check()
    model = None
    if r_ == z3.sat:
        m = s.model()
        model = {str(v): m.eval(v, model_completion=True).as_long() for v in [nact, a, b, c, d]}
    led.record("fcidump@roundtrip::every-element-of-a-symmetric-two-electron-array-is-covered-by-a-written-record", "post", ("discharged" if r_ == z3.unsat else "refuted" if r_ == z3.sat else "unknown"), "z3", 0.0, detail="for all norb and all (a,b,c,d): a loop point passes the condition and the reader's eight assignments include (a,b,c,d)", witness=model)
    # one-electron part
    one = None
    for st_ in wr.body:
        if isinstance(st_, ast.For) and st_ is not chain[0]:
            one = st_
    ok1 = False
    if one is not None and isinstance(one.body[0], ast.For):
        src1 = ast.get_source_segment(text, one) or ""
        ok1 = "range(nactive)" in src1 and "range(i0 + 1)" in src1 and "one_mo[i0, i1]" in src1 and "{i0 + 1:4d} {i1 + 1:4d} {0:4d} {0:4d}" in src1
    rsrc = ast.get_source_segment(text, rd) or ""
    ok1 = ok1 and "one_mo[ii, ij] = value" in rsrc and "one_mo[ij, ii] = value" in rsrc
    rec(led, "fcidump@roundtrip::lower-triangle-of-the-one-electron-matrix-is-written-and-mirrored-on-reading", ok1, backend="ast")


# ----------------------------------------------------------------------------------------------------------------
def _flat_fields(parts):
    """Linearise a record: [('lit', text) | ('field', Field, sep_before_repeat|None)]."""
    out = []
    for p in parts:
        if p[0] == "rep":
            inner = _flat_fields(p[2])
            out += inner
            out.append(("repeat", p[1], inner))
        else:
            out.append(p)
    return out


def separators(led):
    n = 0
    for fmt in rt_common.RW_FORMATS:
        fixed_prefixes = FIXED_PREFIXES.get(fmt, ())
        if fmt in FIXED_PREFIXES and fixed_prefixes is None:
            continue
        for r in fmtspec.records("iodata.formats." + fmt):
            if r.func == "<module lambda>":
                continue
            text = r.text()
            if any(text.startswith(px) for px in (fixed_prefixes or ())):
                continue
            seq = _flat_fields(r.parts)
            prev_field, gap = None, ""
            pairs = []
            for p in seq:
                if p[0] == "lit":
                    gap += p[1]
                elif p[0] == "field":
                    if prev_field is not None:
                        pairs.append((prev_field, p[1], gap))
                    prev_field, gap = p[1], ""
                elif p[0] == "repeat":
                    inner_fields = [q[1] for q in p[2] if q[0] == "field"]
                    if inner_fields:
                        lead = "".join(q[1] for q in itertools.takewhile(lambda q: q[0] == "lit", p[2]))
                        trail = "".join(q[1] for q in itertools.takewhile(lambda q: q[0] == "lit", reversed(p[2])))
                        pairs.append((inner_fields[-1], inner_fields[0], trail + (p[1] or "") + lead))
                elif p[0] == "opaque":
                    prev_field, gap = None, ""
            # a record printed with end="" inside a loop follows itself
            fields_only = [p[1] for p in seq if p[0] == "field"]
            if r.end == "" and r.in_loop and fields_only and not text.endswith("\n"):
                lead = "".join(q[1] for q in itertools.takewhile(lambda q: q[0] == "lit", seq))
                trail = "".join(q[1] for q in itertools.takewhile(lambda q: q[0] == "lit", reversed(seq)))
                pairs.append((fields_only[-1], fields_only[0], trail + lead))
            for left, right, gap in pairs:
                n += 1
                if left.kind == "str" or right.kind == "str" or (left.kind == "default" and right.kind == "default"):
                    # labels / names: not numbers that a split has to separate from numbers? they are: keep the rule
                    pass
                ok = any(ch.isspace() for ch in gap) or (gap != "" and not gap[-1].isalnum() and not gap[0].isalnum() and gap.strip() != "") or fmtspec.leading_blank_guaranteed(right)
                name = f"separated@{fmt}:{{{fmtspec.identity(left)}:{left.spec}}}{{{fmtspec.identity(right)}:{right.spec}}}"
                rec(led, name, ok, f"text between the two fields: {gap!r}; the reader of {fmt} splits this record on white space", witness={"record": text, "line": r.line, "failing value": "any value that fills the right-hand field's width"}, backend="ast")
    return n


def columns(led):
    n = 0
    for (fmt, marker), reader in FIXED.items():
        recs = [r for r in fmtspec.records("iodata.formats." + fmt) if marker in r.text()]
        rnode = source.find_def("iodata.formats." + fmt, reader)
        slices, unresolved = source.constant_slices("iodata.formats." + fmt, rnode, "line")
        slices = sorted(slices)
        if not recs or not slices:
            # the analysis does not find the record / the column ranges any more: undecided, not a violation
            led.record(f"columns@{fmt}.{reader}::writer-record-and-reader-slices-found", "post", "unknown", "ast", 0.0, detail=f"records with {marker!r}: {len(recs)}, constant slices: {slices}, unresolved subscripts: {unresolved}")
            continue
        for r in recs:
            pos, spans, known = 0, [], True
            for p in r.parts:
                if p[0] == "lit":
                    pos += len(p[1])
                elif p[0] == "field":
                    w = (p[1].parsed() or {}).get("width")
                    if w is None:
                        known = False
                        break
                    spans.append((pos, pos + int(w), p[1]))
                    pos += int(w)
                else:
                    known = False
                    break
            if not known:
                rec(led, f"columns@{fmt}.{r.func}:{marker.strip()}::every-field-has-a-fixed-width", False, r.text(), backend="ast")
                continue
            for lo, hi in sorted(set(slices)):
                inside = [(s, e, f) for s, e, f in spans if s >= lo and e <= hi]
                def padded_outside(s_, e_, f_):
                    # the slice keeps the end of a right-aligned field (or the start of a left-aligned one): what it
                    # drops is padding as long as the value fits the slice
                    al = (f_.parsed() or {}).get("align")
                    right = al == ">" or (al is None and f_.kind != "str")
                    return (right and e_ == hi and s_ < lo) or (not right and s_ == lo and e_ > hi)

                partial = [(s, e, f) for s, e, f in spans if not (e <= lo or s >= hi) and not (s >= lo and e <= hi) and not padded_outside(s, e, f)]
                inside += [(s, e, f) for s, e, f in spans if padded_outside(s, e, f)]
                n += 1
                # a slice may also cover only literal text (e.g. the symbol column of WFN atoms holds two fields: label + number)
                ok = not partial and len(inside) >= 1 and (len(inside) == 1 or all(f.kind != "float" for _s, _e, f in inside))
                rec(led, f"columns@{fmt}.{reader}:line[{lo}:{hi}]::holds-whole-writer-fields-only", ok, f"writer fields (start, end, expr): {[(s, e, f.expr) for s, e, f in spans]}", witness={"slice": [lo, hi], "cut fields": [(s, e, f.expr) for s, e, f in partial], "record": r.text()}, backend="ast")
    return n


# ----------------------------------------------------------------------------------------------------------------
REPLAY_FCIDUMP = """\
# fcidump@roundtrip: an 8-fold symmetric two-electron array (norb from the solver's model, else 1..4) must survive dump/load
import sys, os, tempfile, numpy as np
from iodata import IOData, dump_one, load_one
from iodata.utils import set_four_index_element
rng = np.random.default_rng(0)
for n in {norbs}:
    two = np.zeros((n, n, n, n))
    for idx in np.ndindex(n, n, n, n):
        if two[idx] == 0:
            set_four_index_element(two, *idx, float(rng.normal()))
    a = rng.normal(size=(n, n)); one = a + a.T
    _d = tempfile.mkdtemp()
    __import__("atexit").register(__import__("shutil").rmtree, _d, True)
    fn = os.path.join(_d, "x.fcidump")
    dump_one(IOData(one_ints={{"core_mo": one}}, two_ints={{"two_mo": two}}, core_energy=0.5, nelec=2, spinpol=0), fn)
    back = load_one(fn)
    bad = np.argwhere(~np.isclose(back.two_ints["two_mo"], two))
    if len(bad) or not np.allclose(back.one_ints["core_mo"], one):
        print("norb", n, "first differing element", bad[:1].tolist(), "written", two[tuple(bad[0])] if len(bad) else None, "reloaded", back.two_ints["two_mo"][tuple(bad[0])] if len(bad) else None)
        print("REPRODUCED"); sys.exit(1)
print("not reproduced")
"""


def run(chk):
    chk.functions += [
        "iodata.periodic tables num2sym/sym2num/num2bond/bond2num",
        "iodata.formats.fchk.dump_one / load_one: run-type header, quadrupole permutation, triangular packing sites (with _triangle_to_dense's contract from C03)",
        "iodata.formats.fcidump.dump_one / load_one + iodata.utils.set_four_index_element: index coverage for every norb",
        "every record printed by the 12 text writers: separation, column agreement (PDB ATOM, WFN), unit factors",
    ]
    chk.trusted += [
        "z3 (nonlinear integer arithmetic)",
        "np.tril_indices row-major order beyond n = 40; numpy fancy indexing A[rows, cols]",
        "contract of _triangle_to_dense as proved in C03 (re-proved there on every run)",
        "AST pattern extraction of the FCIDUMP loop nest / reader assignments (the check fails closed when the shape is not recognised)",
        "which readers split on white space and which cut fixed columns (table FIXED_PREFIXES in checks/c02.py, read off the reader code)",
    ]
    chk.assumptions += ["integers stay below 2**53 (true division in the FCIDUMP triangle condition is exact)", "two-digit exponents; integer fields of width >= 12 hold |n| < 1e10"]
    chk.not_covered += [
        "value-level correctness of readers' parsing beyond separation/columns (C03 covers record layouts)",
        "json_qcschema key mapping, Molden/Molekel/WFN/WFX basis and orbital re-encoding: bounded round trips only (C01 covers wavefunction content)",
    ]
    led = Ledger()
    tables(led)
    packing(led)
    fcidump(led)
    nsep = separators(led)
    ncol = columns(led)
    if nsep == 0 or ncol == 0:
        chk.fault(f"record analysis produced no obligations (separated: {nsep}, columns: {ncol})")
    chk.merge(led)
    for o in chk.ledger.obligations.values():
        if o.status == "refuted" and o.name.startswith("fcidump@roundtrip"):
            n = (o.witness or {}).get("nactive") if isinstance(o.witness, dict) else None
            chk.set_replay(o.name, REPLAY_FCIDUMP.format(norbs=[int(n)] + [1, 2, 3, 4] if n is not None and 0 < int(n) <= 8 else [1, 2, 3, 4]), witness=o.witness)
    # unit factors / grouping (shared with C15); stability itself belongs to C15
    shared = static_obligations(chk)
    keep = Ledger()
    for o in shared.obligations.values():
        if o.name.startswith(("inverse-unit@", "factor-is-a-unit-constant@", "no-grouping@")):
            keep.obligations[o.name] = o
    chk.merge(keep)
    rt_common.run_probe(chk, "c02")
    chk.samples = [o.as_dict() for o in list(chk.ledger.obligations.values())[:6]]
    chk.notes["explanation"] = "C02: inverse tables and permutations (ground), triangular packing and FCIDUMP index coverage for all sizes (z3), writer records vs reader tokenisation (static contracts), and dump/load comparison over generated objects and the converted corpus (bounded)"
