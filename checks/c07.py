"""C07 -- loading any file content ends in a valid object or a LoadError, nothing else.

The quantifier is "every truncation point and every mutation of every file".  The contracts below do not enumerate
files: the format-level readers are havoc'ed (they return anything or raise any subclass of Exception, for every
possible file content), and the statement is proved as an exception-flow / resource / termination property of the
real api.load_one, api.load_many, LineIterator and the error classes.
"""

from __future__ import annotations

import ast
import inspect
import json
import os
import subprocess

import z3

from pyvc import source, termination
from pyvc.apimodel import FileObj, abstract_iterator, api_config, may_raise, true_loop
from pyvc.core import Ledger
from pyvc.harness import verify
from pyvc.interp import FStr, PyRaise
from pyvc.pool import collect, run_jobs
from pyvc.report import VENV_PY
from pyvc.values import Obj, Opaque, SInt, SList, SSeq, SU, SymExc, U, to_z3

from checks.c08 import api_mod, exc_is, first_index, undecorated, utils_mod

LEVEL = "other"
API = "iodata.api"
UT = "iodata.utils"
INNER = f"{API}._reissue_warnings.<locals>.inner"


def opaque_module(ctx, attr):
    m = Opaque("format_module")
    m.attrs[attr] = Opaque(f"format_module.{attr}")
    return m


def base_config(attr):
    cfg = api_config()
    cfg.loop_specs[(INNER, 0)] = true_loop("warning_list", "loop.reissue")
    cfg.anchor_specs.append(("iodata.api", "warning_list", true_loop("warning_list", "loop.reissue")))
    U_ = utils_mod()

    def select(interp, args, kwargs):
        if interp.ctx.branch(z3.Bool("select.fails")):
            raise PyRaise(interp.call(U_.FileFormatError, ["no format", args[0]]))
        interp.ctx.event("select")
        return opaque_module(interp.ctx, attr)

    cfg.contracts[f"{API}._select_format_module"] = select
    return cfg


def closed_ok(ctx):
    opened = [e for e in ctx.trace if e[0] == "opened"]
    closed = [e for e in ctx.trace if e[0] == "close"]
    return len(opened) == len(closed) and all(o[1] == c[1] for o, c in zip(opened, closed)) and len(opened) <= 1


def message_ok(ctx, interp, exc, filename):
    """A LoadError built by the API names the file and the line number of the iterator."""
    if not isinstance(exc, Obj):
        return None
    lits = [v for v in ctx.ghost.get("lits", [])]
    msg = interp.call(interp.load_attr(exc, "__str__"), [])
    ok_file = isinstance(msg, FStr) and any(p is filename for p in msg.parts)
    lineno = exc.fields.get("lineno")
    return ok_file, lineno, msg


def job_load_one():
    target = f"{API}.load_one"
    cfg = base_config("load_one")
    U_ = utils_mod()

    def setup(ctx, interp):
        fn = api_mod().load_one
        filename = SU(z3.Const("filename", U), str)
        return fn, [filename], {}, dict(filename=filename)

    def post(out, env):
        ctx, interp = out.ctx, out.interp
        names = [e[0] for e in ctx.trace]
        ctx.prove(f"{target}::post.file-closed-when-the-call-returns-or-raises", closed_ok(ctx))
        if out.kind == "raise":
            e = out.value
            is_ff, is_load = exc_is(ctx, e, U_.FileFormatError), exc_is(ctx, e, U_.LoadError)
            os_err = "open-failed" in names
            if "select" not in names:
                ctx.prove(f"{target}::raises.no-format-is-FileFormatError-before-the-file-is-opened", z3.And(is_ff, z3.BoolVal("open" not in names)), kind="raises")
            elif not os_err:
                ctx.prove(f"{target}::raises.only-LoadError-escapes-once-the-file-is-open", is_load, kind="raises")
                if isinstance(e, Obj):
                    ok_file, lineno, msg = message_ok(ctx, interp, e, env["filename"])
                    ctx.prove(f"{target}::raises.message-names-the-file", ok_file, kind="raises")
                    lit = e.fields.get("_lit_probe")
                    ctx.prove(f"{target}::raises.message-carries-a-line-number", lineno is not None and isinstance(msg, FStr) and any(p is lineno or (isinstance(p, tuple) and lineno in p) for p in msg.parts), kind="raises")
            return
        ctx.prove(f"{target}::post.returns-an-IOData-built-from-the-reader's-result", isinstance(out.value, Opaque) and "IOData(**kwargs)" in out.value.tag)

    return verify(target, setup, post, config=cfg, max_paths=500)


def job_load_many():
    target = f"{API}.load_many"
    cfg = base_config("load_many")
    U_ = utils_mod()
    key = f"{API}.load_many"
    cfg.inline_generators.add(key)
    cfg.loop_specs[(key, 0)] = true_loop("format_module.load_many(lit", "loop.frames")
    cfg.anchor_specs.append(("iodata.api", "format_module.load_many(lit", true_loop("format_module.load_many(lit", "loop.frames")))

    def havoc(interp, fn, args, kwargs):
        tag = getattr(fn, "tag", "")
        from pyvc.apimodel import havoc_line_iterators

        havoc_line_iterators(interp, args)
        if tag.endswith(".load_many"):
            interp.ctx.event("call", tag)
            may_raise(interp, tag)
            lits = [a for a in args if isinstance(a, Obj)]

            def item(interp_, k):
                havoc_line_iterators(interp_, lits)  # producing a frame reads lines
                return Opaque(interp_.ctx.fresh("frame-dict"))

            return abstract_iterator("frames", item_factory=item, may_fail=True)
        interp.ctx.event("call", tag)
        if tag == "IOData(**kwargs)":
            # contract of the IOData constructor (C11: raises.only-TypeError; a bad mapping is a TypeError as well)
            if interp.ctx.branch(z3.Bool(interp.ctx.fresh("IOData.rejects"))):
                raise PyRaise(TypeError("IOData constructor rejected the arguments"))
            return Opaque(interp.ctx.fresh(f"result.{tag}"))
        may_raise(interp, tag)
        return Opaque(interp.ctx.fresh(f"result.{tag}"))

    cfg.havoc_call = havoc

    def on_yield(interp, v):
        interp.ctx.event("yield", v)
        # the consumer may discard / close the iterator here: GeneratorExit is raised at the yield
        if interp.ctx.branch(z3.Bool(interp.ctx.fresh("consumer.closes"))):
            interp.ctx.event("generator-closed")
            raise PyRaise(GeneratorExit())
        return None

    cfg.on_yield = on_yield

    def setup(ctx, interp):
        fn = undecorated("load_many")
        filename = SU(z3.Const("filename", U), str)
        return fn, [filename], {}, dict(filename=filename)

    def post(out, env):
        ctx, interp = out.ctx, out.interp
        names = [e[0] for e in ctx.trace]
        ctx.prove(f"{target}::post.file-closed-when-exhausted-failed-or-closed", closed_ok(ctx))
        if out.kind == "raise":
            e = out.value
            if isinstance(e, GeneratorExit):
                ctx.prove(f"{target}::raises.GeneratorExit-passes-through-(close()-works)", "generator-closed" in names, kind="raises")
                return
            is_ff, is_load = exc_is(ctx, e, U_.FileFormatError), exc_is(ctx, e, U_.LoadError)
            os_err = "open-failed" in names
            if "select" not in names:
                ctx.prove(f"{target}::raises.no-format-is-FileFormatError-before-the-file-is-opened", z3.And(is_ff, z3.BoolVal("open" not in names)), kind="raises")
            elif not os_err:
                ctx.prove(f"{target}::raises.only-LoadError-escapes-once-the-file-is-open", is_load, kind="raises")
                if isinstance(e, Obj):
                    ok_file, lineno, msg = message_ok(ctx, interp, e, env["filename"])
                    ctx.prove(f"{target}::raises.message-names-the-file", ok_file, kind="raises")
            return
        # every yield is the IOData of one pulled frame, in order (generic iteration)
        ev = [e for e in ctx.trace if e[0] in ("pull", "yield")]
        ok = all(ev[i][0] == "pull" and i + 1 < len(ev) and ev[i + 1][0] == "yield" for i in range(0, len(ev), 2))
        ctx.prove(f"{target}::post.one-object-per-frame-in-order", ok)

    led = verify(target, setup, post, config=cfg, max_paths=800)
    # ground: the seven format-level load_many are generator functions (a leaked StopIteration cannot end the sequence)
    bad = [n for n, m in api_mod().FORMAT_MODULES.items() if hasattr(m, "load_many") and not inspect.isgeneratorfunction(m.load_many)]
    led.record(f"{target}::ground.format-level-load_many-are-generator-functions", "ground", "refuted" if bad else "discharged", "eval", 0.0, detail=str(bad))
    return led


def job_line_iterator():
    """LineIterator data-structure invariant with ghost state p (lines taken from the file) and d (stack depth):
    lineno == p - d.  __next__ / back preserve it, also when __next__ ends in StopIteration."""
    target = f"{UT}.LineIterator"
    led = Ledger()
    LI = utils_mod().LineIterator
    cfg = api_config()

    def make(ctx):
        lit = Obj(LI, tag="lit")
        fh = FileObj(ctx, "f", "r")
        d = z3.Int("d")
        p = z3.Int("p")
        ctx.assume(z3.And(d >= 0, p >= d))
        lit.fields.update(filename=SU(z3.Const("filename", U), str), fh=fh, lineno=SInt(p - d), stack=SList(SSeq(d, lambda i: SU(z3.Const(f"stack[{i}]", U), str), list)))
        return lit, fh, p, d

    def setup_next(ctx, interp):
        lit, fh, p, d = make(ctx)
        return None, [], {}, dict(lit=lit, fh=fh, p=p, d=d)

    def post_next(out, env):
        ctx, interp = out.ctx, out.interp
        lit, fh, p, d = env["lit"], env["fh"], env["p"], env["d"]
        try:
            interp.call(interp.load_attr(lit, "__next__"), [])
            raised = None
        except PyRaise as pr:
            raised = pr.exc
        p2 = p + fh.lines_taken
        d2 = interp.models.seq_of(lit.fields["stack"]).n
        ln = to_z3(lit.fields["lineno"])
        if raised is not None:
            ctx.prove(f"{target}.__next__::raises.only-StopIteration-at-end-of-file", isinstance(raised, StopIteration), kind="raises")
            # "the number of the last line that was read": at the end of the input no line is read, so the counter (and
            # with it the data-structure invariant lineno == p - d) is unchanged, however often next() is called there
            ctx.prove(f"{target}.__next__::raises.lineno-still-is-the-number-of-the-last-line-that-was-read-(invariant-kept-at-end-of-file)", z3.And(ln == p - d, d2 == d, d == 0), kind="raises")
            return
        ctx.prove(f"{target}.__next__::post.invariant-lineno==lines-taken-minus-pushed-back", ln == p2 - d2)
        ctx.prove(f"{target}.__next__::post.lineno-advances-by-one", ln == (p - d) + 1)
        ctx.prove(f"{target}.__next__::post.pushed-back-lines-come-first", z3.If(d > 0, z3.And(d2 == d - 1, p2 == p), z3.And(d2 == d, p2 == p + 1)))

    verify(f"{target}.__next__", setup_next, post_next, config=cfg, ledger=led, call=lambda *a: None)

    def post_back(out, env):
        ctx, interp = out.ctx, out.interp
        lit, fh, p, d = env["lit"], env["fh"], env["p"], env["d"]
        interp.call(interp.load_attr(lit, "back"), [SU(z3.Const("line", U), str)])
        d2 = interp.models.seq_of(lit.fields["stack"]).n
        ln = to_z3(lit.fields["lineno"])
        ctx.prove(f"{target}.back::post.invariant-lineno==lines-taken-minus-pushed-back", z3.And(ln == p - d2, d2 == d + 1))

    verify(f"{target}.back", setup_next, post_back, config=cfg, ledger=led, call=lambda *a: None)

    # __init__/__enter__/__exit__: lineno starts at 0 with an empty stack; the file is opened on enter, closed on exit
    def setup_ctx(ctx, interp):
        return None, [], {}, {}

    def post_ctx(out, env):
        ctx, interp = out.ctx, out.interp
        fname = SU(z3.Const("filename", U), str)
        lit = interp.call(LI, [fname])
        ctx.prove(f"{target}.__init__::init.lineno-0-empty-stack-no-file", lit.fields["lineno"] == 0 and lit.fields["stack"] == [] and lit.fields["fh"] is None and not ctx.trace)
        try:
            r = interp.call(interp.load_attr(lit, "__enter__"), [])
        except PyRaise:
            ctx.prove(f"{target}.__enter__::raises.only-the-OS-error-of-open", "open-failed" in [e[0] for e in ctx.trace], kind="raises")
            return
        ctx.prove(f"{target}.__enter__::post.opens-the-named-file-and-returns-self", r is lit and isinstance(lit.fields["fh"], FileObj) and lit.fields["fh"].name is fname)
        interp.call(interp.load_attr(lit, "__exit__"), [None, None, None])
        ctx.prove(f"{target}.__exit__::post.closes-the-file", closed_ok(ctx) and lit.fields["fh"].closed)

    verify(f"{target}.context", setup_ctx, post_ctx, config=cfg, ledger=led, call=lambda *a: None)
    return led


def job_errors():
    """BaseFileError(message, file, lineno): str(e) contains the file name and, as :<n>, the line number."""
    target = f"{UT}.BaseFileError"
    led = Ledger()
    U_ = utils_mod()
    cfg = api_config()

    def setup(ctx, interp):
        return None, [], {}, {}

    def post(out, env):
        ctx, interp = out.ctx, out.interp
        LI = U_.LineIterator
        lit = Obj(LI, tag="lit")
        fname = SU(z3.Const("filename", U), str)
        ln = SInt(z3.Int("lineno"))
        lit.fields.update(filename=fname, fh=None, lineno=ln, stack=[])
        for cls in (U_.LoadError, U_.DumpError, U_.PrepareDumpError, U_.FileFormatError, U_.WriteInputError):
            e = interp.call(cls, ["message text", lit])
            msg = interp.call(interp.load_attr(e, "__str__"), [])
            parts = msg.parts if isinstance(msg, FStr) else [msg]
            ctx.prove(f"{target}::post.message-of-an-error-built-from-a-LineIterator-names-file-and-line", any(p is fname for p in parts) and any(p is ln for p in parts) and e.fields["filename"] is fname and e.fields["lineno"] is ln)
            flat = "".join(p if isinstance(p, str) else "\x00" for p in parts)
            ctx.prove(f"{target}::post.format-is-message-(file:line)", flat == "message text (\x00:\x00)")
            e2 = interp.call(cls, ["message text", fname])
            msg2 = interp.call(interp.load_attr(e2, "__str__"), [])
            parts2 = msg2.parts if isinstance(msg2, FStr) else [msg2]
            ctx.prove(f"{target}::post.message-of-an-error-built-from-a-file-name-names-the-file", any(p is fname for p in parts2) and e2.fields["lineno"] is None)

    verify(target, setup, post, config=cfg, ledger=led, call=lambda *a: None)
    return led


# declared variants: loops whose termination argument is not found by the line-consumption analysis.  Each entry is
# anchored by (module, function, loop ordinal, text of the loop header); they are reported as *assumed*, not proved.
DECLARED = {
    ("cp2klog", "_read_cp2k_contracted_obasis", 0, "True"): "each iteration reads a shell header with next(lit) inside helper calls or breaks on a blank line",
    ("extxyz", "load_many", 0, "True"): "a returning load_one has consumed the two header lines it pushed back plus >= 0 atom lines (xyz.load_one re-reads them)",
    ("mol2", "load_many", 0, "True"): "load_one returns only after reading a @<TRIPOS>MOLECULE record; otherwise it raises LoadError / StopIteration",
    ("molden", "_load_helper_coeffs", 0, "True"): "an iteration that reads no 'key=value' line fails with KeyError on info['occup'] (surfaces as LoadError)",
    ("pdb", "load_many", 0, "True"): "pdb.load_one raises LoadError unless it read at least one ATOM/HETATM line",
    ("qchemlog", "load_qchemlog_low", 0, "True"): "the loop reads one line per iteration with next(lit); helper calls push back at most the line they stopped on",
    ("wfn", "_load_helper_section", 1, "len(line) >= step"): "line = line[step:] shortens the line by step >= 1 each iteration",
    ("wfn", "build_obasis", 0, "ibasis < nbasis"): "ibasis += ncon * ncart with ncon, ncart >= 1",
    ("wfn", "build_obasis", 1, "ibasis + ncon < len(type_assignments)"): "ncon += 1 each iteration, bounded by len(type_assignments)",
}


def _support_molden_coeffs(lp):
    """What the declared argument for molden._load_helper_coeffs rests on, checked on the AST of the loop: the dictionary
    `info` is created empty in every iteration (a direct statement of the loop body), it is only filled from lines that
    were read in this iteration, and info["occup"] is read unconditionally afterwards (KeyError when nothing was read)."""
    body = lp.body
    idx_new = next((i for i, st in enumerate(body) if isinstance(st, ast.Assign) and len(st.targets) == 1 and isinstance(st.targets[0], ast.Name) and st.targets[0].id == "info" and isinstance(st.value, ast.Dict) and not st.value.keys), None)
    idx_fill = next((i for i, st in enumerate(body) if isinstance(st, ast.For) and any(isinstance(n, ast.Subscript) and isinstance(n.ctx, ast.Store) and isinstance(n.value, ast.Name) and n.value.id == "info" for n in ast.walk(st))), None)
    idx_read = next((i for i, st in enumerate(body) if isinstance(st, ast.Assign) and any(isinstance(n, ast.Subscript) and isinstance(n.ctx, ast.Load) and isinstance(n.value, ast.Name) and n.value.id == "info" and isinstance(n.slice, ast.Constant) and n.slice.value == "occup" for n in ast.walk(st.value))), None)
    stores_elsewhere = [n for st in body if not isinstance(st, ast.For) for n in ast.walk(st) if isinstance(n, ast.Subscript) and isinstance(n.ctx, ast.Store) and isinstance(n.value, ast.Name) and n.value.id == "info"]
    ok = idx_new is not None and idx_fill is not None and idx_read is not None and idx_new < idx_fill < idx_read and not stores_elsewhere
    return ok, f"statement index of `info = {{}}`: {idx_new}, of the key=value loop: {idx_fill}, of the read of info['occup']: {idx_read} (all direct statements of the loop body, in this order)"


DECLARED_SUPPORT = {("molden", "_load_helper_coeffs", 0, "True"): _support_molden_coeffs}


def job_error_sites():
    """Every LoadError raised inside a format module is constructed with the LineIterator (or its file name) as second
    argument, so that the message names the file (and the line): api.load_one / load_many re-raise LoadError unchanged."""
    led = Ledger()
    n = 0
    for name, mod in sorted(api_mod().FORMAT_MODULES.items()):
        tree, text = source.module_ast(mod.__name__)
        for node in ast.walk(tree):
            if isinstance(node, ast.Raise) and isinstance(node.exc, ast.Call) and getattr(node.exc.func, "id", "") == "LoadError":
                n += 1
                args = node.exc.args
                second = ast.unparse(args[1]) if len(args) > 1 else None
                fn = node
                while fn is not None and not isinstance(fn, ast.FunctionDef):
                    fn = getattr(fn, "_parent", None)
                ok = second in ("lit", "lit.filename")
                if not ok:
                    led.record(f"{mod.__name__}.{fn.name if fn else '?'}::raises.LoadError-is-constructed-with-the-line-iterator-(message-names-the-file)", "raises", "refuted", "ast", 0.0, detail=f"line {node.lineno}: second argument {second!r}", witness={"line": node.lineno, "source": (ast.get_source_segment(text, node) or "")[:200]})
    led.record("iodata.formats::raises.every-LoadError-site-passes-the-line-iterator-or-its-file-name", "raises", "discharged" if n and not any(o.status == "refuted" for o in led.obligations.values()) else ("refuted" if n else "unknown"), "ast", 0.0, detail=f"{n} raise sites")
    return led


def job_termination():
    led = Ledger()
    counts = {"consumes": 0, "finite-for": 0, "counted": 0, "declared": 0}
    declared_used = []
    for name, mod in sorted(api_mod().FORMAT_MODULES.items()):
        an = termination.Analyzer(mod.__name__)
        for fname, k, lp in an.loops():
            if fname.startswith(("dump", "_dump")) or fname in ("prepare_dump",):
                continue
            status, detail = termination.check_loop(an, lp)
            header = termination.loop_header(lp)
            oname = f"{mod.__name__}.{fname}::loop{k}.decreases"
            if status in ("consumes", "finite-for", "counted"):
                counts[status] += 1
                if isinstance(lp, ast.While) or status != "finite-for":
                    led.record(oname, "decreases", "discharged", "path-analysis", 0.0, detail=f"`{header[:60]}`: {detail}")
                continue
            key = next((kk for kk in DECLARED if kk[0] == name and kk[1] == fname and kk[2] == k and (kk[3] in header or (kk[3] == "True" and header.strip() == "lit"))), None)  # `while True:` + next(lit) and `for line in lit:` are the same loop
            if key is not None:
                counts["declared"] += 1
                declared_used.append({"loop": f"{mod.__name__}.{fname} loop {k} `{header[:60]}`", "declared_argument": DECLARED[key]})
                if key in DECLARED_SUPPORT:
                    ok, why = DECLARED_SUPPORT[key](lp)
                    led.record(f"{mod.__name__}.{fname}::loop{k}.decreases.declared-argument-is-supported-by-the-code", "decreases", "discharged" if ok else "refuted", "ast", 0.0, detail=f"{DECLARED[key]}; {why}", witness={"needs": "a file damaged inside a coefficient line after at least one complete orbital header: the same line is pushed back and examined again forever"})
                continue
            led.record(oname, "decreases", "unknown", "path-analysis", 0.0, detail=f"no termination argument found for `{header[:80]}`: {detail}")
    return {"ledger": led, "loop_counts": counts, "declared": declared_used}


# ------------------------------------------------------------------------------------------------
BOUNDED = r"""
import glob, json, os, random, signal, sys, tempfile, warnings
import numpy as np
from iodata import load_one, load_many
from iodata.api import FORMAT_MODULES
from iodata.utils import LoadError, FileFormatError
warnings.simplefilter("ignore")
seed, nfiles, budget = int(sys.argv[1]), int(sys.argv[2]), float(sys.argv[3])
rng = random.Random(seed)
data_dir = os.path.join(os.path.dirname(sys.modules["iodata"].__file__), "test", "data")
files = sorted(f for f in glob.glob(os.path.join(data_dir, "*")) if os.path.isfile(f) and os.path.getsize(f) < 400000)
rng.shuffle(files)
tmp = tempfile.mkdtemp()
__import__("atexit").register(__import__("shutil").rmtree, tmp, True)
fails, cases = [], 0
class Timeout(Exception): pass
def handler(sig, frm): raise Timeout()
signal.signal(signal.SIGALRM, handler)
import time
t0 = time.time()
def attempt(kind, fn, desc):
    global cases
    cases += 1
    signal.setitimer(signal.ITIMER_REAL, 20.0)
    try:
        if kind == "one":
            load_one(fn)
        else:
            for _ in load_many(fn): pass
    except (LoadError, FileFormatError):
        pass
    except Timeout:
        fails.append((desc, "does not terminate within 20 s"))
    except BaseException as exc:
        fails.append((desc, "escaping " + type(exc).__name__))
    finally:
        signal.setitimer(signal.ITIMER_REAL, 0)
used = 0
for path in files:
    if used >= nfiles or time.time() - t0 > budget: break
    base = os.path.basename(path)
    try:
        text = open(path).read()
    except Exception:
        continue
    lines = text.splitlines(keepends=True)
    if not lines or len(lines) > 4000: continue
    used += 1
    variants = []
    cuts = sorted(set([0, 1, 2, len(lines) // 2, len(lines) - 1] + [rng.randrange(len(lines)) for _ in range(4)]))
    for c in cuts: variants.append((f"{base}: truncated after line {c}", "".join(lines[:c])))
    for _ in range(2):
        c = rng.randrange(len(text) + 1); variants.append((f"{base}: truncated at byte {c}", text[:c]))
    for _ in range(3):
        i = rng.randrange(len(lines)); l2 = list(lines); del l2[i]; variants.append((f"{base}: line {i+1} deleted", "".join(l2)))
        i = rng.randrange(len(lines)); l2 = list(lines); l2.insert(i, l2[i]); variants.append((f"{base}: line {i+1} duplicated", "".join(l2)))
        i = rng.randrange(len(lines)); j = rng.randrange(len(lines)); l2 = list(lines); l2[i], l2[j] = l2[j], l2[i]; variants.append((f"{base}: lines {i+1},{j+1} swapped", "".join(l2)))
        i = rng.randrange(len(lines)); l2 = list(lines); l2[i] = "".join(rng.choice("xyz*?#") if ch.isdigit() and rng.random() < 0.5 else ch for ch in l2[i]); variants.append((f"{base}: line {i+1} garbled", "".join(l2)))
    variants.append((f"{base}: empty", ""))
    for desc, content in variants:
        fn = os.path.join(tmp, base)
        with open(fn, "w") as fh: fh.write(content)
        attempt("one", fn, desc)
        if any(hasattr(m, "load_many") and any(__import__("fnmatch").fnmatch(base, p) for p in m.PATTERNS) for m in FORMAT_MODULES.values()):
            attempt("many", fn, desc + " (load_many)")
# shape consistency of whatever is returned: deterministic sweep (every line-boundary truncation and every single-line
# deletion) over one small corpus file per format; per-atom arrays incl. those held in dictionaries, basis vs orbitals
def inconsistent(d):
    n = d.natom
    out = []
    if n is not None:
        for name in ("atnums", "atcoords", "atcorenums", "atmasses", "atgradient", "atfrozen"):
            v = getattr(d, name)
            if v is not None and len(v) != n: out.append(name)
        for dname in ("atcharges", "atffparams"):
            for k, v in (getattr(d, dname) or {}).items():
                try:
                    if len(v) != n: out.append(dname)
                except TypeError:
                    pass
        if d.athessian is not None and d.athessian.shape != (3 * n, 3 * n): out.append("athessian")
    if d.obasis is not None:
        nb = d.obasis.nbasis
        if d.mo is not None and d.mo.coeffs is not None and d.mo.coeffs.shape[0] != (2 * nb if d.mo.kind == "generalized" else nb): out.append("mo-vs-obasis")
        for k, v in (d.one_rdms or {}).items():
            if getattr(v, "shape", None) != (nb, nb): out.append("one_rdms-vs-obasis")
        # (index ranges - bond partners, shell centres - are values, not shapes: not part of this clause)
    return sorted(set(out))
SWEEP = ["water_hf_ccpvtz_freq_qchem.out:qchemlog", "water_sto3g_hf_g03.fchk:fchk", "h_sto3g.fchk:fchk", "h2_sto3g.mkl:molekel", "h2o.molden.input:molden", "h2o_sto3g.wfn:wfn", "h2o_sto3g.wfx:wfx", "water.xyz:xyz", "water_element.xyz:extxyz", "example.sdf:sdf", "ch5plus.pdb:pdb", "caffeine.mol2:mol2", "LiCl_molecule.json:json_qcschema", "POSCAR.water:poscar", "water.gro:gromacs"]
for item in SWEEP if budget > 100 else SWEEP[:9]:
    base, fmt = item.split(":")
    path = os.path.join(data_dir, base)
    if not os.path.exists(path): continue
    lines = open(path).read().splitlines(keepends=True)
    cap = 700 if budget > 100 else 120
    lines_idx = range(0, len(lines), max(1, -(-len(lines) // cap)))
    fn = os.path.join(tmp, "sweep_" + base)
    for i in lines_idx:
        variants3 = [("truncated", lines[:i]), ("one line deleted", lines[:i] + lines[i + 1:])]
        m = __import__("re").search(r"(N=\s+)(\d+)", lines[i]) if fmt == "fchk" else None
        if m and int(m.group(2)) > 1:
            variants3.append(("array count reduced by one", lines[:i] + [lines[i][:m.start(2)] + str(int(m.group(2)) - 1).rjust(len(m.group(2))) + lines[i][m.end(2):]] + lines[i + 1:]))
        if fmt == "fchk" and i > 0 and "Shell types" in lines[i - 1]:
            variants3.append(("last shell type changed", lines[:i] + [lines[i].rstrip("\n")[:-1] + "2\n"] + lines[i + 1:]))
        for what, content in variants3:
            cases += 1
            with open(fn, "w") as fh: fh.write("".join(content))
            signal.setitimer(signal.ITIMER_REAL, 20.0)
            try:
                with warnings.catch_warnings():
                    warnings.simplefilter("ignore")
                    d = load_one(fn, fmt=fmt)
                bad = inconsistent(d)
                if bad: fails.append((f"{base}: {what} at line {i + 1}", "returned object has inconsistent shapes: " + fmt + "." + bad[0]))
            except (LoadError, FileFormatError):
                pass
            except Timeout:
                fails.append((f"{base}: {what} at line {i + 1}", "does not terminate within 20 s"))
            except BaseException as exc:
                fails.append((f"{base}: {what} at line {i + 1}", "escaping " + type(exc).__name__))
            finally:
                signal.setitimer(signal.ITIMER_REAL, 0)
# resource check: every file opened by the loading functions is closed when the call returns, the iterator is
# exhausted, closed or discarded (before or after the first frame)
import builtins, gc
real_open = builtins.open
opened = []
def tracking_open(*a, **k):
    f = real_open(*a, **k); opened.append(f); return f
builtins.open = tracking_open
try:
    xyz = os.path.join(data_dir, "water_trajectory.xyz")
    scen = {
        "load_one": lambda: load_one(os.path.join(data_dir, "water.xyz")),
        "load_many exhausted": lambda: list(load_many(xyz)),
        "load_many closed before the first frame": lambda: load_many(xyz).close(),
        "load_many discarded before the first frame": lambda: (load_many(xyz), None)[1],
        "load_many closed after one frame": lambda: (lambda it: (next(it), it.close()))(load_many(xyz)),
        "load_many discarded after one frame": lambda: (lambda it: next(it))(load_many(xyz)),
        "load_one failing": lambda: load_one(os.path.join(data_dir, "water.xyz"), fmt="fchk"),
    }
    for name, fn in scen.items():
        cases += 1
        del opened[:]
        try:
            fn()
        except LoadError:
            pass
        gc.collect()
        if any(not f.closed for f in opened): fails.append((name, "file left open"))
finally:
    builtins.open = real_open
sig = {}
for f in fails: sig.setdefault(f[1], f)
print(json.dumps(dict(cases=cases, files=used, nfails=len(fails), kinds={k: repr(v)[:400] for k, v in sig.items()}), default=str))
"""
_TAIL = "print(json.dumps(dict(cases=cases, files=used, nfails=len(fails), kinds={k: repr(v)[:400] for k, v in sig.items()}), default=str))"


def run_bounded(chk):
    nfiles, budget = (25, 60) if chk.tier == "quick" else (400, 1500)
    env = dict(os.environ, PYTHONPATH=source.REPO)
    out = subprocess.run([VENV_PY, "-c", BOUNDED, str(chk.seed), str(nfiles), str(budget)], capture_output=True, text=True, env=env, cwd="/", timeout=4000)
    if out.returncode != 0:
        chk.fault(f"bounded driver crashed: {out.stderr[-1500:]}")
        return
    res = json.loads(out.stdout.strip().splitlines()[-1])
    bound = f"{res['files']} corpus files x (truncation at 5..9 line boundaries and 2 byte offsets, 12 single-line delete/duplicate/swap/garble mutations, empty file), load_one and load_many, 20 s limit per call"
    for kind, example in sorted(res["kinds"].items()):
        script = BOUNDED.replace("seed, nfiles, budget = int(sys.argv[1]), int(sys.argv[2]), float(sys.argv[3])", f"seed, nfiles, budget = {chk.seed}, {nfiles}, {budget}").replace(_TAIL, f"print(sig.get({kind!r}))\nif {kind!r} in sig:\n    print('REPRODUCED'); sys.exit(1)")
        chk.add_bounded(f"corpus-mutations.{kind}", bound, res["cases"], [example], replay_script=script)
    if not res["kinds"]:
        chk.add_bounded("corpus-mutations", bound, res["cases"], [])


def run(chk):
    chk.functions += [f"{API}.load_one", f"{API}.load_many", f"{API}._reissue_warnings.<locals>.inner", f"{UT}.LineIterator.__init__/__enter__/__exit__/__next__/back", f"{UT}._interpret_file_lineno", f"{UT}._format_file_message", f"{UT}.BaseFileError.__init__/__str__", "every loop of the 25 format modules (termination)"]
    chk.trusted += [
        "z3",
        "havoc contract of the format-level readers and of IOData(**d): return anything or raise any subclass of Exception -- this is what makes the result hold for every file content",
        "open() either raises or returns a file; next(file) returns a line or raises StopIteration",
        "PEP 479 is not needed: the loop over the inner iterator ends on its StopIteration by the iterator protocol",
        "shape validity of returned objects is C11 (IOData constructor establishes the per-atom invariant) and C12",
        "contract of IOData(**d) in load_many: returns or raises TypeError (C11); an inner iterator's StopIteration is exhaustion",
    ]
    chk.assumptions += [
        "default warning filters (with -W error the re-issued LoadWarning itself becomes an escaping exception)",
        "BaseExceptions other than GeneratorExit (KeyboardInterrupt, SystemExit) are out of scope; MemoryError/RecursionError are Exceptions and are funnelled",
        "A-GC: an un-exhausted generator that is merely dropped is closed when CPython finalises it",
        "the file exists and is readable, else the operating system's error of open() escapes",
        "termination: the ghost measure 'lines left + push-back depth' is finite (finite file)",
    ]
    jobs = [("checks.c07", f, {}) for f in ("job_load_one", "job_load_many", "job_line_iterator", "job_errors", "job_error_sites", "job_termination")]
    res = collect(chk, run_jobs(jobs))
    for r in res:
        if "loop_counts" in r:
            chk.notes["termination_loops"] = r["loop_counts"]
            chk.notes["termination_declared_not_proved"] = r["declared"]
            for d in r["declared"]:
                chk.assumptions.append(f"declared (unproved) termination argument: {d['loop']}: {d['declared_argument']}")
    run_bounded(chk)
    chk.samples = [o.as_dict() for o in list(chk.ledger.obligations.values())[:6]]
    chk.notes["explanation"] = "C07: exception funnel, message, close and termination obligations proved with havoc'ed readers"
