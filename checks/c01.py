"""C01 - wavefunction conversion never silently changes the wavefunction.

What is decided, and how
  A  use-site@<fmt>.<func>:<expr>   every expression in a wavefunction writer that combines `permutation` and `signs`
        (the pair returned by convert_conventions, whose contract is proved in C10) yields
            rows_i = signs_i * coeffs[permutation_i]            (orbital coefficients)
            D'_ij  = signs_i signs_j D[permutation_i, permutation_j]   (density matrices)
        The real expression is evaluated by numpy on matrices of sympy symbols for all 24 x 16 permutations and sign
        vectors of size 4 and compared exactly: complete for n = 4, all coefficient values; other sizes by
        parametricity of numpy indexing/broadcasting (assumption).
  B  scales@wfn/wfx   get_mocoeff_scales is applied to a basis that carries the conventions of the rows it scales
        (the MolecularBasis passed to it is constructed with the module's CONVENTIONS, to which the coefficients
        were converted): AST contract.
  C  fchk.prepare_dump (pyvc, symbolic execution, orbitals of any size and any occupation numbers, restricted with and
        without occs_aminusb and unrestricted): whatever is accepted has alpha and beta occupations 1...1 0...0 (all FCHK
        can express) and no more beta than alpha electrons; only PrepareDumpError is raised.  The sum and the rounding
        are abstracted as arbitrary functions of the occupation vector (the argument only needs that both slices are cut
        at the same number).  Cross-checked by a small-scope exhaustive run of the real function (bounded, n <= 5).
  D  bounded   bounded/wfn_probe.py: random wavefunctions x features (shell order, conventions, contraction scheme,
        orbital kind, virtuals, ghost/ECP centres, pure/Cartesian) x 5 writers x allow_changes; the reloaded wavefunction
        is compared with the written one as functions of space by an evaluator independent of iodata.
  Contracts used from other checks: C10 (convert_conventions), C14 (convert_to_segmented / convert_to_unrestricted,
  prepare_*), C06 (overlap used by the Molden/Molekel norm test).
"""

from __future__ import annotations

import ast
import itertools
import json
import os
import subprocess
import types

import numpy as np

from pyvc import fmtspec, source
from pyvc.core import Ledger
from pyvc.report import VENV_PY, VERIF

LEVEL = "other"
WRITERS = ["fchk", "molden", "molekel", "wfn", "wfx"]


def use_sites(led):
    import sympy

    n, m = 4, 2
    C = np.array([[sympy.Symbol(f"c{i}{j}") for j in range(m)] for i in range(n)], dtype=object)
    Dm = np.array([[sympy.Symbol(f"d{min(i, j)}{max(i, j)}") for j in range(n)] for i in range(n)], dtype=object)
    count = 0
    for fmt in WRITERS:
        modname = "iodata.formats." + fmt
        for mname, fn in fmtspec.writer_functions(modname):
            _, text = source.module_ast(mname)
            def names_in(x):
                return {y.id for y in ast.walk(x) if isinstance(y, ast.Name)}

            picked = []
            for node in ast.walk(fn):
                if not isinstance(node, ast.expr) or not {"permutation", "signs"} <= names_in(node):
                    continue
                if any(isinstance(ch, ast.expr) and {"permutation", "signs"} <= names_in(ch) for ch in ast.iter_child_nodes(node)):
                    continue  # a child already holds both names: not the smallest such expression
                if isinstance(node, (ast.Tuple, ast.Call)) and not isinstance(node, ast.Subscript):
                    continue  # e.g. the tuple target `permutation, signs = ...` or a call taking both as arguments
                # extend over enclosing products / subscripts that belong to the same value
                while isinstance(getattr(node, "_parent", None), (ast.BinOp, ast.Subscript)) and (not isinstance(node._parent, ast.Subscript) or node._parent.value is node):
                    node = node._parent
                if node not in picked:
                    picked.append(node)
            for node in picked:
                src = ast.get_source_segment(text, node) or ""
                count += 1
                name = f"use-site@{fmt}.{fn.name}:{' '.join(src.split())[:70]}"
                free = {x.id for x in ast.walk(node) if isinstance(x, ast.Name)}
                is_density = "arr" in free
                unsupported = free - {"np", "data", "arr", "permutation", "signs"}
                if unsupported:
                    led.record(name, "post", "unknown", "eval", 0.0, detail=f"free variables outside the harness: {sorted(unsupported)}")
                    continue
                code = compile(ast.Expression(body=node), f"<{mname}:{node.lineno}>", "eval")
                bad = None
                for perm in itertools.permutations(range(n)):
                    for sg in itertools.product((1, -1), repeat=n):
                        p, s = np.array(perm), np.array(sg)
                        mo = types.SimpleNamespace(coeffs=C, coeffsa=C, coeffsb=C)
                        got = None
                        # `signs` may have been reshaped to a column by an earlier statement: both shapes are tried
                        for s_env in (s, s.reshape(-1, 1)):
                            env = {"np": np, "data": types.SimpleNamespace(mo=mo), "arr": Dm, "permutation": p, "signs": s_env}
                            try:
                                got = np.asarray(eval(code, env))  # noqa: S307
                                break
                            except Exception as exc:  # noqa: BLE001
                                err = repr(exc)
                        if got is None:
                            bad = {"permutation": list(perm), "signs": list(sg), "error": err}
                            break
                        if is_density:
                            want = np.array([[s[i] * s[j] * Dm[p[i], p[j]] for j in range(n)] for i in range(n)], dtype=object)
                        else:
                            want = np.array([[s[i] * C[p[i], j] for j in range(m)] for i in range(n)], dtype=object)
                        if got.shape != want.shape or any(sympy.expand(g - w) != 0 for g, w in zip(got.ravel(), want.ravel())):
                            bad = {"permutation": list(perm), "signs": list(sg), "got": str(got.tolist())[:300], "want": str(want.tolist())[:300]}
                            break
                    if bad:
                        break
                led.record(name, "post", "refuted" if bad else "discharged", "numpy+sympy", 0.0, detail=("density: D'_ij = s_i s_j D[p_i,p_j]" if is_density else "rows_i = s_i * coeffs[p_i]") + "; exhaustive over permutations and signs of size 4, symbolic entries", witness=bad)
    return count


REPLAY_USE_SITE = """\
# use-site: a wavefunction whose conventions differ from the target's by a re-ordering AND sign flips in one shell type
import sys, os, json, subprocess
probe = {probe!r}
env = dict(os.environ, PYTHONPATH=os.environ.get("PYVC_REPO", "/repo"))
r = subprocess.run([sys.executable, probe, "0", "quick", {fmt!r}], capture_output=True, text=True, env=env)
res = json.loads(r.stdout.strip().splitlines()[-1])
hits = {{k: v["fails"][:1] for k, v in res["groups"].items() if "conv" in k}}
print(json.dumps(hits, indent=1)[:1500])
if hits:
    print("REPRODUCED"); sys.exit(1)
print("not reproduced")
"""


def scales_contract(led):
    for fmt in ("wfn", "wfx"):
        mod = "iodata.formats." + fmt
        fn = source.find_def(mod, "dump_one")
        _, text = source.module_ast(mod)
        calls = [c for c in ast.walk(fn) if isinstance(c, ast.Call) and getattr(c.func, "id", "") == "get_mocoeff_scales"]
        conv_targets = [ast.get_source_segment(text, c.args[1]) for c in ast.walk(fn) if isinstance(c, ast.Call) and getattr(c.func, "id", "") == "convert_conventions" and len(c.args) >= 2]
        ok, detail = False, "no call of get_mocoeff_scales found"
        if not (len(calls) == 1 and isinstance(calls[0].args[0], ast.Name)):
            # the writer no longer has the shape this obligation reads (e.g. the code moved into a helper): undecided
            led.record(f"scales@{fmt}.dump_one::normalization-constants-are-computed-in-the-conventions-of-the-rows-they-scale", "post", "unknown", "ast", 0.0, detail="dump_one has no single call get_mocoeff_scales(<name>): re-annotation needed")
            continue
        if len(calls) == 1 and isinstance(calls[0].args[0], ast.Name):
            bname = calls[0].args[0].id
            assigns = [s for s in ast.walk(fn) if isinstance(s, ast.Assign) and any(isinstance(t, ast.Name) and t.id == bname for t in s.targets)]
            if len(assigns) == 1 and isinstance(assigns[0].value, ast.Call) and getattr(assigns[0].value.func, "id", "") == "MolecularBasis" and len(assigns[0].value.args) >= 2:
                conv_arg = ast.get_source_segment(text, assigns[0].value.args[1])
                ok = bool(conv_targets) and all(conv_arg == t for t in conv_targets)
                detail = f"scales computed on MolecularBasis(..., {conv_arg}, ...); coefficients converted to {conv_targets}"
            else:
                detail = f"the basis {bname} is not a single MolecularBasis(...) construction"
                led.record(f"scales@{fmt}.dump_one::normalization-constants-are-computed-in-the-conventions-of-the-rows-they-scale", "post", "unknown", "ast", 0.0, detail=detail)
                continue
        led.record(f"scales@{fmt}.dump_one::normalization-constants-are-computed-in-the-conventions-of-the-rows-they-scale", "post", "discharged" if ok else "refuted", "ast", 0.0, detail=detail, witness={"needs": "a source object with another ordering of Cartesian d (or higher) functions, e.g. alphabetical"})


def job_fchk_guard(kind="restricted", aminusb=False):
    """fchk.prepare_dump on orbitals of any size and any occupation numbers: whatever is accepted has alpha and beta
    occupations 1...1 0...0 (all FCHK can express) and no more beta than alpha electrons."""
    import z3

    from pyvc.harness import get_target, verify
    from pyvc.interp import Config
    from pyvc.values import SBool, SOpt, to_z3

    from checks.c12 import make_mo
    from checks.c14 import make_data

    T = "iodata.formats.fchk.prepare_dump"
    tagk = kind + ("+aminusb" if aminusb else "")
    cfg = Config()
    cfg.contracts["iodata.prepare.prepare_segmented"] = lambda interp, args, kwargs: args[0]
    import numpy as np
    from pyvc.values import SReal
    sums = {}
    def np_sum(interp, args, kwargs):
        # the argument only uses that both slices of one occupation vector are cut at the same number: the sum itself is
        # an arbitrary real, the same for the same array contents
        arr = interp.resolve(args[0])
        key = str(arr.get((z3.Int("k!sum"),))) + "|" + str(arr.shape[0])
        if key not in sums:
            sums[key] = SReal(z3.Real(f"sum!{len(sums)}"))
        return sums[key]
    cfg.models[np.sum] = np_sum
    from pyvc.values import SInt
    rounds = {}
    def np_round(interp, args, kwargs):
        v = interp.resolve(args[0])
        key = str(to_z3(v))
        if key not in rounds:
            rounds[key] = SInt(z3.Int(f"round!{len(rounds)}"))
        return rounds[key]
    cfg.models[np.round] = np_round
    def setup(ctx, interp):
        mo, d = make_mo(ctx, kind, tag="mo")
        for k in ("occs", "coeffs", "energies"):
            v = mo.fields[k]
            mo.fields[k] = v.val if isinstance(v, SOpt) else v
        if kind == "restricted":
            if aminusb:
                mo.fields["occs_aminusb"] = mo.fields["occs_aminusb"].val
            else:
                mo.fields["occs_aminusb"] = None
        data = make_data(ctx, mo=mo, obasis="OBASIS")
        return get_target("iodata.formats.fchk:prepare_dump"), [data, SBool(z3.Bool("allow")), "x.fchk"], {}, dict(mo=mo, d=d)
    def post(out, env):
        ctx, interp = out.ctx, out.interp
        mo = env["mo"]
        if out.kind == "raise":
            ctx.prove(f"{T}[{tagk}]::raises.only-PrepareDumpError", getattr(out.exc_class, "__name__", "") == "PrepareDumpError", kind="raises")
            return
        oa = interp.resolve(interp.load_attr(mo, "occsa")); ob = interp.resolve(interp.load_attr(mo, "occsb"))
        i = z3.Int("gi")
        na = z3.Int("g_na"); nb = z3.Int("g_nb")
        def aufbau(arr, n):
            ln = arr.shape[0] if not isinstance(arr.shape[0], int) else z3.IntVal(arr.shape[0])
            return z3.And(n >= 0, n <= ln, z3.ForAll([i], z3.Implies(z3.And(i >= 0, i < ln), to_z3(arr.get((i,))) == z3.If(i < n, z3.RealVal(1), z3.RealVal(0)))))
        import numpy as np
        def witness(arr):
            # the number the code itself derives, with Python's slice semantics for out-of-range / negative bounds
            n = to_z3(interp.resolve(interp.call(int, [interp.call(np.round, [interp.call(np.sum, [arr], {})], {})], {})))
            ln = arr.shape[0] if not isinstance(arr.shape[0], int) else z3.IntVal(arr.shape[0])
            return z3.If(n < 0, z3.If(ln + n < 0, z3.IntVal(0), ln + n), z3.If(n > ln, ln, n))
        def prove_aufbau(name, arr):
            # Skolemised goal + instances of the quantified facts of the path condition at the Skolem constant and at
            # its offsets by the cut (what the two `.all()` tests of the code range over)
            w = witness(arr)
            c = z3.Int(ctx.fresh("sk"))
            ln = arr.shape[0] if not isinstance(arr.shape[0], int) else z3.IntVal(arr.shape[0])
            goal = z3.And(w >= 0, w <= ln, z3.Implies(z3.And(c >= 0, c < ln), to_z3(arr.get((c,))) == z3.If(c < w, z3.RealVal(1), z3.RealVal(0))))
            inst = []
            for f in ctx.pc:
                if z3.is_quantifier(f) and f.is_forall() and f.num_vars() == 1:
                    for t in (c, c - w):
                        inst.append(z3.substitute_vars(f.body(), t))
            for h in inst:
                ctx.assume(h)
            ctx.prove(name, goal)
        prove_aufbau(f"{T}[{tagk}]::post.accepted-alpha-occupations-are-ones-then-zeros", oa)
        prove_aufbau(f"{T}[{tagk}]::post.accepted-beta-occupations-are-ones-then-zeros", ob)
        raw = lambda arr: to_z3(interp.resolve(interp.call(int, [interp.call(np.round, [interp.call(np.sum, [arr], {})], {})], {})))  # noqa: E731
        ctx.prove(f"{T}[{tagk}]::post.accepted-objects-have-no-more-beta-than-alpha-electrons", raw(ob) <= raw(oa))
    return verify(T, setup, post, config=cfg, max_paths=300)



GUARD_SCRIPT = r"""
import itertools, json, sys, warnings
import numpy as np
warnings.simplefilter("ignore")
from iodata import IOData
from iodata.basis import MolecularBasis, Shell
from iodata.convert import HORTON2_CONVENTIONS
from iodata.formats.fchk import prepare_dump
from iodata.orbitals import MolecularOrbitals
from iodata.utils import PrepareDumpError

def aufbau(v):
    k = int(round(float(np.sum(v))))
    return bool((np.asarray(v)[:k] == 1.0).all() and (np.asarray(v)[k:] == 0.0).all())

fails, n = [], 0
for norb in range(1, 6):
    shells = [Shell(0, [0], ["c"], [1.0 + i], [[1.0]]) for i in range(norb)]
    obasis = MolecularBasis(shells, HORTON2_CONVENTIONS, "L2")
    coeffs = np.eye(norb)
    cases = []
    for occs in itertools.product((0.0, 1.0, 2.0), repeat=norb):
        cases.append(("restricted", occs, None))
        singles = [i for i, o in enumerate(occs) if o == 1.0]
        if 0 < len(singles) <= 3:
            for sg in itertools.product((1.0, -1.0), repeat=len(singles)):
                amb = [0.0] * norb
                for i, s in zip(singles, sg):
                    amb[i] = s
                cases.append(("aminusb", occs, amb))
    if norb <= 3:
        for oa in itertools.product((0.0, 1.0), repeat=norb):
            for ob in itertools.product((0.0, 1.0), repeat=norb):
                cases.append(("unrestricted", oa + ob, None))
    for kind, occs, amb in cases:
        if sum(occs) == 0:
            continue
        if kind == "unrestricted":
            mo = MolecularOrbitals("unrestricted", norb, norb, np.array(occs), np.hstack([coeffs, coeffs]), np.zeros(2 * norb))
        else:
            mo = MolecularOrbitals("restricted", norb, norb, np.array(occs), coeffs, np.zeros(norb), occs_aminusb=None if amb is None else np.array(amb))
        data = IOData(atnums=[1], atcoords=[[0.0, 0, 0]], obasis=obasis, mo=mo)
        n += 1
        for allow in (False, True):
            try:
                prepare_dump(data, allow, "x.fchk")
            except (PrepareDumpError, ValueError):
                continue
            ok = aufbau(mo.occsa) and aufbau(mo.occsb) and mo.occsa.sum() >= mo.occsb.sum()
            if not ok and len(fails) < 5:
                fails.append({"kind": kind, "occs": list(occs), "occs_aminusb": amb, "occsa": mo.occsa.tolist(), "occsb": mo.occsb.tolist(), "allow_changes": allow})
print(json.dumps({"cases": n, "fails": fails}))
"""


def fchk_guard(chk):
    env = dict(os.environ, PYTHONPATH=source.REPO)
    out = subprocess.run([VENV_PY, "-c", GUARD_SCRIPT], capture_output=True, text=True, env=env, cwd="/", timeout=1800)
    if out.returncode != 0:
        chk.fault("fchk guard script crashed: " + out.stderr[-800:])
        return
    res = json.loads(out.stdout.strip().splitlines()[-1])
    script = GUARD_SCRIPT + "\nif fails:\n    print('REPRODUCED'); sys.exit(1)\n"
    chk.add_bounded("guard.fchk.prepare_dump-accepts-only-occupations-FCHK-can-express", "all occupation vectors over {0,1,2} with <= 5 orbitals, with every sign pattern of occs_aminusb on <= 3 singly occupied orbitals, all unrestricted 0/1 patterns with <= 3+3 orbitals, allow_changes in {False, True}", res["cases"], res["fails"], note="FCHK stores only the numbers of alpha and beta electrons: accepted objects must have alpha and beta occupations 1..1 0..0 with n_alpha >= n_beta", replay_script=script)


def run_probe(chk):
    env = dict(os.environ, PYTHONPATH=source.REPO)
    probe = os.path.join(VERIF, "bounded", "wfn_probe.py")
    out = subprocess.run([VENV_PY, probe, str(chk.seed), chk.tier], capture_output=True, text=True, env=env, cwd="/", timeout=20000)
    if out.returncode != 0:
        chk.fault(f"wavefunction probe crashed: {out.stderr[-1500:]}")
        return
    res = json.loads(out.stdout.strip().splitlines()[-1])
    bound = "random molecules of 1..3 (quick) / 1..5 (thorough) atoms, s..g shells, 1..3 primitives; baseline + every single-feature variation + 25 (quick) / 250 (thorough) random feature combinations per format, 2 (4) molecules each, allow_changes in {False, True}; 12 probe points per case; failing cases minimised feature by feature"
    for fmt in WRITERS:
        st = res["stats"][fmt]
        chk.add_bounded(f"wavefunction.{fmt}", bound, st["ok"] + st["fail"] + st["refused"], [], note=f"written and reloaded: {st['ok'] + st['fail']}, refused with an error (allowed): {st['refused']}, generator skips: {st['skip']}; failures are listed under wavefunction.{fmt}.<symptom>@<feature> groups")
        if st["ok"] + st["fail"] == 0:
            chk.fault(f"wavefunction probe wrote no {fmt} file at all")
    # a failure is filed under its first remaining feature (fixed priority), so that the group does not depend on the seed
    prio = ["shells", "conv", "order", "centres", "kind", "contraction", "purecart", "virtuals"]
    merged = {}
    for gname, g in res["groups"].items():
        head, _, tags = gname.partition("@")
        feats = [t.split("=")[0] for t in tags.split(",")] if tags != "baseline" else []
        first = next((p for p in prio if p in feats), "baseline")
        val = next((t for t in tags.split(",") if t.startswith(first + "=")), first)
        key = f"{head}@{val}"
        merged.setdefault(key, []).extend(g["fails"])
    for key, fails in sorted(merged.items()):
        fmt = key.split(".")[0]
        script = (
            "import subprocess, sys, json, os\n"
            "env = dict(os.environ, PYTHONPATH=os.environ.get('PYVC_REPO', '/repo'))\n"
            f"r = subprocess.run([sys.executable, {probe!r}, '{chk.seed}', '{chk.tier}', {fmt!r}], capture_output=True, text=True, env=env)\n"
            "res = json.loads(r.stdout.strip().splitlines()[-1])\n"
            f"head, _, val = {key!r}.partition('@')\n"
            "hits = [g['fails'][0] for k, g in res['groups'].items() if k.startswith(head + '@') and (val in k.split('@')[1].split(',') or (val == 'baseline' and k.endswith('@baseline')))]\n"
            "print(json.dumps(hits[:2], indent=1, default=str)[:2000])\n"
            "if hits:\n    print('REPRODUCED'); sys.exit(1)\n"
        )
        chk.add_bounded(f"wavefunction.{key}", bound, res["cases"], fails, replay_script=script)


def run(chk):
    chk.functions += [f"iodata.formats.{f}.dump_one (+ helpers): every expression combining permutation and signs" for f in WRITERS]
    chk.functions += ["iodata.formats.wfn.dump_one / wfx.dump_one: basis passed to get_mocoeff_scales", "iodata.formats.fchk.prepare_dump (symbolic execution, all sizes and occupations; plus exhaustive small scope as cross-check)"]
    chk.trusted += [
        "numpy fancy indexing and broadcasting behave uniformly in the matrix size (use-site obligations are exhaustive for n = 4 only)",
        "contract of convert_conventions (C10), of convert_to_segmented / convert_to_unrestricted (C14), overlap (C06): proved in those checks, used here; the prepare_* contracts of C14 are re-proved in this check",
        "bounded/overlap_oracle.py as the definition of the basis functions (validated against docs/basis.rst in C06)",
    ]
    chk.not_covered += [
        "reader-side reconstruction (WFN/WFX primitive regrouping, FCHK shell types, Molden/Molekel vendor fixes - see C05), writers' handling of shell order / centres / occupations beyond the use-site expression: bounded probe only",
        "the command-line converter (python -m iodata): it calls the same load_one/dump_one (C17, C18 cover its dispatch); not exercised separately here",
        "h and higher angular momenta; L1-normalised primitives",
    ]
    led = Ledger()
    n_sites = use_sites(led)
    per_writer = {f: sum(1 for o in led.obligations if o.startswith(f"use-site@{f}.")) for f in WRITERS}
    if n_sites == 0 or any(v == 0 for v in per_writer.values()):
        chk.fault(f"permutation/sign expressions found per writer: {per_writer}: every writer converts conventions, so the extraction is broken")
    scales_contract(led)
    chk.merge(led)
    from pyvc.pool import collect, run_jobs

    jobs = [("checks.c01", "job_fchk_guard", {"kind": k, "aminusb": a}) for k, a in (("unrestricted", False), ("restricted", False), ("restricted", True))]
    # "after an allowed, announced conversion": the contracts of the two prepare_* helpers every writer calls (identity only
    # when nothing needs converting, PrepareDumpError without allow_changes, PrepareDumpWarning + conversion with it) are
    # those proved for C14; they are re-proved here on every run
    jobs += [("checks.c14", "job_prepare_unrestricted", {}), ("checks.c14", "job_prepare_segmented", {})]
    collect(chk, run_jobs(jobs))
    probe = os.path.join(VERIF, "bounded", "wfn_probe.py")
    for o in chk.ledger.obligations.values():
        if o.status == "refuted" and o.name.startswith(("use-site@", "scales@")):
            fmt = o.name.split("@")[1].split(".")[0]
            chk.set_replay(o.name, REPLAY_USE_SITE.format(probe=probe, fmt=fmt), witness=o.witness)
    fchk_guard(chk)
    run_probe(chk)
    chk.samples = [o.as_dict() for o in list(chk.ledger.obligations.values())[:6]]
    chk.notes["explanation"] = "C01: use-site contracts for the convention conversion (exhaustive for n=4 with symbolic entries), AST contract for the WFN/WFX scales, small-scope exhaustive FCHK occupation guard, and a randomised conversion probe judged by an independent evaluator of the orbitals (bounded)"
