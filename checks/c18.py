"""C18 -- the command-line converter does exactly what the API does.

Targets under contract: __main__.convert, __main__.main (symbolic execution: the only effects are the two API
calls with the right data flow, np.seterr, and the propagation of every exception); __main__.parse_args (ground:
the real argparse parser enumerated over its whole option structure).
"""

from __future__ import annotations

import itertools
import json
import os
import subprocess
import sys

import numpy as np
import z3

from pyvc import source
from pyvc.apimodel import api_config, may_raise
from pyvc.core import Ledger
from pyvc.harness import verify
from pyvc.pool import collect, run_jobs
from pyvc.report import VENV_PY
from pyvc.values import Opaque, SBool, SOpt, SU, SymExc, U

LEVEL = "proof"
M = "iodata.__main__"


def main_mod():
    return source.import_repo("iodata.__main__")


def api_models(cfg):
    api = source.import_repo("iodata.api")
    for name in ("load_one", "load_many", "dump_one", "dump_many"):

        def model(interp, args, kwargs, name=name):
            interp.ctx.event("api", name, tuple(args), dict(kwargs))
            may_raise(interp, name)
            return Opaque(interp.ctx.fresh(f"{name}.result"))

        cfg.models[getattr(api, name)] = model
    cfg.models[np.seterr] = lambda interp, args, kwargs: interp.ctx.event("seterr", dict(kwargs))
    return cfg


def check_calls(ctx, target, tr, infn, outfn, many, infmt, outfmt, allow, out):
    calls = [e for e in tr if e[0] == "api"]
    other = [e for e in tr if e[0] not in ("api", "raise", "seterr")]
    ctx.prove(f"{target}::post.no-effect-other-than-the-two-api-calls", not other)
    load, dump = ("load_many", "dump_many") if many else ("load_one", "dump_one")
    ok_load = len(calls) >= 1 and calls[0][1] == load and len(calls[0][2]) == 1 and calls[0][2][0] is infn and set(calls[0][3]) == {"fmt"} and calls[0][3]["fmt"] is infmt
    ctx.prove(f"{target}::post.loads-the-input-with-the-input-format", ok_load)
    if out.kind == "raise":
        ctx.prove(f"{target}::raises.every-exception-of-the-api-propagates-unchanged", isinstance(out.value, SymExc) and len(calls) <= 2, kind="raises")
        if len(calls) == 1:
            ctx.prove(f"{target}::raises.nothing-is-written-when-loading-fails", True, kind="raises")
            return
    ok_dump = len(calls) == 2 and calls[1][1] == dump and len(calls[1][2]) == 2 and isinstance(calls[1][2][0], Opaque) and calls[1][2][0].tag.startswith(load) and calls[1][2][1] is outfn and set(calls[1][3]) == {"allow_changes", "fmt"} and calls[1][3]["fmt"] is outfmt and calls[1][3]["allow_changes"] is allow
    ctx.prove(f"{target}::post.dumps-what-was-loaded-to-the-output-with-output-format-and-allow_changes", ok_dump)
    if out.kind == "return":
        ctx.prove(f"{target}::post.returns-None-only-after-both-calls-returned", out.value is None and len(calls) == 2)


def job_convert():
    target = f"{M}.convert"
    led = Ledger()
    for many in (False, True):
        cfg = api_models(api_config())

        def setup(ctx, interp, many=many):
            # formats: None or a name; allow_changes: a boolean (both values)
            infmt = interp.resolve(SOpt(z3.Bool("infmt.isnone"), SU(z3.Const("infmt", U), str)))
            outfmt = interp.resolve(SOpt(z3.Bool("outfmt.isnone"), SU(z3.Const("outfmt", U), str)))
            allow = interp.ctx.branch(z3.Bool("allow_changes"))
            a = dict(infn=SU(z3.Const("infn", U), str), outfn=SU(z3.Const("outfn", U), str), infmt=infmt, outfmt=outfmt, allow=allow)
            return main_mod().convert, [a["infn"], a["outfn"], many, a["infmt"], a["outfmt"], a["allow"]], {}, a

        def post(out, env, many=many):
            check_calls(out.ctx, target, out.ctx.trace, env["infn"], env["outfn"], many, env["infmt"], env["outfmt"], env["allow"], out)

        verify(target, setup, post, config=cfg, ledger=led)
    # `many` symbolic: exactly the two shapes above
    cfg = api_models(api_config())

    def setup2(ctx, interp):
        return main_mod().convert, [Opaque("in"), Opaque("out"), SBool(z3.Bool("many"))], {}, {}

    def post2(out, env):
        ctx = out.ctx
        calls = [e[1] for e in ctx.trace if e[0] == "api"]
        ctx.prove(f"{target}::post.many-selects-the-pair-of-calls", z3.If(z3.Bool("many"), z3.BoolVal(calls[:1] == ["load_many"] and all(c.endswith("many") for c in calls)), z3.BoolVal(calls[:1] == ["load_one"] and all(c.endswith("one") for c in calls))))
        defaults = main_mod().convert.__defaults__
        ctx.prove(f"{target}::ground.defaults-many-False-formats-None-allow_changes-False", defaults == (False, None, None, False))

    verify(target, setup2, post2, config=cfg, ledger=led)
    return led


def job_main():
    target = f"{M}.main"
    led = Ledger()
    for many in (False, True):
        cfg = api_models(api_config())
        ns = {}

        def parse(interp, args, kwargs, many=many, ns=ns):
            a = Opaque("args")
            for k in ("input", "output"):
                a.attrs[k] = Opaque(f"args.{k}")
            for k in ("infmt", "outfmt"):
                a.attrs[k] = interp.resolve(SOpt(z3.Bool(f"args.{k}.isnone"), SU(z3.Const(f"args.{k}", U), str)))
            a.attrs["allow_changes"] = interp.ctx.branch(z3.Bool("args.allow_changes"))
            a.attrs["many"] = many
            ns["a"] = a
            interp.ctx.event("parse_args")
            return a

        cfg.contracts[f"{M}.parse_args"] = parse

        def setup(ctx, interp):
            return main_mod().main, [], {}, {}

        def post(out, env, many=many, ns=ns):
            ctx = out.ctx
            tr = ctx.trace
            a = ns["a"].attrs
            names = [e[0] for e in tr]
            ctx.prove(f"{target}::post.floating-point-errors-trap-before-anything-else", names[:2] == ["seterr", "parse_args"] and tr[0][1] == {"divide": "raise", "over": "raise", "invalid": "raise"})
            rest = [e for e in tr if e[0] not in ("seterr", "parse_args")]

            class O:
                pass

            o = O()
            o.kind, o.value = out.kind, out.value
            check_calls(ctx, target, rest, a["input"], a["output"], many, a["infmt"], a["outfmt"], a["allow_changes"], o)

        verify(target, setup, post, config=cfg, ledger=led)
    return led


def job_parser():
    """Ground: the real ArgumentParser over its whole option structure."""
    led = Ledger()
    mod = main_mod()
    bad = []
    n = 0
    saved = sys.argv
    try:
        for infmt, outfmt, allow, many in itertools.product((None, "-i", "--infmt"), (None, "-o", "--outfmt"), (None, "-c", "--allow-changes"), (None, "-m", "--many")):
            for order in (0, 1):
                argv = ["iodata-convert"]
                opts = []
                if infmt:
                    opts += [infmt, "INFMT"]
                if outfmt:
                    opts += [outfmt, "OUTFMT"]
                if allow:
                    opts += [allow]
                if many:
                    opts += [many]
                argv += (opts + ["IN", "OUT"]) if order == 0 else (["IN"] + opts + ["OUT"])
                sys.argv = argv
                n += 1
                try:
                    ns = mod.parse_args()
                except SystemExit as exc:
                    bad.append((argv, f"exit {exc.code}"))
                    continue
                want = dict(input="IN", output="OUT", infmt="INFMT" if infmt else None, outfmt="OUTFMT" if outfmt else None, allow_changes=bool(allow), many=bool(many))
                got = {k: getattr(ns, k, "<missing>") for k in want}
                if got != want:
                    bad.append((argv, got))
        led.record(f"{M}.parse_args::ground.every-option-combination-maps-to-the-namespace-main-reads", "ground", "refuted" if bad else "discharged", "eval", 0.0, detail=str(bad[:3]))
        bad2 = []
        devnull = open(os.devnull, "w")
        old_err = sys.stderr
        sys.stderr = devnull
        try:
            for argv in (["x"], ["x", "IN"], ["x", "IN", "OUT", "EXTRA"], ["x", "--nonsense", "IN", "OUT"], ["x", "-i"], ["x", "IN", "OUT", "-o"]):
                sys.argv = argv
                n += 1
                try:
                    mod.parse_args()
                    bad2.append((argv, "accepted"))
                except SystemExit as exc:
                    if exc.code != 2:
                        bad2.append((argv, exc.code))
        finally:
            sys.stderr = old_err
            devnull.close()
        led.record(f"{M}.parse_args::ground.malformed-command-lines-exit-with-status-2", "ground", "refuted" if bad2 else "discharged", "eval", 0.0, detail=str(bad2[:3]))
    finally:
        sys.argv = saved
    return {"ledger": led, "parser_cases": n}


BOUNDED = r"""
import json, os, subprocess, sys, tempfile, warnings, shutil, hashlib
warnings.simplefilter("ignore")
import iodata
from iodata import load_one, load_many, dump_one, dump_many
repo = os.path.dirname(os.path.dirname(iodata.__file__))
data = os.path.join(repo, "iodata", "test", "data")
tmp = tempfile.mkdtemp()
__import__("atexit").register(__import__("shutil").rmtree, tmp, True)
fails, cases = [], 0
PAIRS = [("water.xyz", "out.pdb", []), ("water.xyz", "out.sdf", []), ("water_trajectory.xyz", "traj.pdb", ["-m"]), ("h2o_sto3g.fchk", "out.molden", []), ("h2o_sto3g.fchk", "out.wfn", []),
         ("h2o_sto3g.fchk", "out.xyz", []), ("water.xyz", "o.dat", ["-o", "mol2"]), ("water.xyz", "out.fchk", []), ("h2o_sto3g.fchk", "o2.dat", ["--outfmt", "wfx"]), ("water.xyz", "out.nonsense", []),
         ("nonexistent.xyz", "out.pdb", []), ("water_trajectory.xyz", "traj.sdf", ["--many"]), ("h2o_sto3g.wfn", "out.molden", ["-c"]), ("water.xyz", "out2.xyz", ["-i", "xyz"]),
         ("water_trajectory.xyz", "traj2.sdf", ["-m", "-i", "xyz"]), ("water_trajectory.xyz", "traj3.pdb", ["-m", "-i", "xyz"]), ("GARBAGE.xyz", "g.pdb", []), ("GARBAGE_TRAJ.xyz", "g2.pdb", ["-m"]),
         ("h2o_sto3g.fchk", "pre.mkl", []), ("water.xyz", "pre2.fchk", []), ("GARBAGE_HUGE.mol2", "huge.xyz", ["-m"]), ("GARBAGE_HUGE.mol2", "huge.sdf", ["-m"])]
# a MOL2 trajectory whose third molecule has a finite coordinate that overflows in the unit conversion: the CLI traps
# floating-point errors, the API does not; the CLI may fail, but must not report success with fewer frames
mol = open(os.path.join(data, "caffeine.mol2")).read().splitlines(keepends=True)
k = next(i for i, l in enumerate(mol) if l.startswith("@<TRIPOS>ATOM")) + 1
w = mol[k].split()
bad = list(mol); bad[k] = mol[k].replace(w[2], "1.0e308", 1)
with open(os.path.join(tmp, "GARBAGE_HUGE.mol2"), "w") as fh: fh.write("".join(mol) + "".join(mol) + "".join(bad) + "".join(mol))
with open(os.path.join(tmp, "GARBAGE.xyz"), "w") as fh: fh.write("3\ntitle\nO 0 0 0\nH 0 0 x\n")
lines = open(os.path.join(data, "water_trajectory.xyz")).read().splitlines(keepends=True)
with open(os.path.join(tmp, "GARBAGE_TRAJ.xyz"), "w") as fh: fh.write("".join(lines[:12]) + "garbage\n" + "".join(lines[13:20]))
def api(inp, outp, opts):
    many = "-m" in opts or "--many" in opts
    allow = "-c" in opts
    infmt = opts[opts.index("-i") + 1] if "-i" in opts else None
    outfmt = None
    for k in ("-o", "--outfmt"):
        if k in opts: outfmt = opts[opts.index(k) + 1]
    if many: dump_many(load_many(inp, fmt=infmt), outp, fmt=outfmt, allow_changes=allow)
    else: dump_one(load_one(inp, fmt=infmt), outp, fmt=outfmt, allow_changes=allow)
for inp, outp, opts in PAIRS:
    cases += 1
    src = os.path.join(tmp if inp.startswith("GARBAGE") else data, inp)
    a, b = os.path.join(tmp, "api_" + outp), os.path.join(tmp, "cli_" + outp)
    for f in (a, b):
        with open(f, "w") as fh: fh.write("PRECIOUS\n")
    try:
        api(src, a, opts); api_ok = True
    except Exception as exc:
        api_ok = False; api_exc = type(exc).__name__
    env = dict(os.environ, PYTHONPATH=repo)
    r = subprocess.run([sys.executable, "-m", "iodata", *opts, src, b], capture_output=True, text=True, env=env, cwd=tmp)
    h = lambda f: hashlib.sha256(open(f, "rb").read()).hexdigest() if os.path.exists(f) else "MISSING"
    desc = (inp, outp, opts)
    if api_ok:
        # the statement allows the CLI to fail with an error where the API succeeds (it traps floating-point errors);
        # what it must never do is report success with other content
        if r.returncode != 0:
            if not r.stderr.strip(): fails.append((desc, "CLI failed silently"))
        elif h(a) != h(b): fails.append((desc, "CLI output differs from the API output"))
    else:
        if r.returncode == 0: fails.append((desc, "CLI reports success where the API raises " + api_exc))
        elif not r.stderr.strip(): fails.append((desc, "CLI failed silently"))
        elif h(a) != h(b): fails.append((desc, "failed conversion left different files behind (API vs CLI)"))
sig = {}
for f in fails: sig.setdefault(f[1], f)
print(json.dumps(dict(cases=cases, nfails=len(fails), kinds={k: repr(v)[:400] for k, v in sig.items()}), default=str))
"""
_TAIL = "print(json.dumps(dict(cases=cases, nfails=len(fails), kinds={k: repr(v)[:400] for k, v in sig.items()}), default=str))"


def run_bounded(chk):
    env = dict(os.environ, PYTHONPATH=source.REPO)
    out = subprocess.run([VENV_PY, "-c", BOUNDED], capture_output=True, text=True, env=env, cwd="/", timeout=3000)
    if out.returncode != 0:
        chk.fault(f"bounded driver crashed: {out.stderr[-1500:]}")
        return
    res = json.loads(out.stdout.strip().splitlines()[-1])
    bound = "22 (input file, output name, options) combinations incl. damaged inputs and pre-flight rejections run as `python -m iodata` and through the API; bytes compared, exit status and stderr checked, pre-existing target compared after failures"
    for kind, example in sorted(res["kinds"].items()):
        script = BOUNDED.replace(_TAIL, f"print(sig.get({kind!r}))\nif {kind!r} in sig:\n    print('REPRODUCED'); sys.exit(1)")
        chk.add_bounded(f"cli-vs-api.{kind}", bound, res["cases"], [example], replay_script=script)
    if not res["kinds"]:
        chk.add_bounded("cli-vs-api", bound, res["cases"], [])


def run(chk):
    chk.functions += [f"{M}.convert", f"{M}.main", f"{M}.parse_args (ground on the real ArgumentParser)"]
    chk.trusted += [
        "z3 (symbolic `many`)",
        "the four API functions by havoc contract (any result, any Exception); their own behaviour is C07/C08/C13",
        "CPython: an uncaught exception terminates `python -m iodata` with a non-zero status and the traceback on stderr",
        "numpy: np.seterr(...='raise') changes no computed value unless it raises",
        "argparse internals",
    ]
    chk.assumptions += ["byte equality with the API calls follows from V1/V2 (the same calls with the same arguments) + determinism of the API (C16); the subprocess comparison is a bounded cross-check", "the pre-flight guarantee is C08"]
    jobs = [("checks.c18", f, {}) for f in ("job_convert", "job_main", "job_parser")]
    res = collect(chk, run_jobs(jobs))
    for r in res:
        if "parser_cases" in r:
            chk.notes["parser_cases"] = r["parser_cases"]
    run_bounded(chk)
    chk.samples = [o.as_dict() for o in list(chk.ledger.obligations.values())[:6]]
    chk.notes["explanation"] = "C18: convert/main verified as exactly the two API calls with the right data flow; parser enumerated exhaustively"
