"""C06 -- overlap matrices are the exact inner products of the documented functions.

K1  the real GaussianOverlap.compute_overlap_gaussian_1d, run on sympy symbols for all 64 (n1, n2) <= 7, equals the
    Gaussian moment  E[(t+x1)^n1 (t+x2)^n2],  t ~ N(0, 1/two_at)   (exact polynomial identity, all real arguments)
K2  gob_cart_normalization(alpha, n)^2 * prod_i int t^(2 n_i) exp(-2 alpha t^2) dt == 1 for all 120 triples l <= 7
K3  tfs[l], l <= 7 == the real regular solid harmonics of docs/basis.rst (associated-Legendre definition, built
    independently of tools/harmonics.py) in normalised Cartesian functions, alphabetical order; rows orthonormal
K4  compute_overlap rejects non-L2 normalisation and a missing / superfluous second geometry
K5  structure: both bases are segmented first; rows are converted with the conventions of basis 0 and columns with
    those of basis 1, both with reverse=True (C10 contract); the screening bound uses the smallest exponents, and
    that bound dominates every primitive pair (lemma, z3 nonlinear real arithmetic)
The assembled matrix (floating point) is a bounded stand-in against an independent oracle (bounded/overlap_oracle.py).
"""

from __future__ import annotations

import ast
import itertools
import json
import math
import os
import subprocess
import sys

import numpy as np
import z3

from pyvc import source
from pyvc.core import Ledger, check_valid
from pyvc.pool import collect, run_jobs
from pyvc.report import A_FP, VENV_PY, VERIF

LEVEL = "other"
OV = "iodata.overlap"


def job_kernel():
    import sympy as sp

    led = Ledger()
    ov = source.import_repo("iodata.overlap")
    go = ov.GaussianOverlap(7)
    x1, x2 = sp.symbols("x1 x2", real=True)
    ta = sp.Symbol("two_at", positive=True)
    t = sp.Symbol("t", real=True)

    def moment(m):
        # E[t^m] for t ~ N(0, 1/two_at): (m-1)!! / two_at^(m/2) for even m, 0 for odd m
        if m % 2:
            return 0
        return sp.factorial2(m - 1) / ta ** sp.Rational(m, 2) if m > 0 else 1

    bad = []
    for n1, n2 in itertools.product(range(8), repeat=2):
        real = go.compute_overlap_gaussian_1d(x1, x2, n1, n2, ta)
        poly = sp.Poly(sp.expand((t + x1) ** n1 * (t + x2) ** n2), t)
        spec = sum(c * moment(int(m[0])) for m, c in poly.terms())
        diff = sp.simplify(sp.nsimplify(sp.expand(real), rational=True) - sp.expand(spec))
        ok = diff == 0
        if not ok:
            bad.append((n1, n2, str(diff)[:100]))
        led.record(f"{OV}.GaussianOverlap.compute_overlap_gaussian_1d::post.equals-the-gaussian-moment[n1={n1},n2={n2}]", "post", "discharged" if ok else "refuted", "sympy", 0.0, detail=str(diff)[:200], witness={"n1": n1, "n2": n2} if not ok else None)
    # symmetry lemma S(n1,n2;x1,x2) == S(n2,n1;x2,x1)
    sym_bad = [(a, b) for a, b in itertools.product(range(8), repeat=2) if sp.expand(go.compute_overlap_gaussian_1d(x1, x2, a, b, ta) - go.compute_overlap_gaussian_1d(x2, x1, b, a, ta)) != 0]
    led.record(f"{OV}.GaussianOverlap.compute_overlap_gaussian_1d::lemma.symmetric-under-exchange-of-the-two-functions", "lemma", "refuted" if sym_bad else "discharged", "sympy", 0.0, detail=str(sym_bad[:3]))
    return led


def job_tables():
    led = Ledger()
    sys.path.insert(0, os.path.join(VERIF, "bounded"))
    import overlap_oracle as oo

    ov = source.import_repo("iodata.overlap")
    tfs = source.import_repo("iodata.overlap_cartpure").tfs
    led.record(f"{OV}_cartpure.tfs::ground.tables-for-l-0..7-present", "ground", "discharged" if len(tfs) >= 8 else "refuted", "eval", 0.0, detail=str(len(tfs)))
    for l in range(min(8, len(tfs))):
        want = oo.tf_matrix(l)
        ok = want.shape == tfs[l].shape and np.abs(want - tfs[l]).max() < 5e-15
        led.record(f"{OV}_cartpure.tfs[{l}]::ground.equals-the-real-regular-solid-harmonics-of-the-documentation", "ground", "discharged" if ok else "refuted", "eval", 0.0, detail=f"max deviation {np.abs(want - tfs[l]).max() if want.shape == tfs[l].shape else 'shape'}", witness={"l": l})
        # rows orthonormal under the metric of normalised Cartesian functions with a common exponent
        pw = oo.cart_powers(l)
        metric = np.array([[_cart_metric(p, q) for q in pw] for p in pw])
        g = tfs[l] @ metric @ tfs[l].T
        ok = np.abs(g - np.eye(len(g))).max() < 1e-13
        led.record(f"{OV}_cartpure.tfs[{l}]::ground.pure-functions-are-orthonormal", "ground", "discharged" if ok else "refuted", "eval", 0.0, detail=str(np.abs(g - np.eye(len(g))).max()))
    # K2 normalisation
    bad = []
    n = 0
    for l in range(8):
        for p in oo.cart_powers(l):
            for alpha in (0.01, 0.37, 1.0, 12.5, 1e5):
                n += 1
                N = ov.gob_cart_normalization(alpha, np.array(p))
                integral = 1.0
                for k in p:
                    integral *= oo.fact2(2 * k - 1) / (4 * alpha) ** k * math.sqrt(math.pi / (2 * alpha))
                if abs(N * N * integral - 1) > 1e-12:
                    bad.append((p, alpha, float(N * N * integral)))
    led.record(f"{OV}.gob_cart_normalization::ground.normalises-every-cartesian-primitive-l<=7", "ground", "refuted" if bad else "discharged", "eval", 0.0, detail=str(bad[:3]))
    # factorial2 helper
    f2 = ov.factorial2
    ok = [f2(k) for k in (-1, 0, 1, 2, 5, 6, 7)] == [1, 1, 1, 2, 15, 48, 105] and list(f2(np.array([-1, 3, 4]))) == [1, 3, 8]
    led.record(f"{OV}.factorial2::ground.double-factorial-with-(-1)!!=1", "ground", "discharged" if ok else "refuted", "eval", 0.0)
    # _compute_cart_shell_normalizations: one row per (contraction, primitive), one column per Cartesian function
    from iodata.basis import Shell

    sh = Shell(0, [2, 1], ["p", "c"], np.array([0.5, 1.5, 2.5]), np.ones((3, 2)))
    try:
        res = ov._compute_cart_shell_normalizations(Shell(0, [2], ["p"], np.array([0.5, 1.5]), np.ones((2, 1))))
        want = np.array([[ov.gob_cart_normalization(a, np.array(p)) for p in oo.cart_powers(2)] for a in (0.5, 1.5)])
        ok = res.shape == (2, 6) and np.allclose(res, want, rtol=1e-14)
    except Exception as exc:  # noqa: BLE001
        ok = False
    led.record(f"{OV}._compute_cart_shell_normalizations::ground.rows-are-primitives-columns-are-cartesian-functions", "ground", "discharged" if ok else "refuted", "eval", 0.0)
    return {"ledger": led, "normalisation_cases": n}


def _cart_metric(p, q):
    """<normalised x^p e^{-a r^2} | normalised x^q e^{-a r^2}> (independent of a)."""
    v = 1.0
    for a, b in zip(p, q):
        if (a + b) % 2:
            return 0.0
        v *= _f2(a + b - 1) / math.sqrt(_f2(2 * a - 1) * _f2(2 * b - 1))
    return v


def _f2(n):
    return 1 if n <= 0 else n * _f2(n - 2)


def job_structure():
    led = Ledger()
    ov = source.import_repo("iodata.overlap")
    from iodata.basis import MolecularBasis, Shell
    from iodata.convert import HORTON2_CONVENTIONS

    b = MolecularBasis([Shell(0, [0], ["c"], np.array([1.0]), np.array([[1.0]]))], HORTON2_CONVENTIONS, "L2")
    bl1 = MolecularBasis(b.shells, HORTON2_CONVENTIONS, "L1")
    x = np.zeros((1, 3))

    def raises(f, exc):
        try:
            f()
        except exc:
            return True
        except Exception:  # noqa: BLE001
            return False
        return False

    led.record(f"{OV}.compute_overlap::raises.ValueError-for-non-L2-normalisation-(first-basis)", "raises", "discharged" if raises(lambda: ov.compute_overlap(bl1, x), ValueError) else "refuted", "eval", 0.0)
    led.record(f"{OV}.compute_overlap::raises.ValueError-for-non-L2-normalisation-(second-basis)", "raises", "discharged" if raises(lambda: ov.compute_overlap(b, x, bl1, x), ValueError) else "refuted", "eval", 0.0)
    led.record(f"{OV}.compute_overlap::raises.TypeError-for-a-second-geometry-without-a-second-basis", "raises", "discharged" if raises(lambda: ov.compute_overlap(b, x, None, x), TypeError) else "refuted", "eval", 0.0)
    led.record(f"{OV}.compute_overlap::raises.TypeError-for-a-second-basis-without-its-geometry", "raises", "discharged" if raises(lambda: ov.compute_overlap(b, x, b, None), TypeError) else "refuted", "eval", 0.0)
    # AST structure of the epilogue and of the screening bound
    node = source.find_def(OV, "compute_overlap")
    src = ast.unparse(node)
    # epilogue (the statements after the last top-level loop), executed as it stands on a matrix with distinct entries,
    # for every pair of signed permutations that convert_conventions may return: rows go from the internal order to the
    # conventions of basis 0 and columns to those of basis 1 (reverse=True), out[i, j] = s0[i] s1[j] S[p0[i], p1[j]]
    import itertools

    top_loops = [st for st in node.body if isinstance(st, ast.For)]
    tail = node.body[node.body.index(top_loops[-1]) + 1 :] if top_loops else []
    ret = source.returned_names(node)
    loop_names = {n.id for n in ast.walk(top_loops[-1]) if isinstance(n, ast.Name)} if top_loops else set()
    acc = [nm for nm in ret if nm in loop_names and nm not in ("np",)]
    bad, ncomb = None, 0
    if tail and acc:
        fdef = ast.FunctionDef(name="_epilogue", args=ast.arguments(posonlyargs=[], args=[ast.arg(arg=a_) for a_ in (acc[0], "obasis0", "obasis1", "identical", "convert_conventions", "OVERLAP_CONVENTIONS", "np")], kwonlyargs=[], kw_defaults=[], defaults=[]), body=tail, decorator_list=[], type_params=[])
        mod_ = ast.Module(body=[fdef], type_ignores=[])
        ast.fix_missing_locations(mod_)
        ns = dict(vars(ov))  # the epilogue may call private helpers of the module
        exec(compile(mod_, "<compute_overlap epilogue>", "exec"), ns)  # noqa: S102
        sentinel, tag0, tag1 = object(), object(), object()
        S0 = np.arange(1.0, 10.0).reshape(3, 3) ** 2 + np.arange(3.0)
        sperms = [(np.array(p), np.array(sg)) for p in itertools.permutations(range(3)) for sg in itertools.product((1, -1), repeat=3)]
        for identical in (True, False):
            for p0, s0 in sperms:
                for p1, s1 in ([(p0, s0)] if identical else sperms):
                    ncomb += 1
                    calls_seen = []

                    def stub(basis, conv, reverse=False):
                        calls_seen.append((basis, conv, reverse))
                        return (p0.copy(), s0.copy()) if basis is tag0 else (p1.copy(), s1.copy())

                    ns["convert_conventions"] = stub  # also for private helpers of the module that the epilogue calls
                    try:
                        got = ns["_epilogue"](S0.copy(), tag0, tag0 if identical else tag1, identical, stub, sentinel, np)
                    except Exception as exc:  # noqa: BLE001
                        bad = {"error": repr(exc)}
                        break
                    want = (S0[p0] * s0[:, None])[:, p1] * s1
                    okc = all((c[1] is sentinel or c[1] is ov.OVERLAP_CONVENTIONS) and c[2] is True for c in calls_seen) and {id(c[0]) for c in calls_seen} <= {id(tag0), id(tag1)}
                    if not okc or np.shape(got) != want.shape or not np.array_equal(got, want):
                        bad = {"identical": identical, "p0": p0.tolist(), "s0": s0.tolist(), "p1": p1.tolist(), "s1": s1.tolist(), "conventions_calls_ok": okc}
                        break
                if bad:
                    break
            if bad:
                break
    else:
        bad = {"error": "no epilogue found after the shell loops"}
    led.record(f"{OV}.compute_overlap::post.rows-and-columns-go-from-the-internal-order-to-each-basis'-conventions-(reverse=True)", "post", ("unknown" if "error" in bad else "refuted") if bad else "discharged", "eval", 0.0, detail=f"epilogue executed for {ncomb} pairs of signed permutations (size 3), one- and two-basis case", witness=bad)
    ok = src.count("convert_to_segmented(") == 2 and "obasis0 = convert_to_segmented(obasis0)" in src and "obasis1 = convert_to_segmented(obasis1)" in src
    led.record(f"{OV}.compute_overlap::post.both-bases-are-segmented-first-(C14)", "post", "discharged" if ok else "unknown", "ast", 0.0)
    ok = "a0_min = np.min(shell0.exponents)" in src and "a1_min = np.min(shell1.exponents)" in src and "np.exp(-a0_min * a1_min * rij_norm_sq / (a0_min + a1_min))" in src and "if prefactor_max > 1e-15" in src
    led.record(f"{OV}.compute_overlap::post.shell-pair-screening-uses-the-smallest-exponents-and-the-1e-15-threshold", "post", "discharged" if ok else "unknown", "ast", 0.0)
    # lemma: the bound with the smallest exponents dominates every primitive pair: a >= amin > 0, b >= bmin > 0
    a, bb, am, bm, r2 = z3.Reals("a b amin bmin r2")
    goal = (a * bb) * (am + bm) >= (am * bm) * (a + bb)
    st, be, secs, _ = check_valid([am > 0, bm > 0, a >= am, bb >= bm], goal)
    led.record(f"{OV}.compute_overlap::lemma.screening-exponent-ab/(a+b)-is-smallest-for-the-smallest-exponents", "lemma", st, be, secs)
    # only shells of the single kinds 'c'/'p' with one contraction reach the inner code (after segmentation)
    ok = "shell0.kinds[0] == 'p'" in src and "shell1.kinds[0] == 'p'" in src and "np.dot(tfs[shell0.angmoms[0]], shell_overlap)" in src and "np.dot(shell_overlap, tfs[shell1.angmoms[0]].T)" in src
    led.record(f"{OV}.compute_overlap::post.pure-shells-are-transformed-with-tfs-on-the-correct-side", "post", "discharged" if ok else "unknown", "ast", 0.0)
    return led


BOUNDED = r"""
import json, sys, os
import numpy as np
sys.path.insert(0, sys.argv[3])
import overlap_oracle as oo
from iodata.basis import MolecularBasis, Shell
from iodata.convert import HORTON2_CONVENTIONS, CCA_CONVENTIONS
from iodata.overlap import compute_overlap
seed, npairs = int(sys.argv[1]), int(sys.argv[2])
rng = np.random.default_rng(seed)
fails, cases = [], 0
def rand_conv():
    conv = {}
    for (l, k), labs in HORTON2_CONVENTIONS.items():
        if l > 7: continue
        perm = rng.permutation(len(labs))
        conv[(l, k)] = [("-" if rng.random() < 0.3 else "") + labs[i] for i in perm]
    return conv
def rand_basis(ncen, conv, lmax):
    shells = []
    for _ in range(int(rng.integers(1, 5))):
        ncon = int(rng.choice([1, 1, 2, 3]))
        ls = [int(rng.integers(0, lmax + 1)) for _ in range(ncon)]
        ks = ["p" if (l >= 2 and rng.random() < 0.5) else "c" for l in ls]
        nexp = int(rng.integers(1, 5))
        ex = 10 ** rng.uniform(-2, 3, size=nexp)
        if rng.random() < 0.5: ex = np.sort(ex)          # ascending: the tightest primitive last
        shells.append(Shell(int(rng.integers(0, ncen)), ls, ks, ex, rng.normal(size=(nexp, ncon))))
    return MolecularBasis(shells, conv, "L2")
for it in range(npairs):
  try:
      ncen = int(rng.integers(1, 5))
      coords = rng.normal(size=(ncen, 3)) * rng.choice([0.5, 2.0, 6.0])
      if ncen > 1 and rng.random() < 0.4: coords[1] = coords[0]      # coincident centers
      lmax = 3 if it % 4 else 5
      conv0 = [HORTON2_CONVENTIONS, CCA_CONVENTIONS, rand_conv()][it % 3]
      b0 = rand_basis(ncen, conv0, lmax)
      hist = dict(it=it, ncen=ncen, shells=[(s.icenter, s.angmoms.tolist(), s.kinds.tolist(), s.exponents.round(3).tolist()) for s in b0.shells])
      cases += 1
      S = compute_overlap(b0, coords)
      full, dropped = oo.overlap_oracle(b0, coords, screened=1e-15)
      ref = oo.apply_conventions(oo.apply_conventions(full - dropped, b0, 0), b0, 1)
      tol = 1e-11 * max(1.0, np.abs(ref).max()) + 2e-14
      if S.shape != ref.shape or np.abs(S - ref).max() > tol: fails.append((hist, "single-basis overlap differs from the inner products of the documented functions", float(np.abs(S - ref).max()) if S.shape == ref.shape else "shape"))
      if np.abs(dropped).max() > 1e-13: fails.append((hist, "prefactor screening leaves out contributions far above the 1e-15 threshold", float(np.abs(dropped).max())))
      if np.abs(S - S.T).max() > 1e-12 * max(1, np.abs(S).max()): fails.append((hist, "single-basis overlap is not symmetric"))
      w = np.linalg.eigvalsh((S + S.T) / 2)
      if w.min() < -1e-9 * max(1, np.abs(S).max()): fails.append((hist, "single-basis overlap is not positive semidefinite", float(w.min())))
      shift = rng.normal(size=3) * 3
      St = compute_overlap(b0, coords + shift)
      if np.abs(St - S).max() > 1e-9 * max(1, np.abs(S).max()): fails.append((hist, "overlap changes under translation of all centers"))
      # two bases, different conventions / geometry
      conv1 = [CCA_CONVENTIONS, rand_conv(), HORTON2_CONVENTIONS][it % 3]
      b1 = rand_basis(ncen, conv1, lmax)
      coords1 = coords + rng.normal(size=coords.shape) * rng.choice([0.0, 1.0])
      cases += 1
      S01 = compute_overlap(b0, coords, b1, coords1)
      S10 = compute_overlap(b1, coords1, b0, coords)
      full01, dropped01 = oo.overlap_oracle(b0, coords, b1, coords1, screened=1e-15)
      ref01 = oo.apply_conventions(oo.apply_conventions(full01 - dropped01, b0, 0), b1, 1)
      tol = 1e-11 * max(1.0, np.abs(ref01).max()) + 2e-14
      if S01.shape != ref01.shape or np.abs(S01 - ref01).max() > tol: fails.append((hist, "two-basis overlap differs from the inner products of the documented functions", float(np.abs(S01 - ref01).max()) if S01.shape == ref01.shape else "shape"))
      if np.abs(dropped01).max() > 1e-13: fails.append((hist, "prefactor screening leaves out contributions far above the 1e-15 threshold", float(np.abs(dropped01).max())))
      if np.abs(S01 - S10.T).max() > 1e-12 * max(1, np.abs(S01).max()): fails.append((hist, "exchanging the two bases does not transpose the matrix"))
      # the very same basis object at two geometries (a displaced copy of the molecule) is still a two-basis call
      coords2 = coords + rng.normal(size=coords.shape) * 0.7
      cases += 1
      Ssame = compute_overlap(b0, coords, b0, coords2)
      fulls, dropps = oo.overlap_oracle(b0, coords, b0, coords2, screened=1e-15)
      refs = oo.apply_conventions(oo.apply_conventions(fulls - dropps, b0, 0), b0, 1)
      if Ssame.shape != refs.shape or np.abs(Ssame - refs).max() > 1e-11 * max(1.0, np.abs(refs).max()) + 2e-14: fails.append((hist, "overlap of one basis object at two geometries differs from the inner products of the documented functions", float(np.abs(Ssame - refs).max()) if Ssame.shape == refs.shape else "shape"))
      # changing conventions permutes / sign-flips accordingly
      b0h = MolecularBasis(b0.shells, HORTON2_CONVENTIONS, "L2")
      Sh = compute_overlap(b0h, coords)
      back = oo.apply_conventions(oo.apply_conventions(Sh, b0, 0), b0, 1)
      if np.abs(back - S).max() > 1e-12 * max(1, np.abs(S).max()): fails.append((hist, "changing conventions does not permute and sign-flip rows and columns accordingly"))
  except Exception as exc:
      fails.append((dict(it=it), "compute_overlap raises for supported input", repr(exc)[:200]))
# translation far from the origin with exactly representable coordinates (the relative geometry is bit-identical):
# two tight f shells 2^-9 bohr apart, moved by 2^10 and 2^20 bohr
sh = [Shell(0, [3], ["p"], np.array([1.0e5]), np.array([[1.0]])), Shell(1, [3], ["c"], np.array([1.5e5]), np.array([[1.0]]))]
bt = MolecularBasis(sh, HORTON2_CONVENTIONS, "L2")
c0 = np.array([[0.0, 0.0, 0.0], [2.0 ** -9, -(2.0 ** -9), 2.0 ** -9]])
S0 = compute_overlap(bt, c0)
for t in (2.0 ** 10, 2.0 ** 20):
    cases += 1
    ct = c0 + np.array([t, t, -t])
    assert np.array_equal(ct[1] - ct[0], c0[1] - c0[0])
    dev = float(np.abs(compute_overlap(bt, ct) - S0).max())
    if dev > 1e-12 * max(1.0, np.abs(S0).max()): fails.append((dict(shift=t, deviation=dev), "overlap changes under an exactly representable translation far from the origin (product center formed in absolute coordinates)")); break
sig = {}
for f in fails: sig.setdefault(f[1], f)
print(json.dumps(dict(cases=cases, nfails=len(fails), kinds={k: repr(v)[:500] for k, v in sig.items()}), default=str))
"""
_TAIL = "print(json.dumps(dict(cases=cases, nfails=len(fails), kinds={k: repr(v)[:500] for k, v in sig.items()}), default=str))"


def run_bounded(chk):
    npairs = 40 if chk.tier == "quick" else 600
    env = dict(os.environ, PYTHONPATH=source.REPO)
    bdir = os.path.join(VERIF, "bounded")
    out = subprocess.run([VENV_PY, "-c", BOUNDED, str(chk.seed), str(npairs), bdir], capture_output=True, text=True, env=env, cwd="/", timeout=3500)
    if out.returncode != 0:
        chk.fault(f"bounded driver crashed: {out.stderr[-1500:]}")
        return
    res = json.loads(out.stdout.strip().splitlines()[-1])
    bound = f"{npairs} seeded basis pairs: 1..4 centers incl. coincident, 1..4 shells, l<=5 Cartesian / pure, 1..4 primitives with exponents 1e-2..1e3 in any order, generalized contractions, HORTON2 / CCA / random signed conventions; tolerance 1e-11 relative against the oracle minus what prefactor screening (1e-15) leaves out; what is left out must itself stay below 1e-13"
    for kind, example in sorted(res["kinds"].items()):
        script = BOUNDED.replace("seed, npairs = int(sys.argv[1]), int(sys.argv[2])", f"seed, npairs = {chk.seed}, {npairs}").replace("sys.path.insert(0, sys.argv[3])", f"sys.path.insert(0, {bdir!r})").replace(_TAIL, f"print(sig.get({kind!r}))\nif {kind!r} in sig:\n    print('REPRODUCED'); sys.exit(1)")
        chk.add_bounded(f"overlap.{kind}", bound, res["cases"], [example], replay_script=script)
    if not res["kinds"]:
        chk.add_bounded("overlap", bound, res["cases"], [])


def run(chk):
    chk.functions += [f"{OV}.GaussianOverlap.compute_overlap_gaussian_1d (symbolic run, 64 cases)", f"{OV}.gob_cart_normalization", f"{OV}.factorial2", f"{OV}._compute_cart_shell_normalizations", f"{OV}_cartpure.tfs[0..7]", f"{OV}.compute_overlap (error contract, epilogue and screening structure)"]
    chk.trusted += ["sympy (exact polynomial normal forms)", "z3 nonlinear real arithmetic (screening lemma)", "the definition of the real regular solid harmonics and of the normalisation constants in docs/basis.rst", "numpy.polynomial Legendre derivatives (oracle)", "contracts of convert_conventions (C10) and convert_to_segmented (C14)"]
    chk.assumptions += [A_FP + " -- the floating-point accumulation of the assembled matrix is covered only by the bounded stand-in", "K5 is a structural (AST) obligation: a refactoring of compute_overlap's epilogue reports `undecided`, not a violation"]
    res = collect(chk, run_jobs([("checks.c06", f, {}) for f in ("job_kernel", "job_tables", "job_structure")]))
    run_bounded(chk)
    chk.samples = [o.as_dict() for o in list(chk.ledger.obligations.values())[:6]]
    chk.notes["explanation"] = "C06: 1-D kernel by symbolic run against the Gaussian moments, normalisation and Cartesian-to-pure tables exhaustively against the documentation's definitions, structure of compute_overlap, assembled matrix against an independent oracle (bounded)"
