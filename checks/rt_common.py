"""Shared by C02 and C15: the writer-record analysis of the 13 read/write formats and the save/reload probe."""

from __future__ import annotations

import json
import os
import subprocess

from pyvc import fmtspec, source
from pyvc.report import VENV_PY, VERIF

RW_FORMATS = ["xyz", "pdb", "mol2", "sdf", "poscar", "cube", "fcidump", "json_qcschema", "fchk", "molden", "molekel", "wfn", "wfx"]

# convert_conventions returns signs in {+1, -1} (post.signs-are-plus-or-minus-one, proved in C10): multiplying by them is exact
EXACT_FACTORS = ("signs",)


def float_fields(fmt):
    """[(record, field, origin)] for every float-formatted field the writer of `fmt` prints."""
    out = []
    for rec in fmtspec.records("iodata.formats." + fmt):
        for f in fmtspec.all_fields(rec):
            if f.kind == "float":
                out.append((rec, f, fmtspec.trace(f, EXACT_FACTORS)))
    return out


def field_name(fmt, rec, f, org=None):
    """Name of a printed field in obligation names: format, provenance (fmtspec.identity) and format spec - not the local
    variable names of the writer, so that renaming a local or moving a record into a helper keeps the name."""
    return f"{fmt}:{{{fmtspec.identity(f, org)}:{f.spec}}}"


def opaque_records(fmt):
    out = []
    for rec in fmtspec.records("iodata.formats." + fmt):
        if any(p[0] == "opaque" for p in rec.parts):
            out.append(f"{fmt}.{rec.func} line {rec.line}: {rec.text()[:80]}")
    return out


def run_probe(chk, which):
    """Run bounded/roundtrip_probe.py on the tree under check and register its groups for property `which`."""
    env = dict(os.environ, PYTHONPATH=source.REPO)
    probe = os.path.join(VERIF, "bounded", "roundtrip_probe.py")
    out = subprocess.run([VENV_PY, probe, str(chk.seed), chk.tier], capture_output=True, text=True, env=env, cwd="/", timeout=7000)
    if out.returncode != 0:
        chk.fault(f"round-trip probe crashed: {out.stderr[-1500:]}")
        return None
    res = json.loads(out.stdout.strip().splitlines()[-1])
    fails = res[which]
    groups = {}
    for f in fails:
        groups.setdefault(f["group"], []).append(f)
    bound = {
        "c02": "objects per format: 1..101 atoms (quick) / 1..12000 atoms (thorough), every element class, ordinary / wide / column-filling coordinates, chain + star bond graphs of every bond type, optional attributes present and absent, XYZ with 4 user-defined column sets, cube grids of 4 shapes x 3 memory layouts, FCIDUMP with 1..5 orbitals, FCHK with every optional section x 4 run types, corpus files of each wavefunction format; every corpus file (<= 60 kB quick, all thorough) converted to every format that accepts it",
        "c15": "the same objects, three save/reload generations: generation 2 == generation 1 bit for bit (sha256 over dtype, shape, bytes of every attribute), file 3 == file 2 byte for byte",
    }[which]
    ncase = res["cases"][which]
    per_fmt = res.get("cases_by_format", {}).get(which, {})
    for fmt in RW_FORMATS:
        chk.add_bounded(f"roundtrip.{fmt}", bound, per_fmt.get(fmt, 0), [], note="failures, if any, are listed under roundtrip.<format>.<symptom> groups")
    for g, fl in sorted(groups.items()):
        script = (
            "import subprocess, sys, json, os\n"
            f"env = dict(os.environ, PYTHONPATH=os.environ.get('PYVC_REPO', '/repo'))\n"
            f"r = subprocess.run([sys.executable, {probe!r}, '{chk.seed}', '{chk.tier}'], capture_output=True, text=True, env=env)\n"
            "res = json.loads(r.stdout.strip().splitlines()[-1])\n"
            f"hits = [f for f in res[{which!r}] if f['group'] == {g!r}]\n"
            "print(hits[:2])\n"
            "if hits:\n    print('REPRODUCED'); sys.exit(1)\n"
        )
        chk.add_bounded(f"roundtrip.{g}", bound, ncase, fl, replay_script=script)
    return res
