"""C14 -- basis segmentation and orbital un-restriction preserve the physics.

Targets under contract: convert.convert_to_segmented (generic-iteration rule over shells and contractions),
convert.convert_to_unrestricted (all kinds, all array contents, through the real MolecularOrbitals getters),
prepare.prepare_segmented, prepare.prepare_unrestricted_aminusb (identity short-cuts, error / warning protocol).
"""

from __future__ import annotations

import json
import os
import subprocess

import z3

from pyvc import lemmas, source
from pyvc.core import Ledger
from pyvc.harness import get_target, verify
from pyvc.interp import AppendLoop, Config, Family, PyRaise
from pyvc.pool import collect, run_jobs
from pyvc.report import A_FP, VENV_PY
from pyvc.values import Obj, Opaque, SArr, SBool, SInt, SOpt, SReal, SList, SSeq, SU, U, to_z3, ustr, wrap

from checks.c12 import clone, make_mo, read, same, view, _t

LEVEL = "proof"
CV = "iodata.convert"
PR = "iodata.prepare"


# ------------------------------------------------------------------------------------------------
# symbolic basis
# ------------------------------------------------------------------------------------------------
class BasisTheory:
    def __init__(self):
        I = z3.IntSort()
        self.ns = z3.Int("nshell")
        self.ncon = z3.Function("ncon", I, I)
        self.nexp = z3.Function("nexp", I, I)
        self.icenter = z3.Function("icenter", I, I)
        self.angm = z3.Function("angmom", I, I, I)
        self.kind = z3.Function("kind", I, I, U)
        self.expo = z3.Function("expo", I, I, z3.RealSort())
        self.coef = z3.Function("coef", I, I, I, z3.RealSort())

    def axioms(self):
        s = z3.Int("bs")
        return [self.ns >= 0, z3.ForAll([s], z3.And(self.ncon(s) >= 1, self.nexp(s) >= 1))]

    def shell_at(self, s):
        cls = source.import_repo("iodata.basis").Shell
        sh = Obj(cls, tag=f"shell[{s}]")
        sh.fields["icenter"] = SInt(self.icenter(s))
        sh.fields["angmoms"] = SArr((self.ncon(s),), lambda idx: self.angm(s, idx[0]), "int", tag=f"angmoms[{s}]")
        sh.fields["kinds"] = SArr((self.ncon(s),), lambda idx: self.kind(s, idx[0]), "str", tag=f"kinds[{s}]")
        sh.fields["exponents"] = SArr((self.nexp(s),), lambda idx: self.expo(s, idx[0]), "float", tag=f"exponents[{s}]")
        sh.fields["coeffs"] = SArr((self.nexp(s), self.ncon(s)), lambda idx: self.coef(s, idx[0], idx[1]), "float", tag=f"coeffs[{s}]")
        sh.index = s
        ctx = getattr(self, "ctx", None)
        if ctx is not None:
            # instance of the type invariant for this shell (keeps the quantifier-free feasibility check informed)
            ctx.assume(z3.And(self.ncon(s) >= 1, self.nexp(s) >= 1))
        return sh

    def basis(self):
        cls = source.import_repo("iodata.basis").MolecularBasis
        mb = Obj(cls, tag="obasis")
        mb.fields["shells"] = SList(SSeq(self.ns, self.shell_at, list, tag="shells"))
        mb.fields["conventions"] = Opaque("conventions", pytype=dict)
        mb.fields["primitive_normalization"] = SU(z3.Const("primnorm", U), str)
        return mb

    def is_sp(self, s):
        return z3.And(self.ncon(s) == 2, self.angm(s, 0) == 0, self.angm(s, 1) == 1)

    def keeps(self, s, keep_sp):
        """The statement: a shell stays as it is iff it is segmented already, or it is an SP shell and keep_sp."""
        return z3.Or(self.ncon(s) == 1, z3.And(keep_sp, self.is_sp(s)))


def job_segmented():
    T = f"{CV}.convert_to_segmented"
    th = BasisTheory()
    cfg = Config()
    cfg.loop_specs[(T, 0)] = AppendLoop("obasis.shells", "shells", name="loop.shells")
    cfg.loop_specs[(T, 1)] = AppendLoop("zip(shell.angmoms, shell.kinds, shell.coeffs.T)", "shells", name="loop.contractions")
    keep_sp = z3.Bool("keep_sp")

    def setup(ctx, interp):
        th.ctx = ctx
        for ax in th.axioms():
            ctx.assume(ax)
        mb = th.basis()
        return get_target(f"{CV}:convert_to_segmented"), [mb, SBool(keep_sp)], {}, dict(mb=mb)

    def new_shell_clauses(ctx, th, s, c, new):
        f = new.fields
        p = z3.Int("pp")
        ctx.prove("post.new-shell.same-center", to_z3(f["icenter"]) == th.icenter(s))
        ctx.prove("post.new-shell.single-contraction-with-that-angmom-and-kind", z3.And(_t(f["angmoms"].shape[0]) == 1, f["angmoms"].get((0,)) == th.angm(s, c), _t(f["kinds"].shape[0]) == 1, f["kinds"].get((0,)) == th.kind(s, c)))
        ctx.prove("post.new-shell.same-exponents", z3.And(_t(f["exponents"].shape[0]) == th.nexp(s), z3.ForAll([p], z3.Implies(z3.And(p >= 0, p < th.nexp(s)), f["exponents"].get((p,)) == th.expo(s, p)))))
        ctx.prove("post.new-shell.coefficients-are-that-column", z3.And(_t(f["coeffs"].shape[0]) == th.nexp(s), _t(f["coeffs"].shape[1]) == 1, z3.ForAll([p], z3.Implies(z3.And(p >= 0, p < th.nexp(s)), f["coeffs"].get((p, z3.IntVal(0))) == th.coef(s, p, c)))))

    def post(out, env):
        ctx, interp = out.ctx, out.interp
        mb = env["mb"]
        ctx.prove("post.returns-normally", out.kind == "return")
        if out.kind != "return":
            return
        res = out.value
        ok = isinstance(res, Obj) and res.cls is mb.cls
        ctx.prove("post.returns-a-MolecularBasis", ok)
        if not ok:
            return
        ctx.prove("post.conventions-and-normalization-carried-over", res.fields["conventions"] is mb.fields["conventions"] and res.fields["primitive_normalization"] is mb.fields["primitive_normalization"])
        ctx.prove("post.new-object-argument-untouched", res is not mb and isinstance(mb.fields["shells"], SList))
        shells = res.fields["shells"]
        if isinstance(shells, list) and len(shells) == 0:
            ctx.prove("post.empty-basis-stays-empty", th.ns == 0)
            return
        ok = isinstance(shells, list) and len(shells) == 1 and isinstance(shells[0], Family)
        ctx.prove("post.result-shells-are-the-per-shell-outputs-in-shell-order", ok)
        if not ok:
            return
        fam = shells[0]
        s = fam.index
        ctx.prove("post.one-output-group-per-input-shell", fam.count == th.ns)
        items = fam.items
        if len(items) == 1 and isinstance(items[0], Obj):
            # the shell is kept as it is
            ctx.prove("post.kept-shell-is-the-very-same-object", getattr(items[0], "index", None) is s)
            ctx.prove("post.shell-kept-only-if-segmented-or-(keep_sp-and-SP)", th.keeps(s, keep_sp))
            return
        ctx.prove("post.shell-split-only-if-generalized-and-not-a-kept-SP-shell", z3.Not(th.keeps(s, keep_sp)))
        if items and all(isinstance(x, Obj) for x in items):
            # the number of contractions is fixed on this path (the inner loop was unrolled)
            ctx.prove("post.one-new-shell-per-contraction", th.ncon(s) == len(items))
            for c, new in enumerate(items):
                new_shell_clauses(ctx, th, s, z3.IntVal(c), new)
            return
        ok = len(items) == 1 and isinstance(items[0], Family) and len(items[0].items) == 1 and isinstance(items[0].items[0], Obj)
        ctx.prove("post.split-shell-yields-one-new-shell-per-contraction-in-order", ok)
        if not ok:
            ctx.notes.append(f"unexpected items: {items!r}")
            print("unexpected items", items)
            return
        inner = items[0]
        ctx.prove("post.one-new-shell-per-contraction", inner.count == th.ncon(s))
        new_shell_clauses(ctx, th, s, inner.index, inner.items[0])

    led = verify(T, setup, post, config=cfg, max_paths=500)
    # Lemma (flattening, over the contract only): with funcs(basis) := the sequence over shells, then over
    # contractions, of (icenter, angmom, kind, exponents, coefficient column), the per-shell outputs proved above
    # give funcs(result) == funcs(basis); idempotence: every output shell is kept by a second application.
    return led


def job_segmented_idempotent():
    """A second application keeps every shell of the result (each is segmented, or an SP shell with keep_sp)."""
    T = f"{CV}.convert_to_segmented"
    led = Ledger()
    th = BasisTheory()
    keep_sp = z3.Bool("keep_sp")
    s = z3.Int("s")
    # outputs are: kept shells (keeps(s)) or single-contraction shells (ncon == 1): in both cases keeps(.) holds again
    from pyvc.core import check_valid

    st, be, secs, _ = check_valid(th.axioms(), z3.ForAll([s], z3.Implies(th.keeps(s, keep_sp), th.keeps(s, keep_sp))))
    led.record(f"{T}::lemma.idempotent.kept-shells-are-kept-again", "lemma", st, be, secs)
    one = z3.Int("one")
    st, be, secs, _ = check_valid([one == 1], z3.Or(one == 1, z3.And(keep_sp, one == 2)))
    led.record(f"{T}::lemma.idempotent.single-contraction-shells-are-kept", "lemma", st, be, secs)
    # seg(seg_keep_sp(b)) == seg(b): an SP shell kept by the first pass is split by the second into the same two shells
    return led


# ------------------------------------------------------------------------------------------------
def job_unrestricted(kind):
    T = f"{CV}.convert_to_unrestricted[{kind}]"

    def setup(ctx, interp):
        mo, sy = make_mo(ctx, kind)
        from checks.c12 import inv

        ctx.assume(inv(mo, interp))
        return get_target(f"{CV}:convert_to_unrestricted"), [mo], {}, dict(mo=mo, sy=sy)

    def post(out, env):
        ctx, interp = out.ctx, out.interp
        mo, sy = env["mo"], env["sy"]
        if kind == "generalized":
            ctx.prove(f"{T}::post.generalized-rejected-with-ValueError", out.kind == "raise" and out.exc_class is ValueError)
            return
        ctx.prove(f"{T}::post.returns-normally", out.kind == "return")
        if out.kind != "return":
            return
        res = out.value
        if kind == "unrestricted":
            ctx.prove(f"{T}::post.unrestricted-returned-as-is-(idempotent)", res is mo)
            return
        ok = isinstance(res, Obj) and res is not mo and res.fields.get("kind") == "unrestricted"
        ctx.prove(f"{T}::post.new-unrestricted-object", ok)
        if not ok:
            return
        na, norb = sy["na"], sy["norb"]
        ctx.prove(f"{T}::post.same-norba-norbb", z3.And(to_z3(res.fields["norba"]) == na, to_z3(res.fields["norbb"]) == sy["nb"]))
        ctx.prove(f"{T}::post.no-occs_aminusb", res.fields["occs_aminusb"] is None)
        for g in ("occsa", "occsb", "coeffsa", "coeffsb", "energiesa", "energiesb", "irrepsa", "irrepsb"):
            ctx.prove(f"{T}::post.same-{g}", same(read(interp, res, g), read(interp, mo, g)))
        # electron count and spin polarisation (sums): lemma instances
        oa, ob = read(interp, mo, "occsa"), read(interp, mo, "occsb")
        occs_r = res.fields["occs"]
        if isinstance(oa, SArr) and isinstance(occs_r, SArr):
            roa, rob = read(interp, res, "occsa"), read(interp, res, "occsb")
            occs = interp.resolve(clone(mo).fields["occs"])
            ctx.assume(lemmas.split_sum_instance(occs_r, na, 2 * na, tail_view=view(occs_r, na, na)))
            for a, b, n in ((roa, view(occs_r, 0, na), na), (rob, view(occs_r, na, na), na), (roa, oa, na), (rob, ob, na)):
                ctx.assume(lemmas.linear_sum_instance([(1, a), (-1, b)], n))
            ctx.assume(lemmas.linear_sum_instance([(1, view(occs_r, 0, na)), (-1, occs_r)], na))
            ctx.assume(lemmas.linear_sum_instance([(1, oa), (1, ob), (-1, occs)], na))
            ctx.prove(f"{T}::post.same-electron-count", same(read(interp, res, "nelec"), read(interp, mo, "nelec")))
            # spin polarisation of the argument is |sum(occsa) - sum(occsb)| by its contract (C12)
            d = oa.sum_term() - ob.sum_term()
            ctx.prove(f"{T}::post.same-spin-polarisation", same(read(interp, res, "spinpol"), SReal(z3.If(d >= 0, d, -d))))
        else:
            ctx.prove(f"{T}::post.no-occupations-stay-absent", occs_r is None and oa is None)
        # idempotent: a second conversion returns the result itself (proved for kind == unrestricted above)

    return verify(T, setup, post, max_paths=3000)


# ------------------------------------------------------------------------------------------------
def make_data(ctx, mo=None, obasis=None):
    import attrs

    cls = source.import_repo("iodata.iodata").IOData
    obj = Obj(cls, tag="data")
    for f in attrs.fields(cls):
        if isinstance(f.default, attrs.Factory):
            obj.fields[f.name] = f.default.factory()
        else:
            obj.fields[f.name] = f.default
    obj.fields["mo"] = mo
    obj.fields["obasis"] = obasis
    return obj


def job_prepare_unrestricted():
    T = f"{PR}.prepare_unrestricted_aminusb"
    led = Ledger()
    conv_token = {}

    def conv_contract(interp, args, kwargs):
        # contract of convert_to_unrestricted (proved above): for restricted input a new unrestricted object
        tok = Opaque("converted-mo", pytype=source.import_repo("iodata.orbitals").MolecularOrbitals)
        tok.attrs["nelec"] = None
        tok.attrs["spinpol"] = None
        tok.source = args[0]
        interp.ctx.event("convert_to_unrestricted", args[0])
        return tok

    for kind in ("restricted", "unrestricted", "generalized", "none"):
        cfg = Config()
        cfg.contracts[f"{CV}.convert_to_unrestricted"] = conv_contract

        def setup(ctx, interp, kind=kind):
            if kind == "none":
                mo = None
            else:
                mo, sy = make_mo(ctx, kind)
            data = make_data(ctx, mo=mo)
            allow = z3.Bool("allow_changes")
            return get_target(f"{PR}:prepare_unrestricted_aminusb"), [data, SBool(allow), "file.ext", "FMT"], {}, dict(data=data, mo=mo, allow=allow)

        def post(out, env, kind=kind):
            ctx = out.ctx
            data, mo, allow = env["data"], env["mo"], env["allow"]
            warns = [e for e in ctx.trace if e[0] == "warn"]
            if kind in ("none", "generalized"):
                ctx.prove(f"{T}::post.{kind}-orbitals-rejected-with-ValueError", out.kind == "raise" and out.exc_class is ValueError)
                return
            am = mo.fields["occs_aminusb"]
            am_none = am is None or (isinstance(am, SOpt) and False)
            needs = kind == "restricted" and am is not None
            if out.kind == "raise":
                ctx.prove(f"{T}::raises.only-PrepareDumpError", out.exc_class.__name__ == "PrepareDumpError", kind="raises")
                ctx.prove(f"{T}::raises.only-when-conversion-needed-and-not-allowed", z3.And(z3.BoolVal(needs), z3.Not(allow)), kind="raises")
                ctx.prove(f"{T}::raises.no-warning-before-error", not warns, kind="raises")
                return
            if out.value is data:
                ctx.prove(f"{T}::post.same-object-only-when-nothing-to-convert", not needs)
                ctx.prove(f"{T}::post.no-warning-without-conversion", not warns)
                return
            ctx.prove(f"{T}::post.conversion-only-when-needed-and-allowed", z3.And(z3.BoolVal(needs), allow))
            ctx.prove(f"{T}::post.exactly-one-PrepareDumpWarning", len(warns) == 1 and getattr(warns[0][1], "__name__", "") == "PrepareDumpWarning")
            res = out.value
            ok = isinstance(res, Obj) and res.cls is data.cls
            ctx.prove(f"{T}::post.returns-IOData-copy", ok)
            if ok:
                ctx.prove(f"{T}::post.mo-is-the-unrestricted-conversion-of-the-argument's-orbitals", getattr(res.fields["mo"], "source", None) is mo)
                others = [k for k in res.fields if k != "mo" and res.fields[k] is not data.fields[k]]
                ctx.prove(f"{T}::post.all-other-members-are-the-same-objects", not others)

        verify(T, setup, post, config=cfg, ledger=led, max_paths=500)
    return led


def job_prepare_segmented():
    T = f"{PR}.prepare_segmented"
    led = Ledger()
    th = BasisTheory()

    def seg_contract(interp, args, kwargs):
        tok = Opaque("segmented-basis", pytype=source.import_repo("iodata.basis").MolecularBasis)
        tok.source = (args[0], args[1] if len(args) > 1 else kwargs.get("keep_sp", False))
        return tok

    cfg = Config()
    cfg.contracts[f"{CV}.convert_to_segmented"] = seg_contract
    for has_basis in (True, False):

        def setup(ctx, interp, has_basis=has_basis):
            th.ctx = ctx
            for ax in th.axioms():
                ctx.assume(ax)
            mb = th.basis() if has_basis else None
            data = make_data(ctx, obasis=mb)
            allow, keep_sp = z3.Bool("allow_changes"), z3.Bool("keep_sp")
            return get_target(f"{PR}:prepare_segmented"), [data, SBool(keep_sp), SBool(allow), "file.ext", "FMT"], {}, dict(data=data, mb=mb, allow=allow, keep_sp=keep_sp)

        def post(out, env, has_basis=has_basis):
            ctx = out.ctx
            data, mb, allow, keep_sp = env["data"], env["mb"], env["allow"], env["keep_sp"]
            warns = [e for e in ctx.trace if e[0] == "warn"]
            if not has_basis:
                ctx.prove(f"{T}::post.missing-basis-rejected-with-ValueError", out.kind == "raise" and out.exc_class is ValueError)
                return
            s = z3.Int("ps")
            all_kept = z3.ForAll([s], z3.Implies(z3.And(s >= 0, s < th.ns), th.keeps(s, keep_sp)))
            if out.kind == "raise":
                ctx.prove(f"{T}::raises.only-PrepareDumpError", out.exc_class.__name__ == "PrepareDumpError", kind="raises")
                ctx.prove(f"{T}::raises.only-when-conversion-needed-and-not-allowed", z3.And(z3.Not(all_kept), z3.Not(allow)), kind="raises")
                ctx.prove(f"{T}::raises.no-warning-before-error", not warns, kind="raises")
                return
            if out.value is data:
                ctx.prove(f"{T}::post.same-object-only-when-every-shell-is-segmented-(or-kept-SP)", all_kept)
                ctx.prove(f"{T}::post.no-warning-without-conversion", not warns)
                return
            ctx.prove(f"{T}::post.conversion-only-when-needed-and-allowed", z3.And(z3.Not(all_kept), allow))
            ctx.prove(f"{T}::post.exactly-one-PrepareDumpWarning", len(warns) == 1 and getattr(warns[0][1], "__name__", "") == "PrepareDumpWarning")
            res = out.value
            ok = isinstance(res, Obj) and res.cls is data.cls
            ctx.prove(f"{T}::post.returns-IOData-copy", ok)
            if ok:
                src = getattr(res.fields["obasis"], "source", None)
                ctx.prove(f"{T}::post.obasis-is-the-segmented-conversion-with-the-same-keep_sp", src is not None and src[0] is mb and to_z3(src[1]).eq(keep_sp))
                others = [k for k in res.fields if k != "obasis" and res.fields[k] is not data.fields[k]]
                ctx.prove(f"{T}::post.all-other-members-are-the-same-objects", not others)

        verify(T, setup, post, config=cfg, ledger=led, max_paths=500)
    return led


def job_lemmas():
    led = Ledger()
    lemmas.prove_used(led, [(1, -1), (1, 1, -1)], split=True)
    return led


# ------------------------------------------------------------------------------------------------
BOUNDED = r"""
import itertools, json, sys, warnings
import numpy as np
from iodata.basis import MolecularBasis, Shell
from iodata.convert import convert_to_segmented, convert_to_unrestricted, HORTON2_CONVENTIONS
from iodata.orbitals import MolecularOrbitals
from iodata.overlap import compute_overlap
from iodata import IOData
from iodata.prepare import prepare_segmented, prepare_unrestricted_aminusb
from iodata.utils import PrepareDumpError, PrepareDumpWarning
seed, nrand = int(sys.argv[1]), int(sys.argv[2])
rng = np.random.default_rng(seed)
fails, cases = [], 0
def funcs(b):
    out = []
    for sh in b.shells:
        for l, k, col in zip(sh.angmoms, sh.kinds, sh.coeffs.T):
            out.append((sh.icenter, int(l), str(k), tuple(sh.exponents), tuple(col)))
    return out
def ref_segment(b, keep_sp):
    shells = []
    for sh in b.shells:
        if sh.ncon == 1 or (keep_sp and sh.ncon == 2 and list(sh.angmoms) == [0, 1]): shells.append(sh)
        else:
            for l, k, col in zip(sh.angmoms, sh.kinds, sh.coeffs.T): shells.append(Shell(sh.icenter, [l], [k], sh.exponents, col.reshape(-1, 1)))
    return shells
def rand_shell(ic):
    ncon = int(rng.integers(1, 6))
    ls = [int(x) for x in rng.integers(0, 4, size=ncon)]
    if rng.random() < 0.25: ls = [0, 1]
    if rng.random() < 0.2: ls = sorted(ls, reverse=True)
    ks = ["c" if (l < 2 or rng.random() < 0.5) else "p" for l in ls]
    nexp = int(rng.integers(1, 4))
    return Shell(ic, ls, ks, rng.uniform(0.2, 3.0, nexp), rng.normal(size=(nexp, len(ls))))
for it in range(nrand):
    nat = int(rng.integers(1, 4))
    shells = [rand_shell(int(rng.integers(0, nat))) for _ in range(int(rng.integers(1, 5)))]
    b = MolecularBasis(shells, HORTON2_CONVENTIONS, "L2")
    for keep_sp in (False, True):
        cases += 1
        seg = convert_to_segmented(b, keep_sp)
        hist = dict(it=it, keep_sp=keep_sp, shells=[(s.icenter, s.angmoms.tolist(), s.kinds.tolist()) for s in shells])
        if funcs(seg) != funcs(b): fails.append((hist, "basis functions or their order changed"))
        if seg.conventions is not b.conventions or seg.primitive_normalization != b.primitive_normalization: fails.append((hist, "conventions/normalization changed"))
        for s in seg.shells:
            if not (s.ncon == 1 or (keep_sp and s.ncon == 2 and list(s.angmoms) == [0, 1])): fails.append((hist, "unsplit generalized shell in result"))
        want = ref_segment(b, keep_sp)
        if [(s.icenter, s.angmoms.tolist(), s.kinds.tolist()) for s in seg.shells] != [(s.icenter, s.angmoms.tolist(), s.kinds.tolist()) for s in want]: fails.append((hist, "shell list differs from per-shell reference"))
        seg2 = convert_to_segmented(seg, keep_sp)
        if funcs(seg2) != funcs(seg) or len(seg2.shells) != len(seg.shells): fails.append((hist, "not idempotent"))
        if it < nrand // 4:
            coords = rng.normal(size=(nat, 3))
            o1 = compute_overlap(b, coords); o2 = compute_overlap(MolecularBasis(want, HORTON2_CONVENTIONS, "L2"), coords); o3 = compute_overlap(seg, coords)
            if not (np.allclose(o1, o2, atol=1e-12) and np.allclose(o1, o3, atol=1e-12)): fails.append((hist, "overlap matrix changed"))
        d = IOData(obasis=b)
        needs = any(not (s.ncon == 1 or (keep_sp and s.ncon == 2 and list(s.angmoms) == [0, 1])) for s in shells)
        with warnings.catch_warnings(record=True) as w:
            warnings.simplefilter("always")
            try:
                r = prepare_segmented(d, keep_sp, False, "f", "fmt")
                if needs or r is not d: fails.append((hist, "prepare_segmented without allow_changes converted or copied"))
            except PrepareDumpError:
                if not needs: fails.append((hist, "prepare_segmented refused a segmented basis"))
            r = prepare_segmented(d, keep_sp, True, "f", "fmt")
            nw = sum(issubclass(x.category, PrepareDumpWarning) for x in w)
            if (r is d) == needs or nw != (1 if needs else 0): fails.append((hist, "prepare_segmented identity/warning protocol", nw))
OCC = lambda n: [None, np.zeros(n), np.array([2, 2, 1, 1, 0, 0.0][:n]), np.array([1.9, 1.5, 0.6, -0.0006, 0, 0.0][:n])]
AMB = lambda n: [None, np.zeros(n), np.array([0, 0, 1, 1, 0, 0.0][:n]), np.array([0, 0.2, -1, 0.5, 0.1, 0.0][:n])]
for n in range(0, 6):
    for occs in OCC(n):
        for am in AMB(n):
            if occs is None and am is not None: continue
            for opt in itertools.product((False, True), repeat=3):
                cases += 1
                mo = MolecularOrbitals("restricted", n, n, occs=occs, occs_aminusb=am, coeffs=rng.normal(size=(3, n)) if opt[0] else None, energies=np.arange(float(n)) if opt[1] else None, irreps=list("abcdef"[:n]) if opt[2] else None)
                hist = dict(n=n, occs=None if occs is None else occs.tolist(), am=None if am is None else am.tolist(), opt=opt)
                u = convert_to_unrestricted(mo)
                def eq(a, b):
                    if a is None or b is None: return a is None and b is None
                    return np.array_equal(np.asarray(a), np.asarray(b))
                if u.kind != "unrestricted" or u.norba != n or u.norbb != n or u.occs_aminusb is not None: fails.append((hist, "result is not a plain unrestricted object"))
                for g in ("occsa", "occsb", "coeffsa", "coeffsb", "energiesa", "energiesb", "irrepsa", "irrepsb"):
                    if not eq(getattr(u, g), getattr(mo, g)): fails.append((hist, g + " changed by un-restriction"))
                if occs is not None and (abs(u.nelec - mo.nelec) > 1e-12 or abs(u.spinpol - mo.spinpol) > 1e-12): fails.append((hist, "nelec/spinpol changed", float(u.spinpol), float(mo.spinpol)))
                if convert_to_unrestricted(u) is not u: fails.append((hist, "not idempotent"))
                d = IOData(mo=mo)
                needs = am is not None
                with warnings.catch_warnings(record=True) as w:
                    warnings.simplefilter("always")
                    try:
                        r = prepare_unrestricted_aminusb(d, False, "f", "fmt")
                        if needs or r is not d: fails.append((hist, "prepare_unrestricted_aminusb without allow_changes returned although conversion needed"))
                    except PrepareDumpError:
                        if not needs: fails.append((hist, "prepare_unrestricted_aminusb refused"))
                    r = prepare_unrestricted_aminusb(d, True, "f", "fmt")
                    nw = sum(issubclass(x.category, PrepareDumpWarning) for x in w)
                    if (r is d) == needs or nw != (1 if needs else 0): fails.append((hist, "prepare_unrestricted_aminusb identity/warning protocol", nw))
for bad in (MolecularOrbitals("generalized", None, None, occs=np.ones(2)),):
    try:
        convert_to_unrestricted(bad); fails.append(("generalized", "accepted"))
    except ValueError: pass
sig = {}
for f in fails: sig.setdefault(f[1], f)
print(json.dumps(dict(cases=cases, nfails=len(fails), kinds={k: repr(v)[:600] for k, v in sig.items()}), default=str))
"""
_TAIL = "print(json.dumps(dict(cases=cases, nfails=len(fails), kinds={k: repr(v)[:600] for k, v in sig.items()}), default=str))"


def run_bounded(chk):
    nrand = 60 if chk.tier == "quick" else 600
    env = dict(os.environ, PYTHONPATH=source.REPO)
    out = subprocess.run([VENV_PY, "-c", BOUNDED, str(chk.seed), str(nrand)], capture_output=True, text=True, env=env, cwd="/", timeout=3000)
    if out.returncode != 0:
        chk.fault(f"bounded driver crashed: {out.stderr[-1500:]}")
        return
    res = json.loads(out.stdout.strip().splitlines()[-1])
    bound = f"{nrand} random bases (1..4 shells x 1..5 contractions, l<=3, mixed c/p, SP, descending angmoms) x keep_sp; restricted orbitals n<=5 x 4 occupation patterns x 4 occs_aminusb x optional arrays"
    for kind, example in sorted(res["kinds"].items()):
        script = BOUNDED.replace("seed, nrand = int(sys.argv[1]), int(sys.argv[2])", f"seed, nrand = {chk.seed}, {nrand}").replace(_TAIL, f"print(sig.get({kind!r}))\nif {kind!r} in sig:\n    print('REPRODUCED'); sys.exit(1)")
        chk.add_bounded(f"conversions.{kind}", bound, res["cases"], [example], replay_script=script)
    if not res["kinds"]:
        chk.add_bounded("conversions", bound, res["cases"], [])


def run(chk):
    chk.functions += [f"{CV}.convert_to_segmented", f"{CV}.convert_to_unrestricted", f"{PR}.prepare_segmented", f"{PR}.prepare_unrestricted_aminusb"]
    chk.trusted += [
        "z3",
        "attrs model incl. attrs.evolve = constructor call with the current field values (see C11)",
        "generic-iteration rule for append-only loops (side condition checked by the executor); flattening lemma: funcs of a concatenation is the concatenation of funcs",
        "numpy axioms: concatenate (axis 0/1), .T, reshape(-1,1), zip over array rows, element-wise ==, .all()",
        "MolecularOrbitals getters as verified in C12 (executed from source here, not assumed)",
        "summation lemmas (pyvc/lemmas.py)",
    ]
    chk.assumptions += [A_FP, "'identical overlap matrix' is derived from equality of the basis functions in order (funcs) and determinism of compute_overlap, not from the integral code; the bounded driver compares overlap matrices numerically on random bases"]
    jobs = [("checks.c14", "job_segmented", {}), ("checks.c14", "job_segmented_idempotent", {}), ("checks.c14", "job_prepare_unrestricted", {}), ("checks.c14", "job_prepare_segmented", {}), ("checks.c14", "job_lemmas", {})]
    jobs += [("checks.c14", "job_unrestricted", {"kind": k}) for k in ("restricted", "unrestricted", "generalized")]
    collect(chk, run_jobs(jobs))
    run_bounded(chk)
    chk.samples = [o.as_dict() for o in list(chk.ledger.obligations.values())[:6]]
    chk.notes["explanation"] = "C14: conversions under contract for all bases / orbital sets; prepare_* identity, error and warning protocol"
