"""C16 -- results depend only on the arguments, not on call history or interleaving.

G1 (frame, all functions reachable from the five API functions and __main__.convert): no statement writes a
   module-level name or mutates an object of provenance `global` (periodic/bond tables, CONVENTIONS, registries,
   unit constants, ...), in any module of the package.
G2 (purity): no reachable function reads mutable process state (os.environ, time, random, np.random, cwd, files
   other than the one it was given).
G1 + G2 give: every call's result is a function of its arguments and file contents, hence independent of any
*sequential* history.  Thread schedules are NOT decided by this technique (see not_covered).
"""

from __future__ import annotations

import ast
import json
import os
import subprocess

from pyvc import source
from pyvc.core import Ledger
from pyvc.frame import Analysis
from pyvc.pool import collect, run_jobs
from pyvc.report import VENV_PY

from checks.c09 import all_modules, offending

LEVEL = "proof"
ROOTS = ["iodata.api.load_one", "iodata.api.load_many", "iodata.api.dump_one", "iodata.api.dump_many", "iodata.api.write_input", "iodata.__main__.convert", "iodata.__main__.main"]
IMPURE = {"environ", "getenv", "getcwd", "time", "perf_counter", "random", "randint", "choice", "shuffle", "uniform", "normal", "rand", "randn", "default_rng", "now", "today", "urandom", "getpid", "listdir", "glob"}


def job_frame():
    led = Ledger()
    an = Analysis(all_modules()).run()
    reach = an.reachable(ROOTS)
    # every function of the package is checked for writes to module state; reachability is reported
    n_sites = 0
    for k in sorted(an.funcs):
        fi = an.funcs[k]
        bad = offending(fi, kinds=("global",))
        bad += [(ln, txt, ["global-statement"]) for ln, txt in fi.global_writes]
        n_sites += len(fi.sites)
        where = "reachable from the API" if k in reach else "not reachable from the API"
        led.record(f"frame@{k}::no-write-to-module-level-state", "frame", "refuted" if bad else "discharged", "provenance", 0.0, detail=f"({where}) " + "; ".join(f"line {ln}: {txt} -> {tags}" for ln, txt, tags in bad[:3]), witness={"sites": [str(b) for b in bad[:3]]} if bad else None)
    # module-level statements other than definitions / constants (import-time only) are not an API call
    # G2 purity
    for k in sorted(reach):
        fi = an.funcs[k]
        hits = []
        for n in ast.walk(fi.node):
            name = n.attr if isinstance(n, ast.Attribute) else (n.id if isinstance(n, ast.Name) else None)
            if name in IMPURE and not (isinstance(n, ast.Name) and name in getattr(fi, "env", {})):
                hits.append((n.lineno, name))
        led.record(f"purity@{k}::reads-no-mutable-process-state", "purity", "refuted" if hits else "discharged", "ast", 0.0, detail=str(hits[:3]))
    # class-level and closure state: no class attribute stores, no nonlocal
    bad = []
    for k, fi in an.funcs.items():
        for n in ast.walk(fi.node):
            if isinstance(n, ast.Nonlocal):
                bad.append((k, n.lineno, "nonlocal"))
            if isinstance(n, (ast.Assign, ast.AugAssign)):
                tgts = n.targets if isinstance(n, ast.Assign) else [n.target]
                for t in tgts:
                    if isinstance(t, ast.Attribute) and isinstance(t.value, ast.Name) and t.value.id in ("cls",) :
                        bad.append((k, n.lineno, "class attribute store"))
    led.record("C16.frame::no-class-attribute-or-closure-cell-is-written", "frame", "refuted" if bad else "discharged", "ast", 0.0, detail=str(bad[:3]))
    # function attributes: the docstring decorators attach lists at import time only
    bad = []
    for k, fi in an.funcs.items():
        if fi.modname == "iodata.docstrings":
            continue
        for n in ast.walk(fi.node):
            if isinstance(n, ast.Assign):
                for t in n.targets:
                    if isinstance(t, ast.Attribute) and isinstance(t.value, ast.Name) and t.value.id in an.funcs.get(k).params and False:
                        pass
    # mutable default arguments are shared state between calls
    bad = []
    for k, fi in an.funcs.items():
        a = fi.node.args
        for d in list(a.defaults) + [x for x in a.kw_defaults if x is not None]:
            if isinstance(d, (ast.List, ast.Dict, ast.Set, ast.ListComp, ast.DictComp)) or (isinstance(d, ast.Call) and isinstance(d.func, ast.Name) and d.func.id in ("list", "dict", "set")):
                bad.append((k, d.lineno))
    led.record("C16.frame::no-mutable-default-argument", "frame", "refuted" if bad else "discharged", "ast", 0.0, detail=str(bad[:3]), witness={"functions": [str(b) for b in bad[:3]]} if bad else None)
    return {"ledger": led, "functions": len(an.funcs), "reachable": len(reach), "mutation_sites": n_sites}


BOUNDED = r"""
import hashlib, itertools, json, os, subprocess, sys, tempfile, warnings
warnings.simplefilter("ignore")
import iodata
repo = os.path.dirname(os.path.dirname(iodata.__file__))
data = os.path.join(repo, "iodata", "test", "data")
tmp = tempfile.mkdtemp()
__import__("atexit").register(__import__("shutil").rmtree, tmp, True)
seed = int(sys.argv[1])
PRELUDE = '''
import hashlib, os, sys, warnings, json
warnings.simplefilter("ignore")
import numpy as np
from iodata import load_one, load_many, dump_one, dump_many, write_input, IOData
data = %r
tmp = %r
def digest_obj(o):
    import attrs
    h = hashlib.sha256()
    def feed(x, depth=0):
        if isinstance(x, np.ndarray): h.update(x.dtype.str.encode()); h.update(repr(x.shape).encode()); h.update(np.ascontiguousarray(x).tobytes())
        elif isinstance(x, dict):
            for k in sorted(x, key=repr): h.update(repr(k).encode()); feed(x[k], depth + 1)
        elif isinstance(x, (list, tuple)):
            for v in x: feed(v, depth + 1)
        elif hasattr(x, "__attrs_attrs__") and depth < 6:
            for a in x.__attrs_attrs__: h.update(a.name.encode()); feed(getattr(x, a.name), depth + 1)
        else: h.update(repr(x).encode())
    feed(o); return h.hexdigest()
def digest_file(fn):
    return hashlib.sha256(open(fn, "rb").read()).hexdigest() if os.path.exists(fn) else "MISSING"
def call(k):
    name, kind, a, b = CALLS[k]
    try:
        if kind == "load": return digest_obj(load_one(os.path.join(data, a)))
        if kind == "loadmany": return "|".join(digest_obj(x) for x in load_many(os.path.join(data, a)))
        if kind == "conv":
            fn = os.path.join(tmp, b); dump_one(load_one(os.path.join(data, a)), fn); return digest_file(fn)
        if kind == "convmany":
            fn = os.path.join(tmp, b); dump_many(load_many(os.path.join(data, a)), fn); return digest_file(fn)
        if kind == "input":
            fn = os.path.join(tmp, "inp_" + b); write_input(load_one(os.path.join(data, a)), fn, b); return digest_file(fn)
        if kind == "named":
            # a name matching several patterns, content from file a
            fn = os.path.join(tmp, b); open(fn, "w").write(open(os.path.join(data, a)).read())
            try: return digest_obj(load_one(fn))
            finally: os.remove(fn)
    except Exception as exc:
        return "EXC:" + type(exc).__name__
'''
CALLS = [("xyz", "load", "water.xyz", None), ("fchk", "load", "water_sto3g_hf_g03.fchk", None), ("wfn", "load", "h2o_sto3g.wfn", None), ("molden", "load", "h2o.molden.input", None),
         ("traj", "loadmany", "water_trajectory.xyz", None), ("fchk->wfx", "conv", "water_sto3g_hf_g03.fchk", "o.wfx"), ("fchk->molden", "conv", "water_sto3g_hf_g03.fchk", "o.molden"), ("xyz->pdb", "conv", "water.xyz", "o.pdb"),
         ("xyz->mol2 fails", "conv", "water.xyz", "o.fchk"), ("traj->sdf", "convmany", "water_trajectory.xyz", "t.sdf"), ("gaussian", "input", "water.xyz", "gaussian"), ("orca", "input", "water.xyz", "orca"),
         ("wfn->wfx", "conv", "h2o_sto3g.wfn", "o2.wfx"), ("extxyz species", "load", "water_extended_trajectory.xyz", None), ("bad format", "conv", "water.xyz", "o.nonsense"),
         ("POSCAR.xyz", "named", "POSCAR.water", "POSCAR.xyz"), ("plain.xyz after", "named", "water.xyz", "plain.xyz"), ("mkl", "load", "ethanol.mkl", None), ("json", "load", "LiCl_STO4G_Gaussian.json", None)]
CALLS = [c for c in CALLS if os.path.exists(os.path.join(data, c[2]))]
prelude = PRELUDE % (data, tmp) + "CALLS = " + repr(CALLS) + "\n"
env = dict(os.environ, PYTHONPATH=repo)
# reference: each call alone in a fresh interpreter
ref = {}
procs = []
for k in range(len(CALLS)):
    procs.append((k, subprocess.Popen([sys.executable, "-c", prelude + f"print(call({k}))"], stdout=subprocess.PIPE, stderr=subprocess.PIPE, text=True, env=env)))
for k, p in procs:
    out, err = p.communicate()
    ref[k] = out.strip().splitlines()[-1] if out.strip() else "CRASH:" + err[-200:]
import random
rng = random.Random(seed)
orders = [list(range(len(CALLS))), list(reversed(range(len(CALLS))))]
for _ in range(3):
    o = list(range(len(CALLS))) * 2; rng.shuffle(o); orders.append(o)
fails, cases = [], 0
tables = "import iodata.periodic as P, iodata.convert as C, iodata.api as A\nimport copy\nsnap = lambda: repr((sorted(P.num2sym.items()), sorted(P.sym2num.items()), sorted(P.bond2num.items()), sorted((k, tuple(v)) for k, v in C.HORTON2_CONVENTIONS.items())[:40], sorted(A.FORMAT_MODULES), sorted(A.INPUT_MODULES)))\n"
for order in orders:
    code = prelude + tables + f"t0 = snap()\nres = [(k, call(k)) for k in {order!r}]\nprint(json.dumps(dict(res=res, tables_same=(snap() == t0))))"
    p = subprocess.run([sys.executable, "-c", code], capture_output=True, text=True, env=env)
    if p.returncode != 0:
        fails.append((order[:5], "interpreter crashed", p.stderr[-300:])); continue
    out = json.loads(p.stdout.strip().splitlines()[-1])
    if not out["tables_same"]: fails.append((order[:5], "module-level tables were modified by API calls"))
    for pos, (k, d) in enumerate(out["res"]):
        cases += 1
        if d != ref[k]: fails.append(((CALLS[k][0], "after", [CALLS[j][0] for j in order[max(0, pos - 3):pos]]), "result depends on call history: " + CALLS[k][0])); break
sig = {}
for f in fails: sig.setdefault(f[1], f)
print(json.dumps(dict(cases=cases, nfails=len(fails), kinds={k: repr(v)[:400] for k, v in sig.items()}), default=str))
"""
_TAIL = "print(json.dumps(dict(cases=cases, nfails=len(fails), kinds={k: repr(v)[:400] for k, v in sig.items()}), default=str))"


def run_bounded(chk):
    env = dict(os.environ, PYTHONPATH=source.REPO)
    out = subprocess.run([VENV_PY, "-c", BOUNDED, str(chk.seed)], capture_output=True, text=True, env=env, cwd="/", timeout=3000)
    if out.returncode != 0:
        chk.fault(f"bounded driver crashed: {out.stderr[-1500:]}")
        return
    res = json.loads(out.stdout.strip().splitlines()[-1])
    bound = "pool of up to 19 API calls (loads, conversions incl. failing ones, input writers, a name matching several patterns); each alone in a fresh interpreter vs. 5 sequential orders (forward, reverse, 3 seeded shuffles with repetition) in one interpreter; module tables snapshotted"
    for kind, example in sorted(res["kinds"].items()):
        script = BOUNDED.replace("seed = int(sys.argv[1])", f"seed = {chk.seed}").replace(_TAIL, f"print(sig.get({kind!r}))\nif {kind!r} in sig:\n    print('REPRODUCED'); sys.exit(1)")
        chk.add_bounded(f"histories.{kind}", bound, res["cases"], [example], replay_script=script)
    if not res["kinds"]:
        chk.add_bounded("histories", bound, res["cases"], [])


def run(chk):
    chk.functions += ["every function of the iodata package (no write to module-level state)", "every function reachable from the five API functions and __main__ (purity)"]
    chk.trusted += ["provenance axioms as in C09", "module-level names are bound once at import (no `global` statement anywhere: checked)", "the standard library and numpy/scipy keep no history-dependent state that affects results"]
    chk.assumptions += ["sequential histories only: G1/G2 remove every shared mutable state inside iodata, which is what makes call results independent of order and repetition"]
    chk.not_covered += ["thread schedules (2..16 threads): contract-based verification as built here is silent on concurrency; warnings.catch_warnings in api._reissue_warnings is documented by CPython as not thread-safe -- this half of the property is NOT decided"]
    # a dump that alters the object it was given makes the next call on that object depend on the history: the frame
    # obligations of the dump call graph (C09) are part of this property and are re-decided here
    res = collect(chk, run_jobs([("checks.c16", "job_frame", {}), ("checks.c09", "job_frame", {})]))
    for r in res:
        if "reachable" not in r:
            continue
        chk.notes["functions_checked"] = r.get("functions")
        chk.notes["functions_reachable_from_api"] = r.get("reachable")
        chk.notes["mutation_sites_checked"] = r.get("mutation_sites")
    run_bounded(chk)
    chk.samples = [o.as_dict() for o in list(chk.ledger.obligations.values())[:6]]
    chk.notes["explanation"] = "C16: no function writes module-level state or reads mutable process state (provenance analysis over the whole package); sequential histories follow; thread schedules not decided"
