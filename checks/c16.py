"""C16 -- results depend only on the arguments, not on call history or interleaving.

G1 (frame, all functions reachable from the five API functions and __main__.convert): no statement writes a
   module-level name or mutates an object of provenance `global` (periodic/bond tables, CONVENTIONS, registries,
   unit constants, ...), in any module of the package.
G2 (purity): no reachable function reads mutable process state (os.environ, time, random, np.random, cwd, files
   other than the one it was given).
G1 + G2 give: every call's result is a function of its arguments and file contents, hence independent of any
*sequential* history.  Thread schedules are NOT decided by this technique (see not_covered).
"""

from __future__ import annotations

import ast
import json
import os
import subprocess

from pyvc import source
from pyvc.core import Ledger
from pyvc.frame import Analysis
from pyvc.pool import collect, run_jobs
from pyvc.report import VENV_PY

from checks.c09 import all_modules, offending

LEVEL = "other"
ROOTS = ["iodata.api.load_one", "iodata.api.load_many", "iodata.api.dump_one", "iodata.api.dump_many", "iodata.api.write_input", "iodata.__main__.convert", "iodata.__main__.main"]
IMPURE = {"environ", "getenv", "getcwd", "time", "perf_counter", "random", "randint", "choice", "shuffle", "uniform", "normal", "rand", "randn", "default_rng", "now", "today", "urandom", "getpid", "listdir", "glob"}


def job_frame():
    led = Ledger()
    an = Analysis(all_modules()).run()
    reach = an.reachable(ROOTS)
    # every function of the package is checked for writes to module state; reachability is reported
    n_sites = 0
    for k in sorted(an.funcs):
        fi = an.funcs[k]
        bad = offending(fi, kinds=("global",))
        bad += [(ln, txt, ["global-statement"]) for ln, txt in fi.global_writes]
        n_sites += len(fi.sites)
        where = "reachable from the API" if k in reach else "not reachable from the API"
        led.record(f"frame@{k}::no-write-to-module-level-state", "frame", "refuted" if bad else "discharged", "provenance", 0.0, detail=f"({where}) " + "; ".join(f"line {ln}: {txt} -> {tags}" for ln, txt, tags in bad[:3]), witness={"sites": [str(b) for b in bad[:3]]} if bad else None)
    # module-level statements other than definitions / constants (import-time only) are not an API call
    # G2 purity
    for k in sorted(reach):
        fi = an.funcs[k]
        hits = []
        for n in ast.walk(fi.node):
            name = n.attr if isinstance(n, ast.Attribute) else (n.id if isinstance(n, ast.Name) else None)
            if name in IMPURE and not (isinstance(n, ast.Name) and name in getattr(fi, "env", {})):
                hits.append((n.lineno, name))
        led.record(f"purity@{k}::reads-no-mutable-process-state", "purity", "refuted" if hits else "discharged", "ast", 0.0, detail=str(hits[:3]))
    # class-level and closure state: no class attribute stores, no nonlocal
    bad = []
    for k, fi in an.funcs.items():
        for n in ast.walk(fi.node):
            if isinstance(n, ast.Nonlocal):
                bad.append((k, n.lineno, "nonlocal"))
            if isinstance(n, (ast.Assign, ast.AugAssign)):
                tgts = n.targets if isinstance(n, ast.Assign) else [n.target]
                for t in tgts:
                    if isinstance(t, ast.Attribute) and isinstance(t.value, ast.Name) and t.value.id in ("cls",) :
                        bad.append((k, n.lineno, "class attribute store"))
    led.record("C16.frame::no-class-attribute-or-closure-cell-is-written", "frame", "refuted" if bad else "discharged", "ast", 0.0, detail=str(bad[:3]))
    # function attributes: the docstring decorators attach lists at import time only
    bad = []
    for k, fi in an.funcs.items():
        if fi.modname == "iodata.docstrings":
            continue
        for n in ast.walk(fi.node):
            if isinstance(n, ast.Assign):
                for t in n.targets:
                    if isinstance(t, ast.Attribute) and isinstance(t.value, ast.Name) and t.value.id in an.funcs.get(k).params and False:
                        pass
    # mutable default arguments are shared state between calls
    bad = []
    for k, fi in an.funcs.items():
        a = fi.node.args
        for d in list(a.defaults) + [x for x in a.kw_defaults if x is not None]:
            if isinstance(d, (ast.List, ast.Dict, ast.Set, ast.ListComp, ast.DictComp)) or (isinstance(d, ast.Call) and isinstance(d.func, ast.Name) and d.func.id in ("list", "dict", "set")):
                bad.append((k, d.lineno))
    led.record("C16.frame::no-mutable-default-argument", "frame", "refuted" if bad else "discharged", "ast", 0.0, detail=str(bad[:3]), witness={"functions": [str(b) for b in bad[:3]]} if bad else None)
    return {"ledger": led, "functions": len(an.funcs), "reachable": len(reach), "mutation_sites": n_sites}


def _is_set_expr(e, setnames):
    if isinstance(e, (ast.Set, ast.SetComp)):
        return True
    if isinstance(e, ast.Call) and isinstance(e.func, ast.Name) and e.func.id in ("set", "frozenset"):
        return True
    if isinstance(e, ast.Name) and e.id in setnames:
        return True
    if isinstance(e, ast.BinOp) and isinstance(e.op, (ast.Sub, ast.BitOr, ast.BitAnd, ast.BitXor)):
        return _is_set_expr(e.left, setnames) or _is_set_expr(e.right, setnames)
    return False


def job_order():
    """G3: no loop or comprehension iterates over a set.  The iteration order of a set of strings depends on the hash
    seed of the interpreter (PYTHONHASHSEED), not on the arguments: the first error raised, the order of warnings or of
    written items would differ between two fresh interpreters.  (sorted(<set>) is fine: its argument is not a loop.)"""
    led = Ledger()
    an = Analysis(all_modules()).run()
    for k in sorted(an.funcs):
        fi = an.funcs[k]
        nodes = list(ast.walk(fi.node))
        assigns = [(n.lineno, n.targets[0].id, n.value) for n in nodes if isinstance(n, ast.Assign) and len(n.targets) == 1 and isinstance(n.targets[0], ast.Name)]
        loops, bad = 0, []
        for n in nodes:
            iters = []
            if isinstance(n, (ast.For, ast.AsyncFor)):
                iters.append(n.iter)
            if isinstance(n, (ast.ListComp, ast.GeneratorExp, ast.DictComp)):
                iters += [g.iter for g in n.generators]
            for it in iters:
                loops += 1
                ln = it.lineno
                # a name denotes a set at the loop when the last assignment to it before the loop binds a set expression
                last = {}
                for l, nm, v in sorted(assigns, key=lambda a: a[0]):
                    if l < ln:
                        last[nm] = v
                names = {nm for nm, v in last.items() if _is_set_expr(v, set())}
                if _is_set_expr(it, names):
                    bad.append((ln, ast.unparse(it)[:60]))
        if loops:
            led.record(f"order@{k}::iterates-only-over-collections-whose-order-is-defined-by-the-arguments", "order", "refuted" if bad else "discharged", "ast", 0.0, detail="; ".join(f"line {ln}: for ... in {txt} (a set: order depends on the hash seed)" for ln, txt in bad[:4]), witness={"loops_over_sets": [f"line {ln}: {txt}" for ln, txt in bad[:4]]} if bad else None)
    return {"ledger": led}


BOUNDED = r"""
import hashlib, itertools, json, os, subprocess, sys, tempfile, warnings
warnings.simplefilter("ignore")
import iodata
repo = os.path.dirname(os.path.dirname(iodata.__file__))
data = os.path.join(repo, "iodata", "test", "data")
tmp = tempfile.mkdtemp()
__import__("atexit").register(__import__("shutil").rmtree, tmp, True)
seed = int(sys.argv[1])
PRELUDE = '''
import hashlib, os, sys, warnings, json
warnings.simplefilter("ignore")
import numpy as np
from iodata import load_one, load_many, dump_one, dump_many, write_input, IOData
data = %r
tmp = %r
def digest_obj(o):
    import attrs
    h = hashlib.sha256()
    def feed(x, depth=0):
        if isinstance(x, np.ndarray): h.update(x.dtype.str.encode()); h.update(repr(x.shape).encode()); h.update(np.ascontiguousarray(x).tobytes())
        elif isinstance(x, dict):
            for k in sorted(x, key=repr): h.update(repr(k).encode()); feed(x[k], depth + 1)
        elif isinstance(x, (list, tuple)):
            for v in x: feed(v, depth + 1)
        elif hasattr(x, "__attrs_attrs__") and depth < 6:
            for a in x.__attrs_attrs__: h.update(a.name.encode()); feed(getattr(x, a.name), depth + 1)
        else: h.update(repr(x).encode())
    feed(o); return h.hexdigest()
def digest_file(fn):
    return hashlib.sha256(open(fn, "rb").read()).hexdigest() if os.path.exists(fn) else "MISSING"
def call(k):
    name, kind, a, b = CALLS[k]
    try:
        if kind == "load": return digest_obj(load_one(os.path.join(data, a)))
        if kind == "loadmany": return "|".join(digest_obj(x) for x in load_many(os.path.join(data, a)))
        if kind == "conv":
            fn = os.path.join(tmp, b); dump_one(load_one(os.path.join(data, a)), fn); return digest_file(fn)
        if kind == "convmany":
            fn = os.path.join(tmp, b); dump_many(load_many(os.path.join(data, a)), fn); return digest_file(fn)
        if kind == "input":
            fn = os.path.join(tmp, "inp_" + b); write_input(load_one(os.path.join(data, a)), fn, b); return digest_file(fn)
        if kind == "named":
            # a name matching several patterns, content from file a
            fn = os.path.join(tmp, b); open(fn, "w").write(open(os.path.join(data, a)).read())
            try: return digest_obj(load_one(fn))
            finally: os.remove(fn)
    except Exception as exc:
        return "EXC:" + type(exc).__name__
'''
CALLS = [("xyz", "load", "water.xyz", None), ("fchk", "load", "water_sto3g_hf_g03.fchk", None), ("wfn", "load", "h2o_sto3g.wfn", None), ("molden", "load", "h2o.molden.input", None),
         ("traj", "loadmany", "water_trajectory.xyz", None), ("fchk->wfx", "conv", "water_sto3g_hf_g03.fchk", "o.wfx"), ("fchk->molden", "conv", "water_sto3g_hf_g03.fchk", "o.molden"), ("xyz->pdb", "conv", "water.xyz", "o.pdb"),
         ("xyz->mol2 fails", "conv", "water.xyz", "o.fchk"), ("traj->sdf", "convmany", "water_trajectory.xyz", "t.sdf"), ("gaussian", "input", "water.xyz", "gaussian"), ("orca", "input", "water.xyz", "orca"),
         ("wfn->wfx", "conv", "h2o_sto3g.wfn", "o2.wfx"), ("extxyz species", "load", "water_extended_trajectory.xyz", None), ("bad format", "conv", "water.xyz", "o.nonsense"),
         ("POSCAR.xyz", "named", "POSCAR.water", "POSCAR.xyz"), ("plain.xyz after", "named", "water.xyz", "plain.xyz"), ("mkl", "load", "ethanol.mkl", None), ("json", "load", "LiCl_STO4G_Gaussian.json", None)]
CALLS = [c for c in CALLS if os.path.exists(os.path.join(data, c[2]))]
prelude = PRELUDE % (data, tmp) + "CALLS = " + repr(CALLS) + "\n"
env = dict(os.environ, PYTHONPATH=repo)
# reference: each call alone in a fresh interpreter
ref = {}
procs = []
for k in range(len(CALLS)):
    procs.append((k, subprocess.Popen([sys.executable, "-c", prelude + f"print(call({k}))"], stdout=subprocess.PIPE, stderr=subprocess.PIPE, text=True, env=env)))
for k, p in procs:
    out, err = p.communicate()
    ref[k] = out.strip().splitlines()[-1] if out.strip() else "CRASH:" + err[-200:]
import random
rng = random.Random(seed)
orders = [list(range(len(CALLS))), list(reversed(range(len(CALLS))))]
for _ in range(3):
    o = list(range(len(CALLS))) * 2; rng.shuffle(o); orders.append(o)
fails, cases = [], 0
tables = "import iodata.periodic as P, iodata.convert as C, iodata.api as A\nimport copy\nsnap = lambda: repr((sorted(P.num2sym.items()), sorted(P.sym2num.items()), sorted(P.bond2num.items()), sorted((k, tuple(v)) for k, v in C.HORTON2_CONVENTIONS.items())[:40], sorted(A.FORMAT_MODULES), sorted(A.INPUT_MODULES)))\n"
for order in orders:
    code = prelude + tables + f"t0 = snap()\nres = [(k, call(k)) for k in {order!r}]\nprint(json.dumps(dict(res=res, tables_same=(snap() == t0))))"
    p = subprocess.run([sys.executable, "-c", code], capture_output=True, text=True, env=env)
    if p.returncode != 0:
        fails.append((order[:5], "interpreter crashed", p.stderr[-300:])); continue
    out = json.loads(p.stdout.strip().splitlines()[-1])
    if not out["tables_same"]: fails.append((order[:5], "module-level tables were modified by API calls"))
    for pos, (k, d) in enumerate(out["res"]):
        cases += 1
        if d != ref[k]: fails.append(((CALLS[k][0], "after", [CALLS[j][0] for j in order[max(0, pos - 3):pos]]), "result depends on call history: " + CALLS[k][0])); break
# the same failing / warning calls alone in fresh interpreters that differ only in their hash seed
bad_json = os.path.join(tmp, "incomplete_input.json")
open(bad_json, "w").write('{"schema_name": "qcschema_input", "schema_version": 1}')
bad_mol = os.path.join(tmp, "incomplete_molecule.json")
open(bad_mol, "w").write('{"schema_name": "qcschema_molecule", "schema_version": 2, "provenance": {}}')
few_keys = os.path.join(tmp, "few_keys.json")
open(few_keys, "w").write('{"symbols": ["H", "H"], "geometry": [0, 0, 0, 0, 0, 1.4], "molecular_charge": 0, "molecular_multiplicity": 1}')
hs_code = "import sys, warnings\nfrom iodata import load_one\nwith warnings.catch_warnings(record=True) as w:\n    warnings.simplefilter('always')\n    try:\n        load_one(sys.argv[1], fmt='json_qcschema'); out = 'ok'\n    except Exception as exc:\n        out = type(exc).__name__ + ': ' + str(exc)\nprint(repr((out, [str(x.message) for x in w])))"
for fn in (bad_json, bad_mol, few_keys):
    outs = {}
    for hseed in range(8):
        cases += 1
        p = subprocess.run([sys.executable, "-c", hs_code, fn], capture_output=True, text=True, env=dict(env, PYTHONHASHSEED=str(hseed)))
        outs.setdefault(p.stdout.strip()[-300:], []).append(hseed)
    if len(outs) > 1:
        fails.append(((os.path.basename(fn), sorted(outs.items(), key=lambda kv: kv[1])[:3]), "the outcome of a call depends on the hash seed of the interpreter"))
# two API calls on distinct files, interleaved from two threads in one fixed order (A enters, B enters, A leaves, B leaves)
th_code = r'''
import os, sys, tempfile, threading, warnings
import numpy as np
import iodata
from iodata import IOData, dump_many, load_many, load_one, write_input
PDB = os.path.join(os.path.dirname(iodata.__file__), "test", "data", "water_single_no_end.pdb")  # loading it emits one LoadWarning
tmp = tempfile.mkdtemp()
seen = []
def hook(message, category, filename, lineno, file=None, line=None): seen.append(str(message))
warnings.simplefilter("always"); warnings.showwarning = hook
def count(func):
    n0 = len(seen); func(); return len(seen) - n0
ref_seq = count(lambda: load_one(PDB))
ref_a = count(lambda: dump_many(load_many(PDB), os.path.join(tmp, "ref_a.xyz")))
a_in, b_in, a_done = threading.Event(), threading.Event(), threading.Event()
water = IOData(atnums=[8, 1, 1], atcoords=np.array([[0, 0, 0], [0, 0, 1.8], [1.8, 0, 0.0]]))
result = {}
def frames_a():
    a_in.set(); b_in.wait(10)
    yield from load_many(PDB)
def atom_line_b(data, iatom):
    if iatom == 0:
        b_in.set(); a_done.wait(10)
    return f"X {iatom}"
def thread_a():
    result["a"] = count(lambda: dump_many(frames_a(), os.path.join(tmp, "a.xyz"))); a_done.set()
def thread_b():
    a_in.wait(10); write_input(water, os.path.join(tmp, "b.com"), fmt="gaussian", atom_line=atom_line_b)
ta, tb = threading.Thread(target=thread_a), threading.Thread(target=thread_b)
ta.start(); tb.start(); ta.join(); tb.join()
after_seq = count(lambda: load_one(PDB))
__import__("shutil").rmtree(tmp, True)
print(repr(dict(alone=(ref_a, ref_seq), threaded=result.get("a"), afterwards=after_seq, hook_kept=warnings.showwarning is hook)))
'''
cases += 1
p = subprocess.run([sys.executable, "-c", th_code], capture_output=True, text=True, env=env)
try:
    t = eval(p.stdout.strip().splitlines()[-1])
    if t["threaded"] != t["alone"][0] or t["afterwards"] != t["alone"][1] or not t["hook_kept"]:
        fails.append((t, "two calls on distinct files interleaved from two threads: warnings are lost and the warnings machinery of the process stays altered"))
except Exception as exc:
    fails.append(((p.stdout[-200:], p.stderr[-300:]), "thread driver crashed"))
sig = {}
for f in fails: sig.setdefault(f[1], f)
print(json.dumps(dict(cases=cases, nfails=len(fails), kinds={k: repr(v)[:400] for k, v in sig.items()}), default=str))
"""
_TAIL = "print(json.dumps(dict(cases=cases, nfails=len(fails), kinds={k: repr(v)[:400] for k, v in sig.items()}), default=str))"


def run_bounded(chk):
    env = dict(os.environ, PYTHONPATH=source.REPO)
    out = subprocess.run([VENV_PY, "-c", BOUNDED, str(chk.seed)], capture_output=True, text=True, env=env, cwd="/", timeout=3000)
    if out.returncode != 0:
        chk.fault(f"bounded driver crashed: {out.stderr[-1500:]}")
        return
    res = json.loads(out.stdout.strip().splitlines()[-1])
    bound = "pool of up to 19 API calls (loads, conversions incl. failing ones, input writers, a name matching several patterns); each alone in a fresh interpreter vs. 5 sequential orders (forward, reverse, 3 seeded shuffles with repetition) in one interpreter; module tables snapshotted"
    for kind, example in sorted(res["kinds"].items()):
        script = BOUNDED.replace("seed = int(sys.argv[1])", f"seed = {chk.seed}").replace(_TAIL, f"print(sig.get({kind!r}))\nif {kind!r} in sig:\n    print('REPRODUCED'); sys.exit(1)")
        chk.add_bounded(f"histories.{kind}", bound, res["cases"], [example], replay_script=script)
    if not res["kinds"]:
        chk.add_bounded("histories", bound, res["cases"], [])


REPLAY_HASHSEED = """
import os, subprocess, sys, tempfile
tmp = tempfile.mkdtemp()
fn = os.path.join(tmp, "f.json")
open(fn, "w").write({content!r})
code = "import sys, warnings\\nfrom iodata import load_one\\nwith warnings.catch_warnings(record=True) as w:\\n    warnings.simplefilter('always')\\n    try:\\n        load_one(sys.argv[1], fmt='json_qcschema'); out = 'ok'\\n    except Exception as exc:\\n        out = type(exc).__name__ + ': ' + str(exc)\\nprint(repr((out, [str(x.message) for x in w])))"
outs = {{}}
for hseed in range(8):
    p = subprocess.run([sys.executable, "-c", code, fn], capture_output=True, text=True, env=dict(os.environ, PYTHONHASHSEED=str(hseed)))
    outs.setdefault(p.stdout.strip()[-300:], []).append(hseed)
__import__("shutil").rmtree(tmp, True)
for k, v in outs.items():
    print("PYTHONHASHSEED in", v, "->", k)
if len(outs) > 1:
    print("REPRODUCED"); sys.exit(1)
"""
HASHSEED_FILES = {
    "_parse_input_keys": '{"schema_name": "qcschema_input", "schema_version": 1}',
    "_parse_output_keys": '{"schema_name": "qcschema_output", "schema_version": 2}',
    "_parse_topology_keys": '{"symbols": ["H", "H"], "geometry": [0, 0, 0, 0, 0, 1.4], "molecular_charge": 0, "molecular_multiplicity": 1}',
}


def run(chk):
    chk.functions += ["every function of the iodata package (no write to module-level state)", "every function reachable from the five API functions and __main__ (purity)"]
    chk.trusted += ["provenance axioms as in C09", "module-level names are bound once at import (no `global` statement anywhere: checked)", "the standard library and numpy/scipy keep no history-dependent state that affects results"]
    chk.functions += ["every function of the iodata package with a loop or comprehension (iteration order defined by the arguments)"]
    chk.assumptions += ["sequential histories only: G1/G2 remove every shared mutable state inside iodata, which is what makes call results independent of order and repetition"]
    chk.not_covered += ["thread schedules (2..16 threads): contract-based verification as built here is silent on concurrency; warnings.catch_warnings in api._reissue_warnings is documented by CPython as not thread-safe -- this half of the property is NOT decided; one fixed interleaving of two calls is replayed by the bounded driver (a recorded finding)"]
    # a dump that alters the object it was given makes the next call on that object depend on the history: the frame
    # obligations of the dump call graph (C09) are part of this property and are re-decided here
    res = collect(chk, run_jobs([("checks.c16", "job_frame", {}), ("checks.c16", "job_order", {}), ("checks.c09", "job_frame", {})]))
    for r in res:
        if "reachable" not in r:
            continue
        chk.notes["functions_checked"] = r.get("functions")
        chk.notes["functions_reachable_from_api"] = r.get("reachable")
        chk.notes["mutation_sites_checked"] = r.get("mutation_sites")
    run_bounded(chk)
    for o in chk.ledger.obligations.values():
        if o.status == "refuted" and o.name.startswith("order@"):
            fn = o.name.split("::")[0].rsplit(".", 1)[-1]
            if fn in HASHSEED_FILES:
                chk.set_replay(o.name, REPLAY_HASHSEED.format(content=HASHSEED_FILES[fn]))
    chk.samples = [o.as_dict() for o in list(chk.ledger.obligations.values())[:6]]
    chk.notes["explanation"] = "C16: no function writes module-level state or reads mutable process state (provenance analysis over the whole package); sequential histories follow; thread schedules not decided"
