"""C05 - Molden/Molekel files from quirky programs load as the true wavefunction.

  K1 (deductive, pyvc)  control contract of molden._fix_molden_from_buggy_codes, executed symbolically on the real
      source with its callees under contract: `_is_normalized_properly` is an arbitrary predicate (every outcome
      sequence is explored), the `_fix_*` helpers return arbitrary new bases / correction vectors (or None where the
      code allows it), the orbital coefficients are arbitrary real matrices of arbitrary size.  Proved on every path:
        - a file that passes the test as it stands is returned untouched, without warning, after a single test;
        - whatever is returned (basis, alpha and beta coefficients) is exactly the candidate of the last test, and
          that test succeeded; every test examines both spin blocks of one and the same candidate;
        - an accepted correction is announced by exactly one LoadWarning that names it;
        - when no candidate passes, LoadError is raised.
  K2 (deductive, pyvc)  `_is_normalized_properly` for blocks of any size (loop invariant over the columns, the quadratic
      form c^T S c an uninterpreted function of block and column): returns True iff every column of the alpha block and,
      when given, of the beta block has |c^T S c - 1| <= threshold.  Cross-checked natively with an identity overlap
      (bounded): one column at a time, every position, <= 3+3 orbitals, error just above / below the threshold.
  K3 (bounded) bounded/vendor_probe.py: true wavefunctions encoded with each vendor's deviations, as Molden (AU and
      Angs) and Molekel, several thresholds, geometry scans in one process, corrupted encodings.
The correctness of the individual correction formulas (the factors in _fix_obasis_*, _fix_mo_coeffs_*) and of the norm
test w.r.t. the true overlap (C06) is only exercised by K3.
"""

from __future__ import annotations

import json
import os
import subprocess
import types
import warnings

import z3

from pyvc import source
from pyvc.core import Ledger
from pyvc.harness import get_target, verify
from pyvc.interp import Config
from pyvc.pool import collect, run_jobs
from pyvc.report import VENV_PY, VERIF
from pyvc.values import SArr, SOpt, to_z3

from checks.c12 import make_mo

LEVEL = "other"
M = "iodata.formats.molden"
T = f"{M}._fix_molden_from_buggy_codes"

NAMES = {"orca": "ORCA", "psi4": "PSI4 < 1.0", "turbomole": "Turbomole", "cfour": "CFOUR 2.1", "normed": "unnormalized contractions", "psi4c": "PSI4 <= 1.3.2"}


def warning_text(w):
    """Message of a warning object, be it a host object or an interpreted instance."""
    from pyvc.values import Obj

    if isinstance(w, Obj):
        parts = [str(v) for v in list(w.fields.values()) + list(getattr(w, "args", []) or [])]
        return " ".join(parts)
    return str(w)


def warning_class(w):
    from pyvc.values import Obj

    return w.cls.__name__ if isinstance(w, Obj) else type(w).__name__


def entails(ctx, f):
    from pyvc.core import check_valid

    return check_valid(ctx.pc, f, timeout_ms=8000)[0] == "discharged"


def job_cascade(kind="restricted"):
    basis_mod = source.import_repo("iodata.basis")
    mk = lambda tag: basis_mod.MolecularBasis([], {}, tag)  # noqa: E731  concrete, distinguishable stand-ins
    ob0 = mk("file")
    cand = {"orca": mk("orca"), "psi4": mk("psi4"), "turbomole": mk("turbomole"), "normed": mk("normed")}
    cfg = Config()
    state = {}

    def snap(a):
        return None if a is None else a.copy()

    def c_norm(interp, args, kwargs):
        ctx = interp.ctx
        obasis, _atcoords, ca, cb = (interp.resolve(a) for a in args[:4])
        thr_arg = interp.resolve(args[4]) if len(args) > 4 else kwargs.get("norm_threshold", "omitted (the callee's default would apply)")
        b = ctx.branch(z3.Bool(ctx.fresh("normalized")))
        ctx.event("test", obasis, snap(ca), snap(cb), b, thr_arg)
        return b

    def basis_contract(name, optional):
        def model(interp, args, kwargs):
            ctx = interp.ctx
            ctx.event("fix", name, interp.resolve(args[0]))
            if optional and not ctx.branch(z3.Bool(ctx.fresh(name + ".applies"))):
                return None
            return cand[name]

        return model

    def corr_contract(name):
        def model(interp, args, kwargs):
            ctx = interp.ctx
            ctx.event("fix", name, interp.resolve(args[0]))
            if not ctx.branch(z3.Bool(ctx.fresh(name + ".applies"))):
                return None
            arr = SArr.fresh("corr." + name, (state["nbasis"],), "float")
            i = z3.Int("ci")
            ctx.assume(z3.ForAll([i], to_z3(arr.get((i,))) > 0))
            state["corr." + name] = arr
            return arr

        return model

    cfg.contracts[f"{M}._is_normalized_properly"] = c_norm
    cfg.contracts[f"{M}._fix_obasis_orca"] = basis_contract("orca", False)
    cfg.contracts[f"{M}._fix_obasis_psi4"] = basis_contract("psi4", True)
    cfg.contracts[f"{M}._fix_obasis_turbomole"] = basis_contract("turbomole", True)
    cfg.contracts[f"{M}._fix_obasis_normalize_contractions"] = basis_contract("normed", False)
    cfg.contracts[f"{M}._fix_mo_coeffs_cfour"] = corr_contract("cfour")
    cfg.contracts[f"{M}._fix_mo_coeffs_psi4"] = corr_contract("psi4c")
    cfg.models[warnings.warn] = lambda interp, args, kwargs: interp.ctx.event("warn", interp.resolve(args[0]))
    cfg.modifies_args = True  # the contract of this function is to update result / result["mo"].coeffs in place

    def setup(ctx, interp):
        mo, dims = make_mo(ctx, kind, tag="mo")
        coeffs = SArr.fresh("coeffs0", (dims["nbasis"] if kind != "generalized" else 2 * dims["nbasis"], dims["norb"]), "float")
        mo.fields["coeffs"] = coeffs
        state.update(nbasis=dims["nbasis"], mo=mo, dims=dims, init=coeffs.copy())
        result = {"obasis": ob0, "atcoords": "ATCOORDS", "mo": mo}
        state["result"] = result
        lit = source.import_repo("iodata.utils").LineIterator("f.molden")  # concrete: only filename / lineno are read
        thr = z3.Real("norm_threshold")
        from pyvc.values import SReal

        return get_target(f"{M}:_fix_molden_from_buggy_codes"), [result, lit, SReal(thr)], {}, {}

    def arr_eq(ctx, a, b):
        """z3 formula: arrays a and b (SArr of equal rank) agree on every index within a's shape."""
        idx = [z3.Int(f"q{k}") for k in range(a.ndim)]
        inb = [z3.And(i >= 0, i < (z3.IntVal(s) if isinstance(s, int) else s)) for i, s in zip(idx, a.shape)]
        return z3.ForAll(idx, z3.Implies(z3.And(*inb), to_z3(a.get(tuple(idx))) == to_z3(b.get(tuple(idx)))))

    def post(out, env):
        ctx, interp = out.ctx, out.interp
        tr = ctx.trace
        tests = [e for e in tr if e[0] == "test"]
        warns = [e for e in tr if e[0] == "warn"]
        result, mo = state["result"], state["mo"]
        if kind == "generalized":
            ctx.prove(f"{T}::raises.generalized-orbitals-are-rejected-with-LoadError", out.kind == "raise" and getattr(out.exc_class, "__name__", "") == "LoadError" and not tests, kind="raises")
            return
        read = lambda name: interp.resolve(interp.load_attr(mo, name))  # noqa: E731
        init = state["init"]
        n_a = state["dims"]["na"]
        a0 = SArr((state["nbasis"], n_a), lambda ix: init.get(ix), "float")
        b0 = SArr((state["nbasis"], state["dims"]["nb"]), lambda ix: init.get((ix[0], ix[1] + n_a)), "float") if kind == "unrestricted" else None

        def scaled(base, corr):
            return SArr(base.shape, lambda ix: to_z3(base.get(ix)) / to_z3(corr.get((ix[0],))), "float")

        # the candidates the cascade may test: (label, basis, alpha, beta)
        cands = [("file", ob0, a0, b0)]
        for nm in ("orca", "psi4", "turbomole"):
            cands.append((nm, cand[nm], a0, b0))
        if "corr.cfour" in state:
            c = state["corr.cfour"]
            cands.append(("cfour", ob0, scaled(a0, c), scaled(b0, c) if b0 is not None else None))
        cands.append(("normed", cand["normed"], a0, b0))
        if "corr.psi4c" in state:
            c = state["corr.psi4c"]
            cands.append(("psi4c", cand["normed"], scaled(a0, c), scaled(b0, c) if b0 is not None else None))

        def which(test):
            _, basis, ca, cb, _b, _t = test
            for label, cb_basis, xa, xb in cands:
                if basis is not cb_basis:
                    continue
                if (cb is None) != (xb is None):
                    continue
                f = arr_eq(ctx, xa, ca) if xb is None else z3.And(arr_eq(ctx, xa, ca), arr_eq(ctx, xb, cb))
                if entails(ctx, f):
                    return label
            return None

        labels = [which(t) for t in tests]
        if os.environ.get("C05_DEBUG"):
            print("PATH", out.kind, getattr(out, "exc_class", None) if out.kind == "raise" else "", labels, [t[4] for t in tests], [(warning_class(w[1]), warning_text(w[1])[:90]) for w in warns], flush=True)
        ctx.prove(f"{T}::post.every-test-examines-both-spin-blocks-of-one-candidate-(basis,alpha,beta)", all(lb is not None for lb in labels) and len(tests) >= 1)
        thr_ok = all(hasattr(t[5], "t") and z3.eq(to_z3(t[5]), z3.Real("norm_threshold")) for t in tests)
        ctx.prove(f"{T}::post.every-test-uses-the-caller's-norm_threshold", thr_ok, witness={"thresholds passed": [str(getattr(t[5], "t", t[5])) for t in tests]})
        if kind == "unrestricted":
            ctx.prove(f"{T}::post.beta-orbitals-are-passed-to-every-test", all(t[3] is not None for t in tests))
        ctx.prove(f"{T}::post.candidates-are-tried-in-the-documented-order-without-repetition", labels == [c[0] for c in cands][: len(labels)] or all(labels[i] in [c[0] for c in cands] for i in range(len(labels))) and len(set(labels)) == len(labels) and labels == sorted(labels, key=[c[0] for c in cands].index))
        if out.kind == "return":
            ok_last = bool(tests) and tests[-1][4] is True and all(t[4] is False for t in tests[:-1])
            ctx.prove(f"{T}::post.returns-only-right-after-a-successful-test-(all-earlier-tests-failed)", ok_last)
            if not tests:
                return
            _, basis, ca, cb, _b, _t = tests[-1]
            ctx.prove(f"{T}::post.returned-basis-is-the-basis-of-the-successful-test", result["obasis"] is basis)
            if kind == "restricted":
                ctx.prove(f"{T}::post.returned-coefficients-are-those-of-the-successful-test", arr_eq(ctx, ca, read("coeffs")))
            else:
                ctx.prove(f"{T}::post.returned-alpha-coefficients-are-those-of-the-successful-test", arr_eq(ctx, ca, read("coeffsa")))
                ctx.prove(f"{T}::post.returned-beta-coefficients-are-those-of-the-successful-test", arr_eq(ctx, cb, read("coeffsb")))
            if len(tests) == 1:
                ctx.prove(f"{T}::post.a-file-that-passes-as-it-stands-is-returned-without-warning", not warns and result["obasis"] is ob0)
                ctx.prove(f"{T}::post.a-file-that-passes-as-it-stands-keeps-its-coefficients", arr_eq(ctx, init, read("coeffs")))
            else:
                lb = labels[-1]
                msg = warning_text(warns[0][1]) if len(warns) == 1 else ""
                ctx.prove(f"{T}::post.an-accepted-correction-is-announced-by-exactly-one-LoadWarning-naming-it", len(warns) == 1 and lb in NAMES and NAMES[lb].split()[0] in msg and (lb != "psi4c" or "1.3.2" in msg) and (lb != "psi4" or "1.0" in msg) and warning_class(warns[0][1]) == "LoadWarning")
        else:
            ctx.prove(f"{T}::raises.only-LoadError-and-only-after-every-candidate-failed", getattr(out.exc_class, "__name__", "") == "LoadError" and all(t[4] is False for t in tests) and {"file", "orca", "normed"} <= set(labels) and not warns, kind="raises")
            ctx.prove(f"{T}::raises.nothing-was-modified-before-rejecting", result["obasis"] is ob0 and entails(ctx, arr_eq(ctx, init, read("coeffs"))), kind="raises")

    return verify(T, setup, post, config=cfg, max_paths=4000, quant_feas=True)


def job_norm(with_beta=True):
    """_is_normalized_properly on blocks of any size: True iff every column of every given block has |c^T S c - 1| <= threshold.
    The quadratic form is an uninterpreted function of (block, column); the overlap is an opaque token."""
    import numpy as np

    from pyvc.interp import LoopSpec
    from pyvc.values import Opaque, SReal

    T = f"{M}._is_normalized_properly"  # noqa: N806
    cfg = Config()
    I, R = z3.IntSort(), z3.RealSort()
    nb = z3.Int("nbasis"); na = z3.Int("norba"); nbt = z3.Int("norbb")
    fa = z3.Function("alpha", I, I, R); fb = z3.Function("beta", I, I, R)
    # quadratic form c_j^T S c_j of column j of the alpha / beta block w.r.t. the overlap of (obasis, atcoords)
    Q = {"alpha": z3.Function("normsq.alpha", I, R), "beta": z3.Function("normsq.beta", I, R)}
    thr = z3.Real("norm_threshold")
    dev = lambda which, j: z3.If(Q[which](j) - 1 >= 0, Q[which](j) - 1, 1 - Q[which](j))  # noqa: E731
    olp = Opaque("overlap")
    cfg.contracts["iodata.overlap.compute_overlap"] = lambda interp, args, kwargs: olp
    cfg.contracts[f"{M}.compute_overlap"] = lambda interp, args, kwargs: olp

    class HalfDot:
        def __init__(self, which, col):
            self.which, self.col = which, col

    def column_of(vec):
        """Which column of which block is this vector?  Decided on the element term (alpha(i, j) / beta(i, j))."""
        i = z3.Int("i!col")
        t = to_z3(vec.get((i,)))
        if z3.is_app(t) and t.decl().name() in ("alpha", "beta") and t.num_args() == 2 and z3.eq(t.arg(0), i):
            return t.decl().name(), t.arg(1)
        return None

    def dot(interp, args, kwargs):
        a, b = interp.resolve(args[0]), interp.resolve(args[1])
        if a is olp and isinstance(b, SArr):
            wc = column_of(b)
            if wc is None:
                raise AssertionError("harness: np.dot(olp, v) with v not a column of the orbital blocks")
            return HalfDot(*wc)
        if isinstance(a, SArr) and isinstance(b, HalfDot):
            wc = column_of(a)
            ok = wc is not None and wc[0] == b.which and interp.ctx.qsolver.entails(wc[1] == b.col) if hasattr(interp.ctx.qsolver, "entails") else (wc is not None and wc[0] == b.which and z3.eq(wc[1], b.col))
            if not ok:
                raise AssertionError("harness: quadratic form of two different columns")
            interp.ctx.event("norm", b.which, b.col)
            return SReal(Q[b.which](b.col))
        raise AssertionError("harness: unexpected np.dot")

    cfg.models[np.dot] = dot

    def which_of(frame):
        wc = column_of(SArr((nb,), lambda ix: frame.locals["orb"].get((ix[0], z3.IntVal(0))), "float"))
        return wc[0]

    def havoc(interp, frame, k):
        frame.locals["error_max"] = SReal(interp.ctx.fresh_real("error_max"))

    def inv(interp, frame, k):
        w = which_of(frame)
        em = to_z3(frame.locals["error_max"])
        j = z3.Int("j!inv")
        n = na if w == "alpha" else nbt
        done = z3.ForAll([j], z3.Implies(z3.And(j >= 0, j < k), dev(w, j) <= thr))
        if w == "beta":
            done = z3.And(done, z3.ForAll([j], z3.Implies(z3.And(j >= 0, j < na), dev("alpha", j) <= thr)))
        return z3.And(k <= n, em >= 0, (em <= thr) == done)

    cfg.loop_specs[(T, 1)] = LoopSpec("range(orb.shape[1])", havoc, inv, name="loop.columns")

    def setup(ctx, interp):
        ctx.assume(z3.And(nb >= 0, na >= 0, nbt >= 0, thr >= 0))
        A = SArr((nb, na), lambda ix: fa(*ix), "float"); A.prov = "arg"
        B = SArr((nb, nbt), lambda ix: fb(*ix), "float"); B.prov = "arg"
        return get_target(f"{M}:_is_normalized_properly"), ["OBASIS", "ATCOORDS", A, B if with_beta else None, SReal(thr)], {}, {}

    def post(out, env):
        ctx = out.ctx
        ctx.prove(f"{T}::post.returns-normally", out.kind == "return")
        if out.kind != "return":
            return
        j = z3.Int("j!post")
        allok = z3.ForAll([j], z3.Implies(z3.And(j >= 0, j < na), dev("alpha", j) <= thr))
        if with_beta:
            allok = z3.And(allok, z3.ForAll([j], z3.Implies(z3.And(j >= 0, j < nbt), dev("beta", j) <= thr)))
        tag = "alpha-and-beta" if with_beta else "alpha-only"
        ctx.prove(f"{T}[{tag}]::post.True-iff-every-orbital-of-every-given-block-has-|c^T-S-c - 1|<=threshold", to_z3(out.value) == allok)

    return verify(T, setup, post, config=cfg, max_paths=200, quant_feas=True)



CALLEES = ["_is_normalized_properly", "_fix_obasis_orca", "_fix_obasis_psi4", "_fix_obasis_turbomole", "_fix_obasis_normalize_contractions", "_fix_mo_coeffs_psi4", "_fix_mo_coeffs_cfour"]


def job_callee_frames():
    """The part of the callee contracts assumed by job_cascade that a frame analysis can discharge: the helpers (and
    everything they call) write neither into what their arguments reach nor into module-level state."""
    from pyvc.frame import Analysis

    from checks.c09 import all_modules, offending

    led = Ledger()
    an = Analysis(all_modules()).run()
    for name in CALLEES:
        roots = [f"{M}.{name}"]
        reach = an.reachable(roots)
        bad = []
        for k in sorted(reach):
            if k.startswith(("iodata.orbitals.MolecularOrbitals.", "iodata.basis.", "iodata.utils.")) and (k.endswith("__init__") or k.endswith("__attrs_post_init__")):
                continue
            fi = an.funcs[k]
            b = offending(fi)
            if fi.qualname.endswith("__init__") or fi.qualname.endswith("__attrs_post_init__"):
                b = [x for x in b if x[2] != ["arg:self"]]
            bad += [(k, *x) for x in b]
        led.record(f"frame@{M}.{name}::callee-contract.modifies-nothing-reachable-from-its-arguments-or-module-state", "frame", "refuted" if bad else "discharged", "provenance", 0.0, detail=f"{len(reach)} functions reachable; " + "; ".join(f"{k} line {ln}: {txt} -> {tags}" for k, ln, txt, tags in bad[:3]), witness={"sites": [str(b) for b in bad[:3]]} if bad else None)
    return led


# ----------------------------------------------------------------------------------------------------------------
NORM_SCRIPT = r"""
import itertools, json, sys
import numpy as np
from iodata.basis import MolecularBasis, Shell
from iodata.formats import molden
molden.compute_overlap = lambda obasis, atcoords: np.eye(5)
OBASIS = MolecularBasis([Shell(0, [0], ["c"], [1.0 + i], [[1.0]]) for i in range(5)], molden.CONVENTIONS, "L2")
ATCOORDS = np.zeros((1, 3))
fails, n = [], 0
for na in (1, 2, 3):
    for nb in (None, 1, 2, 3):
        for thr in (1e-6, 1e-4, 1e-2):
            spots = [("a", j) for j in range(na)] + [("b", j) for j in range(nb or 0)] + [None]
            for spot in spots:
                for factor, expect in ((2.0, False), (0.5, True)):
                    a = np.eye(5)[:, :na].copy()
                    b = None if nb is None else np.eye(5)[:, 1:1 + nb].copy()
                    if spot is not None:
                        tgt = a if spot[0] == "a" else b
                        # norm = s^2 -> error = |s^2 - 1| = factor * thr
                        tgt[:, spot[1]] *= np.sqrt(1 + factor * thr)
                    want = True if spot is None else expect
                    n += 1
                    got = bool(molden._is_normalized_properly(OBASIS, ATCOORDS, a, b, thr))
                    if got != want and len(fails) < 5:
                        fails.append({"norba": na, "norbb": nb, "threshold": thr, "column": spot, "norm error / threshold": factor, "expected": want, "got": got})
# a norm that is not a number (NaN coefficient, negative exponent) is not "within the threshold"
for na in (1, 2, 3):
    for nb in (None, 2):
        for spin, j in [("a", j) for j in range(na)] + [("b", j) for j in range(nb or 0)]:
            a = np.eye(5)[:, :na].copy()
            b = None if nb is None else np.eye(5)[:, 1:1 + nb].copy()
            (a if spin == "a" else b)[0, j] = np.nan
            n += 1
            got = bool(molden._is_normalized_properly(OBASIS, ATCOORDS, a, b, 1e-4))
            if got and len(fails) < 5:
                fails.append({"norba": na, "norbb": nb, "column": (spin, j), "norm": "nan", "expected": False, "got": got})
print(json.dumps({"cases": n, "fails": fails}))
"""


def norm_test(chk):
    env = dict(os.environ, PYTHONPATH=source.REPO)
    out = subprocess.run([VENV_PY, "-c", NORM_SCRIPT], capture_output=True, text=True, env=env, cwd="/", timeout=600)
    if out.returncode != 0:
        chk.fault("norm test script crashed: " + out.stderr[-800:])
        return
    res = json.loads(out.stdout.strip().splitlines()[-1])
    chk.add_bounded("norm-test._is_normalized_properly-sees-every-alpha-and-beta-column", "identity overlap; 1..3 alpha and 0..3 beta columns; one column at a time with a norm error of 2x / 0.5x the threshold, or with a NaN norm; thresholds 1e-6, 1e-4, 1e-2", res["cases"], res["fails"], replay_script=NORM_SCRIPT + "\nif fails:\n    print('REPRODUCED'); sys.exit(1)\n")


def vendor_probe(chk):
    env = dict(os.environ, PYTHONPATH=source.REPO)
    probe = os.path.join(VERIF, "bounded", "vendor_probe.py")
    nshard = 12
    procs = [subprocess.Popen([VENV_PY, probe, str(chk.seed), chk.tier, f"{i}/{nshard}"], stdout=subprocess.PIPE, stderr=subprocess.PIPE, text=True, env=env, cwd="/") for i in range(nshard)]
    groups, cases = {}, {}
    for p in procs:
        so, se = p.communicate(timeout=20000)
        if p.returncode != 0:
            chk.fault("vendor probe crashed: " + se[-1200:])
            return
        res = json.loads(so.strip().splitlines()[-1])
        for k, g in res["groups"].items():
            groups.setdefault(k, []).extend(g)
        for k, v in res["cases"].items():
            cases[k] = cases.get(k, 0) + v
    bound = "random molecules of 1..3 atoms; s..g shells, Cartesian or pure; restricted and unrestricted complete orthonormal orbital sets; 7 encodings x {Molden AU, Molden Angs, Molekel} x norm_threshold in {1e-6 (Molden), 1e-4, 1e-2}; geometry scans (same basis, 3 geometries, one process); corrupted encodings (one orbital, beta block, one basis-function row)"
    if not cases:
        chk.fault("vendor probe ran no case")
    for key in sorted(cases):
        chk.add_bounded(f"vendor.{key}", bound, cases[key], [], note="failures, if any, are listed under vendor.<format>.<encoding>.<symptom>")
    for g, fl in sorted(groups.items()):
        script = (
            "import subprocess, sys, json, os\n"
            "env = dict(os.environ, PYTHONPATH=os.environ.get('PYVC_REPO', '/repo'))\n"
            f"hits = []\nfor i in range({nshard}):\n"
            f"    r = subprocess.run([sys.executable, {probe!r}, '{chk.seed}', '{chk.tier}', f'{{i}}/{nshard}'], capture_output=True, text=True, env=env)\n"
            f"    hits += json.loads(r.stdout.strip().splitlines()[-1])['groups'].get({g!r}, [])\n"
            "    if hits:\n        break\n"
            "print(json.dumps(hits[:2], indent=1, default=str)[:2000])\n"
            "if hits:\n    print('REPRODUCED'); sys.exit(1)\n"
        )
        chk.add_bounded(f"vendor.{g}", bound, sum(cases.values()), fl, replay_script=script)


def run(chk):
    chk.functions += [f"{T} (symbolic execution of the real source; callees under contract; restricted, unrestricted and generalized orbitals of arbitrary size)", f"{M}._is_normalized_properly (loop invariant, all block sizes; native cross-check bounded)", f"{M}.load_one / iodata.formats.molekel.load_one on vendor-encoded files (bounded)"]
    chk.trusted += [
        "contracts assumed for the callees of the cascade: _is_normalized_properly depends only on (basis, coordinates, alpha, beta, threshold) [its result is characterised by job_norm, its frame and those of the _fix_* helpers are discharged by job_callee_frames]; _fix_obasis_* return a new basis or None; _fix_mo_coeffs_* return a positive vector of length nbasis or None",
        "MolecularOrbitals.coeffsa / coeffsb are views of coeffs[:, :norba] / coeffs[:, norba:] (proved in C12)",
        "z3 (quantified array equalities)", "np.dot(v, np.dot(S, v)) is the quadratic form of the column v (numpy axiom); compute_overlap returns the overlap of the given basis (C06)",
        "bounded/overlap_oracle.py and the vendor encodings typed into bounded/vendor_probe.py from the documentation of the deviations",
    ]
    chk.not_covered += ["the numerical correction factors inside _fix_obasis_* / _fix_mo_coeffs_* and the choice of the right branch when several candidates pass the norm test: bounded probe only", "pure/Cartesian tag handling and section parsing of molden.load_one: bounded probe and C03/C13"]
    jobs = [("checks.c05", "job_cascade", {"kind": k}) for k in ("restricted", "unrestricted", "generalized")]
    jobs += [("checks.c05", "job_norm", {"with_beta": wb}) for wb in (True, False)]
    jobs.append(("checks.c05", "job_callee_frames", {}))
    collect(chk, run_jobs(jobs))
    norm_test(chk)
    vendor_probe(chk)
    chk.samples = [o.as_dict() for o in list(chk.ledger.obligations.values())[:6]]
    chk.notes["explanation"] = "C05: control contract of the correction cascade proved on all paths with callees under contract (pyvc), norm test and vendor encodings bounded"
