"""C10 -- basis-function convention conversion is an exact signed permutation.

Targets under contract (proved for all inputs, no bound):
  iodata.convert._convert_convention_shell     all lists of labels of any length
  iodata.convert.convert_conventions           all bases (any number of shells / contractions), two loop invariants
Lemmas over the contracts only (z3): round trip, reverse flag, composition, signs are +-1.
Ground (exhaustive evaluation): every convention table of the code base, every ordered pair of tables on
every shared shell type, iter_cart_alphabet for every n the code base uses (0..24) and negative n.
"""

from __future__ import annotations

import ast
import itertools
import random

import z3

from pyvc import source, values
from pyvc.core import Ledger, check_valid
from pyvc.harness import get_target, verify
from pyvc.interp import Config, LoopSpec, PyRaise
from pyvc.pool import collect, run_jobs
from pyvc.values import Label, Obj, SArr, SBool, SDict, SInt, SList, SSeq, SU, U, seq_of, to_z3, ustr, wrap

LEVEL = "proof"
T_SHELL = "iodata.convert._convert_convention_shell"
T_CONV = "iodata.convert.convert_conventions"


# ------------------------------------------------------------------------------------------------
# The contract of _convert_convention_shell, taken from the property statement
# ------------------------------------------------------------------------------------------------


def sgn(nm, k):
    return z3.If(nm(k) > 0, -1, 1)


def shell_bad(n1, n2, b1, b2):
    """Conventions that omit, duplicate or mismatch labels (must be rejected)."""
    i, j = z3.Ints("bi bj")
    dup1 = z3.Exists([i, j], z3.And(0 <= i, i < j, j < n1, b1(i) == b1(j)))
    dup2 = z3.Exists([i, j], z3.And(0 <= i, i < j, j < n2, b2(i) == b2(j)))
    miss12 = z3.Exists([i], z3.And(0 <= i, i < n1, z3.ForAll([j], z3.Implies(z3.And(0 <= j, j < n2), b1(i) != b2(j)))))
    miss21 = z3.Exists([i], z3.And(0 <= i, i < n2, z3.ForAll([j], z3.Implies(z3.And(0 <= j, j < n1), b2(i) != b1(j)))))
    return z3.Or(n1 != n2, dup1, dup2, miss12, miss21)


def shell_ensures(n, nm1, b1, nm2, b2, rev, P, S):
    """Clauses of the normal-return postcondition (dict name -> z3 formula)."""
    i, j = z3.Ints("pi pj")
    rng = z3.And(0 <= j, j < n)
    fwd = z3.ForAll([j], z3.Implies(rng, z3.And(b2(j) == b1(P(j)), S(j) == sgn(nm1, P(j)) * sgn(nm2, j))))
    bwd = z3.ForAll([j], z3.Implies(rng, z3.And(b1(j) == b2(P(j)), S(j) == sgn(nm2, P(j)) * sgn(nm1, j))))
    return {
        "post.range": z3.ForAll([j], z3.Implies(rng, z3.And(0 <= P(j), P(j) < n))),
        "post.label-and-sign": z3.If(rev, bwd, fwd),
        "post.injective": z3.ForAll([i, j], z3.Implies(z3.And(0 <= i, i < j, j < n), P(i) != P(j))),
    }


def mk_labels(name, n):
    nm = z3.Function(f"{name}.nminus", z3.IntSort(), z3.IntSort())
    b = z3.Function(f"{name}.base", z3.IntSort(), U)
    return SList(SSeq(n, lambda i: Label(nm(i), b(i)), list, tag=name)), nm, b


def job_shell():
    def setup(ctx, interp):
        n1, n2 = z3.Ints("n1 n2")
        ctx.assume(n1 >= 0)
        ctx.assume(n2 >= 0)
        c1, nm1, b1 = mk_labels("conv1", n1)
        c2, nm2, b2 = mk_labels("conv2", n2)
        i = z3.Int("i")
        ctx.assume(z3.ForAll([i], nm1(i) >= 0))
        ctx.assume(z3.ForAll([i], nm2(i) >= 0))
        rev = z3.Bool("reverse")
        fn = get_target("iodata.convert:_convert_convention_shell")
        return fn, [c1, c2, SBool(rev)], {}, dict(n1=n1, n2=n2, nm1=nm1, nm2=nm2, b1=b1, b2=b2, rev=rev)

    def post(out, env):
        ctx = out.ctx
        n1, n2, nm1, nm2, b1, b2, rev = (env[k] for k in "n1 n2 nm1 nm2 b1 b2 rev".split())
        bad = shell_bad(n1, n2, b1, b2)
        if out.kind == "raise":
            ctx.prove("raises.only-ValueError", out.exc_class is ValueError, kind="raises")
            ctx.prove("raises.only-when-labels-omitted-duplicated-or-mismatched", bad, kind="raises")
            return
        ctx.prove("post.rejects-omitted-duplicated-mismatched", z3.Not(bad))
        ok = isinstance(out.value, tuple) and len(out.value) == 2 and seq_of(out.value[0]) is not None and seq_of(out.value[1]) is not None
        ctx.prove("post.returns-pair-of-sequences", ok)
        if not ok:
            return
        ps, ss = seq_of(out.value[0]), seq_of(out.value[1])
        ctx.prove("post.len", z3.And(ps.n == n1, ss.n == n1))
        P = lambda k: to_z3(ps.at(k))  # noqa: E731
        S = lambda k: to_z3(ss.at(k))  # noqa: E731
        for name, goal in shell_ensures(n1, nm1, b1, nm2, b2, rev, P, S).items():
            ctx.prove(name, goal)

    return verify(T_SHELL, setup, post, quant_feas=True)


# ------------------------------------------------------------------------------------------------
# convert_conventions: callee by contract, two loop invariants, block-diagonal postcondition
# ------------------------------------------------------------------------------------------------


class _Theory:
    """Ghost functions describing a symbolic basis and two convention dictionaries."""

    def __init__(self):
        I, B = z3.IntSort(), z3.BoolSort()
        self.ns = z3.Int("nshell")
        self.ncon = z3.Function("ncon", I, I)  # contractions of shell s
        self.angm = z3.Function("angmom", I, I, I)  # (s, c) -> l
        self.kind = z3.Function("kind", I, I, U)  # (s, c) -> 'c' / 'p'
        self.has1 = z3.Function("has1", I, U, B)
        self.has2 = z3.Function("has2", I, U, B)
        self.n1 = z3.Function("len1", I, U, I)
        self.n2 = z3.Function("len2", I, U, I)
        self.nm1 = z3.Function("nm1", I, U, I, I)
        self.nm2 = z3.Function("nm2", I, U, I, I)
        self.b1 = z3.Function("b1", I, U, I, U)
        self.b2 = z3.Function("b2", I, U, I, U)
        # result of the callee as a function of the key (the callee is a function of its arguments)
        self.SP = z3.Function("shellperm", I, U, I, I)
        self.SS = z3.Function("shellsigns", I, U, I, I)
        # ghost prefix sums: off(s, c) = number of basis functions before contraction (s, c)
        self.off = z3.Function("off", I, I, I)
        self.rev = z3.Bool("reverse")
        self.BAD = z3.Function("tables_bad", I, U, B)
        # number of functions of a shell type (docs/basis.rst): (l+1)(l+2)/2 Cartesian, 2l+1 pure
        self.NF = z3.Function("nfunctions", I, U, I)

    def size(self, s, c):
        return self.n1(self.angm(s, c), self.kind(s, c))

    def valid(self, s, c):
        return z3.And(0 <= s, s < self.ns, 0 <= c, c < self.ncon(s))

    def before(self, s1, c1, s, c):
        return z3.Or(s1 < s, z3.And(s1 == s, c1 < c))

    def axioms(self):
        s, c, i = z3.Ints("as ac ai")
        l, k = z3.Int("al"), z3.Const("ak", U)
        return [
            self.ns >= 0,
            z3.ForAll([s], self.ncon(s) >= 0),
            z3.ForAll([l, k], z3.And(self.n1(l, k) >= 0, self.n2(l, k) >= 0)),
            z3.ForAll([l, k, i], z3.And(self.nm1(l, k, i) >= 0, self.nm2(l, k, i) >= 0)),
            # definition of the ghost prefix sums
            self.off(0, 0) == 0,
            z3.ForAll([s, c], z3.Implies(self.valid(s, c), self.off(s, c + 1) == self.off(s, c) + self.size(s, c))),
            z3.ForAll([s], z3.Implies(z3.And(0 <= s, s < self.ns), self.off(s + 1, 0) == self.off(s, self.ncon(s)))),
            # precondition (type invariant of Shell, see C12): every contraction is Cartesian or pure with l >= 0
            z3.ForAll([s, c], z3.Implies(self.valid(s, c), z3.And(self.angm(s, c) >= 0, z3.Or(self.kind(s, c) == ustr("c"), self.kind(s, c) == ustr("p"))))),
        ]

    def nf_def(self, l, k):
        """Ground instance of the definition of NF (added for the contraction at hand: keeps non-linear terms out of quantifiers)."""
        return self.NF(l, k) == z3.If(k == ustr("c"), values.IMUL(l + 1, l + 2) / 2, 2 * l + 1)

    def key_bad(self, l, k):
        """Opaque predicate: the two tables at key (l, k) omit, duplicate or mismatch labels.  Its meaning is
        `shell_bad` (by definition); convert_conventions only passes it through, so it is never unfolded here."""
        return self.BAD(l, k)

    def blocks_done(self, P, S, nP, s, c):
        """All contractions before (s, c) are in place and end at or before the current length."""
        s1, c1, j = z3.Ints("is ic ij")
        l1, k1 = self.angm(s1, c1), self.kind(s1, c1)
        cond = z3.And(self.valid(s1, c1), self.before(s1, c1, s, c))
        o = self.off(s1, c1)
        inblock = z3.And(cond, 0 <= j, j < self.size(s1, c1))
        # a conjunction of separate universally quantified facts (each is proved on its own)
        return z3.And(
            z3.ForAll([s1, c1], z3.Implies(cond, z3.And(self.has1(l1, k1), self.has2(l1, k1), z3.Not(self.BAD(l1, k1))))),
            z3.ForAll([s1, c1], z3.Implies(cond, z3.And(o >= 0, o + self.size(s1, c1) <= nP))),
            z3.ForAll([s1, c1], z3.Implies(cond, self.size(s1, c1) == self.NF(l1, k1))),
            z3.ForAll([s1, c1, j], z3.Implies(inblock, P(o + j) == o + self.SP(l1, k1, j))),
            z3.ForAll([s1, c1, j], z3.Implies(inblock, S(o + j) == self.SS(l1, k1, j))),
        )


def job_conventions():
    th = _Theory()
    # (l+1)*(l+2) is the only product of two symbolic integers in convert_conventions: kept as an uninterpreted term
    values.ABSTRACT_INT_PRODUCTS[0] = True

    def conv_dict(has, n, nm, b, tag):
        def has_(interp, key):
            l, k = key
            return wrap(has(to_z3(l), to_z3(k)))

        def get_(interp, key):
            l, k = to_z3(key[0]), to_z3(key[1])
            seq = SSeq(n(l, k), lambda i: Label(nm(l, k, i), b(l, k, i)), list, tag=f"{tag}[{l},{k}]")
            seq.key = (l, k)
            return SList(seq)

        return SDict(has_, get_, tag)

    def shell_at(s):
        sh = Obj(get_target("iodata.basis:Shell"), tag=f"shell[{s}]")
        sh.fields["angmoms"] = SArr((th.ncon(s),), lambda idx: th.angm(s, idx[0]), "int")
        sh.fields["kinds"] = SArr((th.ncon(s),), lambda idx: th.kind(s, idx[0]), "str")
        sh.index = s
        return sh

    # contract of the callee, as verified by job_shell
    def callee(interp, args, kwargs):
        ctx = interp.ctx
        conv1, conv2 = seq_of(args[0]), seq_of(args[1])
        rev = args[2] if len(args) > 2 else kwargs.get("reverse", False)
        l, k = conv1.key
        if not (conv2.key[0].eq(l) and conv2.key[1].eq(k)):
            raise AssertionError("harness: callee contract expects both tables at the same key")
        if ctx.branch(th.key_bad(l, k)):
            raise PyRaise(ValueError("conventions omit, duplicate or mismatch labels"))
        n = th.n1(l, k)
        P = lambda j: th.SP(l, k, j)  # noqa: E731
        S = lambda j: th.SS(l, k, j)  # noqa: E731
        ens = shell_ensures(n, lambda i: th.nm1(l, k, i), lambda i: th.b1(l, k, i), lambda i: th.nm2(l, k, i), lambda i: th.b2(l, k, i), to_z3(rev), P, S)
        for f in ens.values():
            ctx.assume(f)
        return (SList(SSeq(n, lambda j: wrap(P(j)), list)), SList(SSeq(n, lambda j: wrap(S(j)), list)))

    cfg = Config()
    cfg.contracts[T_SHELL] = callee
    # the loop state by role, not by name: the two lists that both loops extend and the function returns (in the order of
    # the return statement: permutation, signs) and the variable the outer loop binds to the shell
    _, _, ret, outer_targets, _, carried = source.loop_roles("iodata.convert", "convert_conventions", 0)
    roles = [nm for nm in ret if nm in carried][:2]
    if len(roles) != 2 or not outer_targets:
        # no pair of lists that the shell loop extends and the function returns: the loop contracts do not apply
        led = Ledger()
        led.record(f"{T_CONV}::loop-contract.applies", "anchor", "unknown", "ast", 0.0, detail="convert_conventions no longer accumulates its two results in the shell loop: re-annotation needed")
        values.ABSTRACT_INT_PRODUCTS[0] = False
        return led
    PERM, SIGNS = roles
    SHELL = outer_targets[0]

    def fresh_lists(interp, frame, tag):
        ctx = interp.ctx
        nP, nS = ctx.fresh_int(f"{tag}.lenP"), ctx.fresh_int(f"{tag}.lenS")
        ctx.assume(z3.And(nP >= 0, nS >= 0))  # type invariant: a list length is non-negative
        fP = z3.Function(ctx.fresh(f"{tag}.P"), z3.IntSort(), z3.IntSort())
        fS = z3.Function(ctx.fresh(f"{tag}.S"), z3.IntSort(), z3.IntSort())
        frame.locals[PERM] = SList(SSeq(nP, lambda i: wrap(fP(i)), list))
        frame.locals[SIGNS] = SList(SSeq(nS, lambda i: wrap(fS(i)), list))

    def state(frame):
        p, s = seq_of(frame.locals[PERM]), seq_of(frame.locals[SIGNS])
        return (lambda i: to_z3(p.at(i))), (lambda i: to_z3(s.at(i))), p.n, s.n

    # outer loop: `for shell in molbasis.shells`, k = number of shells done
    def outer_havoc(interp, frame, k):
        fresh_lists(interp, frame, "outer")

    def outer_inv(interp, frame, k):
        P, S, nP, nS = state(frame)
        return z3.And(k <= th.ns, nP == th.off(k, 0), nS == nP, th.blocks_done(P, S, nP, k, z3.IntVal(0)))

    # inner loop: `for angmom, kind in zip(shell.angmoms, shell.kinds)`, c = contractions of this shell done
    def inner_havoc(interp, frame, c):
        fresh_lists(interp, frame, "inner")
        sidx = frame.locals[SHELL].index
        interp.ctx.assume(th.nf_def(th.angm(sidx, to_z3(c)), th.kind(sidx, to_z3(c))))

    def inner_inv(interp, frame, c):
        P, S, nP, nS = state(frame)
        s = frame.locals[SHELL].index
        return z3.And(0 <= s, s < th.ns, c <= th.ncon(s), nP == th.off(s, c), nS == nP, th.blocks_done(P, S, nP, s, c))

    cfg.loop_specs[(T_CONV, 0)] = LoopSpec("molbasis.shells", outer_havoc, outer_inv, name="loop.shells")
    cfg.loop_specs[(T_CONV, 1)] = LoopSpec(f"zip({SHELL}.angmoms, {SHELL}.kinds)", inner_havoc, inner_inv, name="loop.contractions")

    def setup(ctx, interp):
        for ax in th.axioms():
            ctx.assume(ax)
        mb = Obj(get_target("iodata.basis:MolecularBasis"), tag="molbasis")
        mb.fields["shells"] = SList(SSeq(th.ns, shell_at, list, tag="shells"))
        mb.fields["conventions"] = conv_dict(th.has1, th.n1, th.nm1, th.b1, "conventions")
        new = conv_dict(th.has2, th.n2, th.nm2, th.b2, "new_conventions")
        fn = get_target("iodata.convert:convert_conventions")
        return fn, [mb, new, SBool(th.rev)], {}, {}

    def post(out, env):
        ctx = out.ctx
        s, c = z3.Ints("ws wc")
        l, k = th.angm(s, c), th.kind(s, c)
        some_missing = z3.Exists([s, c], z3.And(th.valid(s, c), z3.Or(z3.Not(th.has1(l, k)), z3.Not(th.has2(l, k)))))
        some_bad = z3.Exists([s, c], z3.And(th.valid(s, c), th.has1(l, k), th.has2(l, k), z3.Or(th.key_bad(l, k), th.n1(l, k) != th.NF(l, k))))
        if out.kind == "raise":
            cls = out.exc_class
            ctx.prove("raises.only-KeyError-or-ValueError", cls in (KeyError, ValueError), kind="raises")
            if cls is KeyError:
                ctx.prove("raises.KeyError-only-when-a-shell-type-is-missing", some_missing, kind="raises")
            elif cls is ValueError:
                ctx.prove("raises.ValueError-only-when-a-table-is-inconsistent", some_bad, kind="raises")
            return
        ctx.prove("post.no-return-when-a-shell-type-is-missing-or-inconsistent", z3.Not(z3.Or(some_missing, some_bad)))
        ok = isinstance(out.value, tuple) and len(out.value) == 2 and all(isinstance(v, SArr) and v.ndim == 1 for v in out.value)
        ctx.prove("post.returns-two-1d-arrays", ok)
        if not ok:
            return
        pa, sa = out.value
        P = lambda i: pa.get((i,))  # noqa: E731
        S = lambda i: sa.get((i,))  # noqa: E731
        ctx.prove("post.length-is-total-number-of-functions", z3.And(pa.n0() == th.off(th.ns, 0), sa.n0() == pa.n0()))
        # "omit ... labels are rejected, never silently mis-mapped": a block must have as many entries as the shell type has
        # functions (docs/basis.rst: (l+1)(l+2)/2 Cartesian, 2l+1 pure); otherwise every later shell is shifted
        ctx.prove("post.every-block-has-as-many-entries-as-its-shell-type-has-functions", z3.Implies(th.valid(s, c), th.n1(l, k) == th.NF(l, k)))  # s, c free: for all

    try:
        return verify(T_CONV, setup, post, config=cfg, quant_feas=True)
    finally:
        values.ABSTRACT_INT_PRODUCTS[0] = False


def job_block_length():
    """One shell with one contraction of arbitrary type and arbitrary tables, all hypotheses quantifier-free: a return
    implies that the block has as many entries as the shell type has functions.  (The same fact for every position of
    every basis is the invariant conjunct of job_conventions; this ground version exists because a failing quantified
    obligation comes back `unknown`, while this one comes back with a model.)"""
    I = z3.IntSort()
    l, n1, n2 = z3.Ints("bl.l bl.len1 bl.len2")
    k = z3.Const("bl.kind", U)
    bad = z3.Bool("bl.tables_bad")
    nm = [z3.Function(f"bl.nm{i}", I, I) for i in (1, 2)]
    bs = [z3.Function(f"bl.b{i}", I, U) for i in (1, 2)]
    P, S = z3.Function("bl.P", I, I), z3.Function("bl.S", I, I)

    def conv(n, nmf, bf, tag):
        return SDict(lambda interp, key: wrap(z3.BoolVal(True)), lambda interp, key: SList(SSeq(n, lambda i: Label(nmf(i), bf(i)), list, tag=tag)), tag)

    def callee(interp, args, kwargs):
        ctx = interp.ctx
        c1, c2 = seq_of(args[0]), seq_of(args[1])
        if ctx.branch(z3.Or(bad, to_z3(c1.n) != to_z3(c2.n))):
            raise PyRaise(ValueError("conventions omit, duplicate or mismatch labels"))
        n = to_z3(c1.n)
        return (SList(SSeq(n, lambda j: wrap(P(j)), list)), SList(SSeq(n, lambda j: wrap(S(j)), list)))

    cfg = Config()
    cfg.contracts[T_SHELL] = callee
    # the contents of `permutation` / `signs` play no part in this obligation: extending them by a list of symbolic length is skipped
    cfg.method_models[(list, "extend")] = lambda interp, self_obj, args, kwargs: None

    def setup(ctx, interp):
        ctx.assume(z3.And(l >= 0, n1 >= 0, n2 >= 0, z3.Or(k == ustr("c"), k == ustr("p"))))
        sh = Obj(get_target("iodata.basis:Shell"), tag="shell")
        sh.fields["angmoms"] = [SInt(l)]
        sh.fields["kinds"] = [SU(k)]
        mb = Obj(get_target("iodata.basis:MolecularBasis"), tag="molbasis")
        mb.fields["shells"] = [sh]
        mb.fields["conventions"] = conv(n1, nm[0], bs[0], "conventions")
        return get_target("iodata.convert:convert_conventions"), [mb, conv(n2, nm[1], bs[1], "new_conventions"), False], {}, {}

    def post(out, env):
        if out.kind == "raise":
            out.ctx.prove("block.raises-only-ValueError", out.exc_class is ValueError, kind="raises")
            return
        nfn = z3.If(k == ustr("c"), ((l + 1) * (l + 2)) / 2, 2 * l + 1)
        out.ctx.prove("block.a-list-with-another-length-than-the-function-count-of-its-shell-type-is-rejected", n1 == nfn, witness=lambda m: {"l": m.eval(l, True).as_long(), "kind": "c" if z3.is_true(m.eval(k == ustr("c"), True)) else "p", "len": m.eval(n1, True).as_long()})

    return verify(T_CONV, setup, post, config=cfg)


# ------------------------------------------------------------------------------------------------
# Lemmas over the contract only
# ------------------------------------------------------------------------------------------------


def job_lemmas():
    led = Ledger()
    I = z3.IntSort()
    n = z3.Int("n")
    nmA, nmB, nmC = (z3.Function(f"nm{x}", I, I) for x in "ABC")
    bA, bB, bC = (z3.Function(f"b{x}", I, U) for x in "ABC")
    j, i = z3.Ints("j i")

    def contract(tag, nm1, b1, nm2, b2, rev):
        P = z3.Function(f"P{tag}", I, I)
        S = z3.Function(f"S{tag}", I, I)
        ens = shell_ensures(n, nm1, b1, nm2, b2, z3.BoolVal(rev), lambda k: P(k), lambda k: S(k))
        return P, S, list(ens.values())

    def distinct(b):
        return z3.ForAll([i, j], z3.Implies(z3.And(0 <= i, i < j, j < n), b(i) != b(j)))

    rng = z3.And(0 <= j, j < n)
    base = [n >= 0, distinct(bA), distinct(bB), distinct(bC)]

    def lemma(name, hyps, goal):
        status, backend, secs, model = check_valid(base + hyps, goal)
        led.record(f"C10.lemma::{name}", "lemma", status, backend, secs, model=str(model)[:2000] if model is not None else None, detail="" if status == "discharged" else f"lemma {name} not proved: {status}")

    # vector semantics: v2[j] = v1[P[j]] * S[j]
    v = z3.Function("v", I, z3.RealSort())
    Pab, Sab, Eab = contract("ab", nmA, bA, nmB, bB, False)
    Pba, Sba, Eba = contract("ba", nmB, bB, nmA, bA, False)
    Prv, Srv, Erv = contract("rv", nmA, bA, nmB, bB, True)
    Pbc, Sbc, Ebc = contract("bc", nmB, bB, nmC, bC, False)
    Pac, Sac, Eac = contract("ac", nmA, bA, nmC, bC, False)
    vB = lambda k: v(Pab(k)) * z3.ToReal(Sab(k))  # noqa: E731
    # L1 there and back is the identity
    lemma("L1.there-and-back-is-identity", Eab + Eba, z3.ForAll([j], z3.Implies(rng, vB(Pba(j)) * z3.ToReal(Sba(j)) == v(j))))
    # L2 the reverse flag gives the inverse conversion
    lemma("L2.reverse-flag-is-the-inverse", Eab + Erv, z3.ForAll([j], z3.Implies(rng, vB(Prv(j)) * z3.ToReal(Srv(j)) == v(j))))
    lemma("L2b.reverse-flag-equals-conversion-B-to-A", Eba + Erv, z3.ForAll([j], z3.Implies(rng, z3.And(Prv(j) == Pba(j), Srv(j) == Sba(j)))))
    # L3 composition
    lemma("L3.A-to-B-to-C-equals-A-to-C", Eab + Ebc + Eac, z3.ForAll([j], z3.Implies(rng, vB(Pbc(j)) * z3.ToReal(Sbc(j)) == v(Pac(j)) * z3.ToReal(Sac(j)))))
    # L4 signs
    lemma("L4.signs-are-plus-or-minus-one", Eab, z3.ForAll([j], z3.Implies(rng, z3.And(z3.Or(Sab(j) == 1, Sab(j) == -1), Sab(j) * Sab(j) == 1))))
    # uniqueness: the contract determines the result (so it *is* the permutation named in the statement)
    P2, S2, E2 = contract("ab2", nmA, bA, nmB, bB, False)
    lemma("L5.contract-determines-result-uniquely", Eab + E2, z3.ForAll([j], z3.Implies(rng, z3.And(Pab(j) == P2(j), Sab(j) == S2(j)))))
    return led


# ------------------------------------------------------------------------------------------------
# Ground obligations on the tables of the code base
# ------------------------------------------------------------------------------------------------


def cart_labels(l):
    """All monomials x^a y^b z^c with a+b+c = l, spelled with letters in x, y, z order."""
    if l == 0:
        return {"1"}
    return {"x" * a + "y" * b + "z" * (l - a - b) for a in range(l + 1) for b in range(l + 1 - a)}


def pure_labels(l):
    return {"c0"} | {f"{t}{m}" for m in range(1, l + 1) for t in "cs"}


def collect_tables():
    """Every convention table present in the code base: name -> dict."""
    tables = {}
    conv = source.import_repo("iodata.convert")
    tables["HORTON2"] = conv.HORTON2_CONVENTIONS
    tables["CCA"] = conv.CCA_CONVENTIONS
    for m in ("fchk", "molden", "wfn", "mwfn", "cp2klog", "molekel", "wfx"):
        mod = source.import_repo(f"iodata.formats.{m}")
        if hasattr(mod, "CONVENTIONS"):
            tables[m] = mod.CONVENTIONS
    # the local table of molden._fix_obasis_orca, extracted mechanically from the function's AST
    node = source.find_def("iodata.formats.molden", "_fix_obasis_orca")
    for st in ast.walk(node):
        if isinstance(st, ast.Assign) and isinstance(st.targets[0], ast.Name) and st.targets[0].id == "orca_conventions":
            glob = dict(vars(source.import_repo("iodata.formats.molden")))
            tables["orca-fix"] = eval(compile(ast.Expression(st.value), "<orca_conventions>", "eval"), glob)  # noqa: S307
    return tables


def spec_shell(conv1, conv2, reverse):
    """The statement, executable: ('raise',) or (perm, signs)."""

    def split(lbl):
        k = len(lbl) - len(lbl.lstrip("-"))
        return (-1 if k > 0 else 1), lbl[k:]

    a, b = [split(x) for x in conv1], [split(x) for x in conv2]
    na, nb = [x[1] for x in a], [x[1] for x in b]
    if len(a) != len(b) or len(set(na)) != len(na) or len(set(nb)) != len(nb) or set(na) != set(nb):
        return ("raise",)
    if reverse:
        a, b, na, nb = b, a, nb, na
    perm = [na.index(name) for name in nb]
    signs = [a[p][0] * b[j][0] for j, p in enumerate(perm)]
    return perm, signs


def real_shell(fn, conv1, conv2, reverse):
    try:
        p, s = fn(list(conv1), list(conv2), reverse)
        return [int(x) for x in p], [int(x) for x in s]
    except ValueError:
        return ("raise",)


def job_ground():
    led = Ledger()
    tables = collect_tables()
    fn = get_target("iodata.convert:_convert_convention_shell")

    def rec(name, ok, detail="", witness=None):
        led.record(f"C10.ground::{name}", "ground", "discharged" if ok else "refuted", "eval", 0.0, detail=detail, witness=witness)

    rec("tables-found", set(tables) >= {"HORTON2", "CCA", "fchk", "molden", "wfn", "mwfn", "cp2klog", "orca-fix"}, detail=str(sorted(tables)))
    nkeys = 0
    for tname, table in sorted(tables.items()):
        bad = []
        for key, labels in table.items():
            nkeys += 1
            l, kind = key
            names = [x.lstrip("-") for x in labels]
            want = cart_labels(l) if kind == "c" else pure_labels(l) if (kind == "p" and l >= 2) else None
            if want is None or sorted(names) != sorted(want) or any(x.startswith("--") for x in labels):
                bad.append((key, labels))
        rec(f"table.{tname}.each-function-of-each-shell-type-exactly-once", not bad, detail=f"bad entries: {bad[:3]}", witness={"table": tname, "bad": [str(b) for b in bad[:3]]} if bad else None)
    npairs = 0
    mism = []
    for (na, ta), (nb, tb) in itertools.product(sorted(tables.items()), repeat=2):
        for key in sorted(set(ta) & set(tb)):
            for rev in (False, True):
                npairs += 1
                want = spec_shell(ta[key], tb[key], rev)
                got = real_shell(fn, ta[key], tb[key], rev)
                if want != got:
                    mism.append({"from": na, "to": nb, "key": str(key), "reverse": rev, "expected": str(want), "observed": str(got)})
    rec("every-ordered-pair-of-tables.every-shared-shell-type", not mism, detail=str(mism[:2]), witness=mism[:2] or None)
    # single-label corruptions of a table (omit / duplicate / rename) are rejected
    corr = []
    ncorr = 0
    for tname, table in sorted(tables.items()):
        for key, labels in table.items():
            if key[0] > 6:
                continue
            for pos in range(len(labels)):
                variants = [labels[:pos] + labels[pos + 1 :], labels[:pos] + ["zz9"] + labels[pos + 1 :]]
                if len(labels) > 1:
                    variants.append(labels[:pos] + [labels[(pos + 1) % len(labels)]] + labels[pos + 1 :])
                for var in variants:
                    ncorr += 1
                    if real_shell(fn, labels, var, False) != ("raise",) or real_shell(fn, var, labels, True) != ("raise",):
                        corr.append((tname, key, var))
    rec("single-label-corruptions-rejected", not corr, detail=str(corr[:2]))
    # iter_cart_alphabet: every n the code base uses, and negative n
    ica = get_target("iodata.convert:iter_cart_alphabet")
    bad = []
    for n in range(0, 25):
        got = [tuple(int(x) for x in t) for t in ica(n)]
        want = [(a, b, n - a - b) for a in range(n, -1, -1) for b in range(n - a, -1, -1)]
        if got != want:
            bad.append(n)
    try:
        list(ica(-1))
        bad.append(-1)
    except ValueError:
        pass
    rec("iter_cart_alphabet.n<=24-alphabetical-triples-and-negative-rejected", not bad, detail=str(bad))
    return {"ledger": led, "tables": sorted(tables), "table_keys": nkeys, "pair_evaluations": npairs, "corruptions": ncorr}


# ------------------------------------------------------------------------------------------------
# model cross-check and counterexample search (concrete, on the real function)
# ------------------------------------------------------------------------------------------------


def concrete_search(seed=0, n_random=300):
    """Search small inputs on which the real _convert_convention_shell disagrees with the statement."""
    fn = get_target("iodata.convert:_convert_convention_shell")
    rng = random.Random(seed)
    cases = []
    # exhaustive: all pairs of lists of length <= 3 over two names x two signs
    labels = ["a", "-a", "b", "-b"]
    small = [list(t) for n in range(0, 4) for t in itertools.product(labels, repeat=n)]
    for a in small:
        for b in small:
            if len(a) == len(b) or rng.random() < 0.02:
                cases.append((a, b))
    pool = ["xx", "xy", "xz", "yy", "yz", "zz", "c0", "s1", "c1", "s2", "c2", "xxx", "xxy", "xyz", "yyy", "zzz", "yzz", "xzz", "xyy", "yyz", "xxz"]
    for _ in range(n_random):
        n = rng.randint(1, 18)
        base = rng.sample(pool, n)
        a = [("-" if rng.random() < 0.4 else "") + x for x in base]
        b = [("-" if rng.random() < 0.4 else "") + x for x in rng.sample(base, n)]
        r = rng.random()
        if r < 0.15:
            b[rng.randrange(n)] = rng.choice(base)
        elif r < 0.3:
            k = rng.randrange(n)
            a[k] = rng.choice(a)
            b = list(a) if rng.random() < 0.5 else b
        cases.append((a, b))
        if rng.random() < 0.3:
            # same order, other signs, called right after (history sensitivity shows up as a wrong result)
            cases.append((a, [("-" if rng.random() < 0.5 else "") + x.lstrip("-") for x in b]))
    fails = []
    for a, b in cases:
        for rev in (False, True):
            want, got = spec_shell(a, b, rev), real_shell(fn, a, b, rev)
            if want != got:
                fails.append({"conv1": a, "conv2": b, "reverse": rev, "expected": str(want), "observed": str(got)})
    return len(cases) * 2, fails


def spec_conventions(shell_types, conv1, conv2, reverse):
    """Direct sum, in shell order, of the per-contraction conversions; ('raise', cls) otherwise."""
    perm, signs = [], []
    for contractions in shell_types:
        for key in contractions:
            if key not in conv1 or key not in conv2:
                return ("raise", "KeyError")
            r = spec_shell(conv1[key], conv2[key], reverse)
            if r == ("raise",):
                return ("raise", "ValueError")
            if len(r[0]) != ((key[0] + 1) * (key[0] + 2) // 2 if key[1] == "c" else 2 * key[0] + 1):
                return ("raise", "ValueError")  # a list that omits (or adds) functions of the shell type would shift every later shell
            off = len(perm)
            perm += [p + off for p in r[0]]
            signs += r[1]
    return perm, signs


def concrete_search_conventions(seed=0, n_random=150):
    import numpy as np

    from iodata.basis import MolecularBasis, Shell

    fn = get_target("iodata.convert:convert_conventions")
    tables = collect_tables()
    rng = random.Random(seed + 7)
    names = sorted(tables)
    fails = []
    ncases = 0
    for _ in range(n_random):
        ta, tb = tables[rng.choice(names)], tables[rng.choice(names)]
        if rng.random() < 0.5:
            # random signed permutation of table a
            tb = {k: [("-" if rng.random() < 0.3 else "") + x.lstrip("-") for x in rng.sample(v, len(v))] for k, v in ta.items()}
        if rng.random() < 0.15:
            # the same label dropped from (or added to) one shell type of both dictionaries: consistent with each other, not with the shell type
            key = rng.choice(sorted(set(ta) & set(tb)))
            victim = rng.choice(ta[key]).lstrip("-")
            if rng.random() < 0.7:
                ta = {**ta, key: [x for x in ta[key] if x.lstrip("-") != victim]}
                tb = {**tb, key: [x for x in tb[key] if x.lstrip("-") != victim]}
            else:
                ta, tb = {**ta, key: [*ta[key], "extra"]}, {**tb, key: ["extra", *tb[key]]}
        keys = sorted(set(ta) & set(tb)) if rng.random() < 0.9 else sorted(set(ta))
        keys = [k for k in keys if k[0] <= 5]
        if not keys:
            continue
        shell_types = [[rng.choice(keys) for _ in range(rng.randint(1, 4))] for _ in range(rng.randint(1, 4) if ncases else 0)]  # the first case is the empty basis
        shells = [Shell(i, [k[0] for k in cs], [k[1] for k in cs], np.ones(2), np.ones((2, len(cs)))) for i, cs in enumerate(shell_types)]
        basis = MolecularBasis(shells, ta, "L2")
        for rev in (False, True):
            ncases += 1
            want = spec_conventions(shell_types, ta, tb, rev)
            try:
                p, s = fn(basis, tb, rev)
                got = ([int(x) for x in p], [int(x) for x in s])
                if p.dtype.kind != "i" or s.dtype.kind != "i":
                    got = ("not usable as `vector[permutation] * signs`: dtypes", str(p.dtype), str(s.dtype))
            except (KeyError, ValueError) as exc:
                got = ("raise", type(exc).__name__)
            if want != got:
                fails.append({"shell_types": shell_types, "conv1": {str(k): ta[k] for cs in shell_types for k in cs if k in ta}, "conv2": {str(k): tb[k] for cs in shell_types for k in cs if k in tb}, "reverse": rev, "expected": str(want), "observed": str(got)})
    return ncases, fails


def interpreter_crosscheck(seed=0):
    """Concrete mode of the executor against CPython on the same targets (soundness guard 2a)."""
    from pyvc.core import Explorer
    from pyvc.interp import Interp

    fn = get_target("iodata.convert:_convert_convention_shell")
    rng = random.Random(seed + 1)
    bad = []
    n = 0
    for _ in range(40):
        k = rng.randint(0, 5)
        base = rng.sample(["xx", "xy", "xz", "yy", "yz", "zz"], k)
        a = [("-" if rng.random() < 0.4 else "") + x for x in base]
        b = [("-" if rng.random() < 0.4 else "") + x for x in rng.sample(base, k)]
        if k and rng.random() < 0.3:
            b[0] = "qq"
        rev = rng.random() < 0.5
        ex = Explorer("crosscheck")
        res = {}

        def run(ctx, a=a, b=b, rev=rev, res=res):
            it = Interp(ctx, Config())
            try:
                p, s = it.call(fn, [list(a), list(b), rev])
                res["v"] = (list(p), list(s))
            except PyRaise as pr:
                res["v"] = ("raise", type(pr.exc).__name__)

        ex.explore(run)
        try:
            p, s = fn(list(a), list(b), rev)
            real = (list(p), list(s))
        except Exception as exc:  # noqa: BLE001
            real = ("raise", type(exc).__name__)
        n += 1
        if res.get("v") != real:
            bad.append((a, b, rev, res.get("v"), real))
    return n, bad


REPLAY_TMPL = """
import sys
from iodata.convert import _convert_convention_shell as f
conv1, conv2, reverse = {conv1!r}, {conv2!r}, {reverse!r}
expected = {expected!r}
try:
    p, s = f(list(conv1), list(conv2), reverse)
    observed = str(([int(x) for x in p], [int(x) for x in s]))
except ValueError:
    observed = str(("raise",))
print("expected", expected); print("observed", observed)
if observed != expected:
    print("REPRODUCED"); sys.exit(1)
"""


REPLAY_CONV_TMPL = """
import sys
import numpy as np
from iodata.basis import MolecularBasis, Shell
from iodata.convert import convert_conventions
shell_types, reverse, expected = {shell_types!r}, {reverse!r}, {expected!r}
conv1 = {{eval(k): v for k, v in {conv1!r}.items()}}
conv2 = {{eval(k): v for k, v in {conv2!r}.items()}}
shells = [Shell(i, [k[0] for k in cs], [k[1] for k in cs], np.ones(2), np.ones((2, len(cs)))) for i, cs in enumerate(shell_types)]
try:
    p, s = convert_conventions(MolecularBasis(shells, conv1, "L2"), conv2, reverse)
    observed = str(([int(x) for x in p], [int(x) for x in s]))
    if p.dtype.kind != "i" or s.dtype.kind != "i":
        observed = str(("not usable as `vector[permutation] * signs`: dtypes", str(p.dtype), str(s.dtype)))
except (KeyError, ValueError) as exc:
    observed = str(("raise", type(exc).__name__))
print("expected", expected); print("observed", observed)
if observed != expected:
    print("REPRODUCED"); sys.exit(1)
"""


def run(chk):
    chk.functions += [T_SHELL, T_CONV, "iodata.convert.iter_cart_alphabet (ground, n<=24)", "iodata.convert._get_default_conventions (ground, via tables)"]
    chk.trusted += [
        "z3 4.x/5.1 (cvc5 for z3's unknowns)",
        "axiom: len(set(s)) == len(s) iff s pairwise distinct; set equality = mutual inclusion",
        "axiom: list.index = least position of an equal element, ValueError when absent",
        "axiom: str = '-'*k + rest (exact representation); startswith('-') iff k>0; lstrip('-') drops k",
        "axiom: np.array(list) preserves length and elements",
        "callee _convert_convention_shell is a function of its arguments (uninterpreted SP/SS per key)",
        "pigeonhole: an injective map of range(n) into range(n) is a bijection (mathematical fact, not re-proved)",
    ]
    jobs = [("checks.c10", "job_shell", {}), ("checks.c10", "job_conventions", {}), ("checks.c10", "job_block_length", {}), ("checks.c10", "job_lemmas", {}), ("checks.c10", "job_ground", {})]
    results = collect(chk, run_jobs(jobs))
    for r in results:
        if "tables" in r:
            chk.notes["tables"] = r["tables"]
            chk.notes["ground_evaluations"] = {"table_keys": r["table_keys"], "ordered_pair_evaluations": r["pair_evaluations"], "single_label_corruptions": r["corruptions"]}
    # soundness guard: interpreter vs CPython
    n, bad = interpreter_crosscheck(chk.seed)
    if bad:
        chk.fault(f"executor disagrees with CPython on {bad[:2]}")
    chk.notes["interpreter_crosscheck_cases"] = n
    # concrete search: model cross-check on the unchanged tree, counterexample source otherwise
    ncases, fails = concrete_search(chk.seed, 300 if chk.tier == "quick" else 3000)
    chk.add_bounded("shell-conversion-vs-statement", "all pairs of lists of length <= 3 over {a,-a,b,-b}; random signed permutations of length <= 18", ncases, fails, replay_script=REPLAY_TMPL.format(**fails[0]) if fails else None)
    nc2, fails2 = concrete_search_conventions(chk.seed, 150 if chk.tier == "quick" else 2000)
    chk.add_bounded("convert_conventions-vs-direct-sum", "random bases: <= 4 shells x <= 4 contractions, l <= 5, all tables + random signed permutations", nc2, fails2, replay_script=REPLAY_CONV_TMPL.format(**fails2[0]) if fails2 else None)
    # a refuted proof obligation of a target gets the concrete failing input of the same target as its replay
    for target, fl, tmpl in ((T_SHELL, fails, REPLAY_TMPL), (T_CONV, fails2, REPLAY_CONV_TMPL)):
        for o in chk.ledger.obligations.values():
            if o.status == "refuted" and o.name.startswith(target + "::") and fl:
                chk.set_replay(o.name, tmpl.format(**fl[0]), witness=fl[0])
    chk.samples = [o.as_dict() for o in list(chk.ledger.obligations.values())[:6]]
    chk.assumptions += ["labels are Python str; label sign = one or more leading '-' (as the code treats it)"]
    chk.notes["explanation"] = "C10: contracts of _convert_convention_shell and convert_conventions proved for all lists / bases by symbolic execution of the real AST + z3; lemmas over contracts; tables by exhaustive evaluation"
