"""C08 -- dump failures follow the error contract; pre-flight errors spare existing files.

The real bodies of api.dump_one / dump_many (incl. the nested checking_iterator) / write_input / _check_required /
_reissue_warnings.inner are executed symbolically with the format-level callees *havoc'ed*: they return anything or
raise an exception of an arbitrary subclass of Exception, and every write may raise (so "an exception at the k-th
write for every k" is covered for all k at once).  Files are ghost event sources: "keeps its exact bytes" is "no
open(..,'w') event before the raise".
"""

from __future__ import annotations

import ast
import json
import os
import subprocess

import z3

from pyvc import source
from pyvc.apimodel import FileObj, abstract_iterator, api_config, may_raise, true_loop
from pyvc.core import Ledger
from pyvc.harness import verify
from pyvc.interp import Closure, GenObj, PyRaise, _MISSING
from pyvc.pool import collect, run_jobs
from pyvc.report import VENV_PY
from pyvc.values import Obj, Opaque, SBool, SOpt, SU, SymExc, U

LEVEL = "other"
API = "iodata.api"
INNER = f"{API}._reissue_warnings.<locals>.inner"


def api_mod():
    return source.import_repo("iodata.api")


def utils_mod():
    return source.import_repo("iodata.utils")


def undecorated(name):
    fn = getattr(api_mod(), name)
    return fn.__closure__[0].cell_contents


def dump_modules(attr):
    return {name: m for name, m in api_mod().FORMAT_MODULES.items() if hasattr(m, attr)}


def exc_is(ctx, exc, cls):
    """z3 Bool / host bool: the escaping exception is an instance of cls."""
    if isinstance(exc, SymExc):
        for ax in exc.cls.hierarchy_axioms():
            ctx.assume(ax)
        return exc.cls.sub_pred(cls)
    if isinstance(exc, Obj):
        return issubclass(exc.cls, cls)
    return isinstance(exc, cls)


def data_object(ctx, tag, required):
    d = Opaque(tag, pytype=source.import_repo("iodata.iodata").IOData)
    d.none_flags = {}
    for a in required:
        b = z3.Bool(f"{tag}.{a}.isnone")
        d.none_flags[a] = b
        d.attrs[a] = SOpt(b, Opaque(f"{tag}.{a}"))
    return d


def configure(cfg, modname, mod, attr):
    """Format-level callees by havoc contract.  prepare_dump: no file event (frame, see C09), returns an object."""

    def prep(interp, args, kwargs):
        interp.ctx.event("prepare", args[0].tag if isinstance(args[0], Opaque) else "?")
        may_raise(interp, "prepare_dump")
        r = Opaque(interp.ctx.fresh("prepared"), pytype=source.import_repo("iodata.iodata").IOData)
        r.source = args[0]
        return r

    def writer(interp, args, kwargs):
        f = args[0]
        interp.ctx.event("writer-called", f.tag if isinstance(f, FileObj) else "?", args[1])
        # the writer may write any number of times, each write may fail
        interp.ctx.event("write", getattr(f, "tag", "?"))
        if isinstance(f, FileObj):
            f.dirty = True  # text files are buffered: what the writer wrote may still fail to reach the disk at flush / close
        may_raise(interp, "writer")
        return None

    full = mod.__name__
    if hasattr(mod, "prepare_dump"):
        cfg.contracts[f"{full}.prepare_dump"] = prep
    cfg.contracts[f"{full}.dump_one"] = writer
    return cfg


def first_index(trace, name):
    for k, e in enumerate(trace):
        if e[0] == name:
            return k
    return None


def common_post(ctx, target, out, fname_ok=True):
    """Clauses shared by all three API functions: closed afterwards; opened at most once."""
    tr = ctx.trace
    opened = [e for e in tr if e[0] == "opened"]
    closed = [e for e in tr if e[0] == "close"]
    ctx.prove(f"{target}::post.output-file-closed-afterwards", len(closed) == len(opened) and all(c[1] == o[1] for c, o in zip(closed, opened)))
    ctx.prove(f"{target}::post.file-opened-at-most-once", len(opened) <= 1)


# ------------------------------------------------------------------------------------------------
def job_dump_one(modname):
    target = f"{API}.dump_one[{modname}]"
    mod = dump_modules("dump_one")[modname]
    required = list(mod.dump_one.required)
    cfg = configure(api_config(), modname, mod, "dump_one")
    cfg.loop_specs[(INNER, 0)] = true_loop("warning_list", "loop.reissue")
    cfg.anchor_specs.append(("iodata.api", "warning_list", true_loop("warning_list", "loop.reissue")))
    U_ = utils_mod()

    def select(interp, args, kwargs):
        # contract of _select_format_module (C17): the module, or FileFormatError; no file-system access
        if interp.ctx.branch(z3.Bool("select.fails")):
            raise PyRaise(interp.call(U_.FileFormatError, ["no format", args[0]]))
        interp.ctx.event("select", modname)
        return mod

    cfg.contracts[f"{API}._select_format_module"] = select

    def setup(ctx, interp):
        data = data_object(ctx, "data", required)
        fn = api_mod().dump_one
        return fn, [data, SU(z3.Const("filename", U), str)], {"fmt": None, "allow_changes": SBool(z3.Bool("allow_changes"))}, dict(data=data)

    def post(out, env):
        ctx = out.ctx
        data = env["data"]
        tr = ctx.trace
        names = [e[0] for e in tr]
        common_post(ctx, target, out)
        missing = z3.Or(*[data.none_flags[a] for a in required]) if required else z3.BoolVal(False)
        opened = "open" in names
        if out.kind == "raise":
            e = out.value
            is_ff, is_prep, is_dump = (exc_is(ctx, e, c) for c in (U_.FileFormatError, U_.PrepareDumpError, U_.DumpError))
            os_err = "open-failed" in names
            ctx.prove(f"{target}::raises.only-FileFormatError-PrepareDumpError-DumpError-or-the-OS-error-of-open", z3.Or(is_ff, is_prep, is_dump, z3.BoolVal(os_err)), kind="raises")
            if "select" not in names:
                ctx.prove(f"{target}::raises.unknown-format-is-FileFormatError-before-anything-is-touched", z3.And(is_ff, z3.BoolVal(not opened and "prepare" not in names)), kind="raises")
            elif not opened:
                ctx.prove(f"{target}::raises.pre-flight-failure-is-PrepareDumpError", is_prep, kind="raises")
            elif not os_err:
                ctx.prove(f"{target}::raises.failure-while-writing-is-DumpError", is_dump, kind="raises")
            ctx.prove(f"{target}::raises.PrepareDumpError-leaves-the-target-unopened", z3.Or(z3.Not(is_prep) if not isinstance(is_prep, bool) else z3.BoolVal(not is_prep), z3.BoolVal(not opened))) if not (isinstance(e, SymExc)) or not opened else None
            if opened and isinstance(e, SymExc):
                # an exception of the writer escapes unwrapped only if it is a DumpError
                ctx.prove(f"{target}::raises.writer-exception-escapes-only-as-DumpError", is_dump, kind="raises")
            return
        ctx.prove(f"{target}::post.no-return-with-a-missing-required-attribute", z3.Not(missing))
        # order: select, (prepare), open, write, close
        order_ok = first_index(tr, "select") is not None and opened and first_index(tr, "select") < first_index(tr, "open") and (first_index(tr, "prepare") is None or first_index(tr, "prepare") < first_index(tr, "open"))
        ctx.prove(f"{target}::post.checks-and-preparation-precede-open", order_ok)
        want = out.value
        if hasattr(mod, "prepare_dump"):
            ctx.prove(f"{target}::post.returns-the-prepared-object-that-was-written", isinstance(want, Opaque) and getattr(want, "source", None) is data and any(e[0] == "writer-called" and e[2] is want for e in tr))
        else:
            ctx.prove(f"{target}::post.returns-the-very-object-that-was-written", want is data and any(e[0] == "writer-called" and e[2] is data for e in tr))

    def post_missing(out, env):
        post(out, env)
        ctx = out.ctx
        data = env["data"]
        names = [e[0] for e in ctx.trace]
        # D1: a required attribute that is None -> PrepareDumpError and no open, whatever else happens
        for a in required:
            flag = data.none_flags[a]
            if ctx.qsolver.entails(flag) and "select" in names:
                ok = out.kind == "raise" and "open" not in names and "prepare" not in names
                ctx.prove(f"{target}::post.missing-required-attribute-raises-PrepareDumpError-before-open", z3.And(z3.BoolVal(ok), exc_is(ctx, out.value, U_.PrepareDumpError)) if ok else False)
                break

    return verify(target, setup, post_missing, config=cfg, max_paths=3000)


# ------------------------------------------------------------------------------------------------
def job_check_required():
    """_check_required: raises for the first required attribute that is None, returns otherwise (loop unrolled
    over the real `required` lists of all 13 dump_one and 4 dump_many functions)."""
    target = f"{API}._check_required"
    led = Ledger()
    U_ = utils_mod()
    fn = api_mod()._check_required
    for attr in ("dump_one", "dump_many"):
        for modname, mod in dump_modules(attr).items():
            dump_func = getattr(mod, attr)
            required = list(dump_func.required)

            def setup(ctx, interp, required=required, dump_func=dump_func):
                data = data_object(ctx, "data", required)
                return fn, [SU(z3.Const("filename", U), str), data, dump_func], {}, dict(data=data)

            def post(out, env, required=required, modname=modname, attr=attr):
                ctx = out.ctx
                data = env["data"]
                missing = z3.Or(*[data.none_flags[a] for a in required]) if required else z3.BoolVal(False)
                if out.kind == "raise":
                    ctx.prove(f"{target}::raises.only-PrepareDumpError", exc_is(ctx, out.value, U_.PrepareDumpError), kind="raises")
                    ctx.prove(f"{target}::raises.only-when-a-required-attribute-is-None", missing, kind="raises")
                    ctx.prove(f"{target}::raises.no-file-event", not ctx.trace, kind="raises")
                else:
                    ctx.prove(f"{target}::post.returns-only-when-all-required-attributes-are-set", z3.Not(missing))

            verify(target, setup, post, config=api_config(), ledger=led)
    # ground: every required name is an attribute of IOData (getattr cannot raise AttributeError)
    import attrs

    IOData = source.import_repo("iodata.iodata").IOData
    names = {f.name.lstrip("_") for f in attrs.fields(IOData)} | {k for k, v in vars(IOData).items() if isinstance(v, property)}
    bad = [(m, a, x) for a in ("dump_one", "dump_many") for m, mod in dump_modules(a).items() for x in getattr(mod, a).required if x not in names]
    led.record(f"{target}::ground.every-required-name-is-an-IOData-attribute", "ground", "refuted" if bad else "discharged", "eval", 0.0, detail=str(bad))
    return led


# ------------------------------------------------------------------------------------------------
def job_dump_many(modname):
    """api.dump_many with the real format-level dump_many of `modname` (xyz, pdb, mol2, sdf)."""
    target = f"{API}.dump_many[{modname}]"
    mod = dump_modules("dump_many")[modname]
    required = list(mod.dump_many.required)
    cfg = configure(api_config(), modname, mod, "dump_many")
    cfg.loop_specs[(INNER, 0)] = true_loop("warning_list", "loop.reissue")
    cfg.anchor_specs.append(("iodata.api", "warning_list", true_loop("warning_list", "loop.reissue")))
    U_ = utils_mod()
    full = mod.__name__

    def select(interp, args, kwargs):
        if interp.ctx.branch(z3.Bool("select.fails")):
            raise PyRaise(interp.call(U_.FileFormatError, ["no format", args[0]]))
        interp.ctx.event("select", modname)
        return mod

    cfg.contracts[f"{API}._select_format_module"] = select

    def fmt_dump_many(interp, args, kwargs):
        """Contract of the format-level dump_many (ground-checked below: `for data in datas: dump_one(f, data)`, no
        try statement): pulls items one at a time, writes each before pulling the next, propagates every exception."""
        f, datas = args[0], args[1]
        ctx = interp.ctx
        ctx.event("format-dump_many", getattr(f, "tag", "?"))
        gen = datas
        ctx.ghost["generator"] = gen
        # frame 1 .. : run the real generator body as a trace producer, each yielded frame is written at once
        saved = interp.cfg.on_yield

        def on_yield(i, v):
            i.ctx.event("yield", v)
            i.ctx.event("write-frame", v)
            may_raise(i, "writer")
            return None

        interp.cfg.on_yield = on_yield
        try:
            interp.run_body(gen.node.body, gen.frame)
        finally:
            interp.cfg.on_yield = saved
        return None

    cfg.contracts[f"{full}.dump_many"] = fmt_dump_many
    # the loop of the nested generator: `for other in iter_data`
    cfg.loop_specs[(f"{API}.dump_many.<locals>.checking_iterator", 0)] = true_loop("iter_data", "loop.frames")
    cfg.anchor_specs.append(("iodata.api", "iter_data", true_loop("iter_data", "loop.frames")))

    def setup(ctx, interp):
        def item(interp_, k):
            d = data_object(interp_.ctx, interp_.ctx.fresh("frame"), required)
            interp_.ctx.ghost.setdefault("items", []).append(d)
            return d

        it = abstract_iterator("iter_data", item_factory=item, may_fail=True)
        return api_mod().dump_many, [it, SU(z3.Const("filename", U), str)], {"fmt": None, "allow_changes": SBool(z3.Bool("allow_changes"))}, dict(it=it)

    def post(out, env):
        ctx = out.ctx
        tr = ctx.trace
        names = [e[0] for e in tr]
        common_post(ctx, target, out)
        opened = "open" in names
        pulls_before_open = [e for e in tr[: first_index(tr, "open")] if e[0] == "pull"] if opened else [e for e in tr if e[0] == "pull"]
        items = ctx.ghost.get("items", [])
        if opened and items and required:
            # D2: the file is opened only after the first frame was found to carry every required attribute
            ctx.prove(f"{target}::post.file-opened-only-if-first-frame-has-every-required-attribute", z3.Not(z3.Or(*[items[0].none_flags[a] for a in required])))
        # every frame that reaches the writer carries every required attribute
        for e in tr:
            if e[0] == "write-frame" and required:
                src = getattr(e[1], "source", e[1])
                if hasattr(src, "none_flags"):
                    ctx.prove(f"{target}::post.only-frames-with-every-required-attribute-reach-the-writer", z3.Not(z3.Or(*[src.none_flags[a] for a in required])))
        if out.kind == "raise":
            e = out.value
            is_ff, is_prep, is_dump = (exc_is(ctx, e, c) for c in (U_.FileFormatError, U_.PrepareDumpError, U_.DumpError))
            iter_failed_first = any(x[0] == "raise" and x[1] == "next(iter_data)" for x in tr) and not opened
            os_err = "open-failed" in names
            if "select" not in names:
                ctx.prove(f"{target}::raises.unknown-format-is-FileFormatError-before-anything-is-touched", z3.And(is_ff, z3.BoolVal(not opened and not pulls_before_open)), kind="raises")
            elif not opened and not iter_failed_first:
                if "exhausted" in names and not pulls_before_open:
                    ctx.prove(f"{target}::raises.empty-sequence-is-DumpError-without-creating-a-file", is_dump, kind="raises")
                else:
                    ctx.prove(f"{target}::raises.faulty-first-frame-is-PrepareDumpError-before-open", is_prep, kind="raises")
            elif opened and not os_err:
                ctx.prove(f"{target}::raises.later-failure-surfaces-as-PrepareDumpError-or-DumpError", z3.Or(is_prep, is_dump), kind="raises")
            if not iter_failed_first:
                ctx.prove(f"{target}::raises.only-the-documented-classes", z3.Or(is_ff, is_prep, is_dump, z3.BoolVal(os_err)), kind="raises")
            return
        # normal return: exactly one pull before open, the file was opened, every yielded frame was written in order
        ctx.prove(f"{target}::post.first-frame-pulled-and-checked-before-open", opened and len(pulls_before_open) == 1)
        ys = [e for e in tr if e[0] in ("yield", "write-frame")]
        ctx.prove(f"{target}::post.each-yielded-frame-is-written-before-the-next-is-pulled", all(ys[i][0] == "yield" and ys[i + 1][0] == "write-frame" and ys[i][1] is ys[i + 1][1] for i in range(0, len(ys) - 1, 2)) and len(ys) % 2 == 0)

    led = verify(target, setup, post, config=cfg, max_paths=3000)
    # ground: the format-level dump_many has the shape the contract assumes
    node = source.find_def(mod.__name__, "dump_many")
    body = [st for st in node.body if not (isinstance(st, ast.Expr) and isinstance(st.value, ast.Constant))]
    shape_ok = len(body) == 1 and isinstance(body[0], ast.For) and not any(isinstance(n, (ast.Try, ast.While)) for n in ast.walk(node)) and len(body[0].body) == 1 and ast.unparse(body[0].body[0]).startswith("dump_one(f, data")
    led.record(f"{mod.__name__}.dump_many::ground.is-a-plain-loop-calling-dump_one-without-try", "ground", "discharged" if shape_ok else "unknown", "eval", 0.0, detail=ast.unparse(node)[:300])
    return led


def job_checking_iterator():
    """The nested generator of dump_many: yields `first`, then for every pulled item checks, prepares and yields it:
    one pull per yield after the first, in order, nothing skipped, nothing pulled ahead."""
    target = f"{API}.dump_many.checking_iterator"
    modname = "xyz"
    mod = dump_modules("dump_many")[modname]
    cfg = configure(api_config(), modname, mod, "dump_many")
    cfg.loop_specs[(INNER, 0)] = true_loop("warning_list", "loop.reissue")
    cfg.anchor_specs.append(("iodata.api", "warning_list", true_loop("warning_list", "loop.reissue")))
    cfg.loop_specs[(f"{API}.dump_many.<locals>.checking_iterator", 0)] = true_loop("iter_data", "loop.frames")
    cfg.anchor_specs.append(("iodata.api", "iter_data", true_loop("iter_data", "loop.frames")))
    cfg.contracts[f"{API}._select_format_module"] = lambda interp, args, kwargs: mod
    U_ = utils_mod()

    def fmt_dump_many(interp, args, kwargs):
        gen = args[1]
        ctx = interp.ctx
        ctx.event("generator-start")
        saved = interp.cfg.on_yield
        interp.cfg.on_yield = lambda i, v: i.ctx.event("yield", v)
        try:
            interp.run_body(gen.node.body, gen.frame)
        finally:
            interp.cfg.on_yield = saved
        ctx.event("generator-end")
        return None

    cfg.contracts[f"{mod.__name__}.dump_many"] = fmt_dump_many

    def setup(ctx, interp):
        def item(interp_, k):
            return data_object(interp_.ctx, interp_.ctx.fresh("frame"), [])

        it = abstract_iterator("iter_data", item_factory=item, may_fail=False)
        return api_mod().dump_many, [it, "traj.xyz"], {"fmt": None}, {}

    def post(out, env):
        ctx = out.ctx
        tr = ctx.trace
        if "generator-start" not in [e[0] for e in tr]:
            return
        g = tr[first_index(tr, "generator-start") + 1 :]
        ev = [e for e in g if e[0] in ("yield", "pull", "exhausted", "generator-end")]
        ctx.prove(f"{target}::post.first-yield-is-the-checked-first-frame-without-a-pull", len(ev) >= 1 and ev[0][0] == "yield")
        # after the first yield the events alternate pull, yield (generic iteration shows one such pair)
        rest = ev[1:]
        pairs_ok = True
        i = 0
        while i < len(rest):
            if rest[i][0] == "pull":
                if i + 1 >= len(rest) or rest[i + 1][0] != "yield":
                    pairs_ok = pairs_ok and out.kind == "raise"
                    break
                i += 2
            elif rest[i][0] in ("exhausted", "generator-end"):
                i += 1
            else:
                pairs_ok = False
                break
        ctx.prove(f"{target}::post.one-pull-per-yield-in-order-nothing-pulled-ahead", pairs_ok)
        # the yielded object is the pulled one (xyz has no prepare_dump)
        pulls = {}
        ok = True
        last_pull = None
        for e in g:
            if e[0] == "pull":
                last_pull = e
            if e[0] == "yield" and last_pull is not None:
                ok = ok and isinstance(e[1], Opaque)
        ctx.prove(f"{target}::post.yields-the-pulled-frame", ok)

    return verify(target, setup, post, config=cfg, max_paths=2000)


# ------------------------------------------------------------------------------------------------
def job_write_input():
    target = f"{API}.write_input"
    cfg = api_config()
    cfg.loop_specs[(INNER, 0)] = true_loop("warning_list", "loop.reissue")
    cfg.anchor_specs.append(("iodata.api", "warning_list", true_loop("warning_list", "loop.reissue")))
    U_ = utils_mod()
    inputs = api_mod().INPUT_MODULES
    for name, m in inputs.items():
        def wi(interp, args, kwargs):
            interp.ctx.event("render", args[0].tag if isinstance(args[0], FileObj) else "?")
            interp.ctx.event("write", getattr(args[0], "tag", "?"))
            if isinstance(args[0], FileObj):
                args[0].dirty = True  # buffered: the failure of a small write surfaces at flush / close
            may_raise(interp, "write_input")
            return None

        cfg.contracts[f"{m.__name__}.write_input"] = wi

    def setup(ctx, interp):
        fmt = SU(z3.Const("program", U), str)
        return api_mod().write_input, [Opaque("data"), SU(z3.Const("filename", U), str), fmt], {}, dict(fmt=fmt)

    def post(out, env):
        ctx = out.ctx
        from pyvc.values import ustr

        tr = ctx.trace
        names = [e[0] for e in tr]
        common_post(ctx, target, out)
        known = z3.Or(*[env["fmt"].t == ustr(k) for k in inputs])
        if out.kind == "raise":
            e = out.value
            is_ff, is_wi = exc_is(ctx, e, U_.FileFormatError), exc_is(ctx, e, U_.WriteInputError)
            if "open" not in names:
                ctx.prove(f"{target}::raises.unknown-program-is-FileFormatError-before-open", z3.And(is_ff, z3.Not(known)), kind="raises")
            elif "open-failed" not in names:
                ctx.prove(f"{target}::raises.every-rendering-failure-is-WriteInputError", is_wi, kind="raises")
            return
        ctx.prove(f"{target}::post.returns-only-for-a-known-program", known)
        ctx.prove(f"{target}::post.rendered-into-the-opened-file", "render" in names and first_index(tr, "open") < first_index(tr, "render"))

    return verify(target, setup, post, config=cfg, max_paths=500)


# ------------------------------------------------------------------------------------------------
def job_prepare_frames():
    """The six prepare_dump functions and prepare.* neither open nor write files (syntactic frame: no call of
    open/print/write and no `file=` argument in their bodies or in the prepare_* helpers they call)."""
    led = Ledger()
    mods = [m for m in api_mod().FORMAT_MODULES.values() if hasattr(m, "prepare_dump")]
    targets = [(m.__name__, "prepare_dump") for m in mods] + [("iodata.prepare", "prepare_segmented"), ("iodata.prepare", "prepare_unrestricted_aminusb")]
    for modname, fname in targets:
        node = source.find_def(modname, fname)
        bad = []
        for n in ast.walk(node):
            if isinstance(n, ast.Call):
                f = ast.unparse(n.func)
                if f in ("open", "print") or f.endswith(".write") or f.endswith(".writelines") or any(kw.arg == "file" for kw in n.keywords):
                    bad.append(ast.unparse(n)[:80])
        led.record(f"{modname}.{fname}::frame.no-file-event", "frame", "refuted" if bad else "discharged", "ast", 0.0, detail=str(bad))
    return led


# ------------------------------------------------------------------------------------------------
BOUNDED = r"""
import builtins, io, json, os, sys, tempfile, warnings
import numpy as np
from iodata import IOData, dump_one, dump_many, write_input, load_one
from iodata.api import FORMAT_MODULES
from iodata.utils import DumpError, PrepareDumpError, FileFormatError, WriteInputError
from iodata.basis import MolecularBasis, Shell
from iodata.convert import HORTON2_CONVENTIONS
from iodata.orbitals import MolecularOrbitals
warnings.simplefilter("ignore")
fails, cases = [], 0
tmp = tempfile.mkdtemp()
__import__("atexit").register(__import__("shutil").rmtree, tmp, True)
def full_object():
    shells = [Shell(0, [0], ["c"], np.array([1.0, 0.3]), np.array([[0.6], [0.5]])), Shell(1, [0], ["c"], np.array([0.8]), np.array([[1.0]]))]
    ob = MolecularBasis(shells, HORTON2_CONVENTIONS, "L2")
    mo = MolecularOrbitals("restricted", 2, 2, occs=np.array([2.0, 0.0]), coeffs=np.eye(2), energies=np.array([-0.5, 0.3]), irreps=["a", "a"])
    from iodata.utils import Cube
    return IOData(atnums=[1, 1], atcoords=np.array([[0.0, 0, 0], [0, 0, 1.4]]), atcharges={"mulliken": np.zeros(2)}, cellvecs=np.eye(3) * 5, obasis=ob, mo=mo, title="t",
                  energy=-1.0, lot="hf", obasis_name="sto-3g",
                  cube=Cube(origin=np.zeros(3), axes=np.eye(3), data=np.zeros((2, 2, 2))), one_ints={"core_mo": np.eye(2)}, two_ints={"two_mo": np.zeros((2, 2, 2, 2))}, core_energy=0.0,
                  extra={"schema_name": "qcschema_molecule", "schema_version": 2})
EXT = {"xyz": "xyz", "pdb": "pdb", "mol2": "mol2", "sdf": "sdf", "poscar": "POSCAR", "cube": "cube", "fcidump": "FCIDUMP", "json": "json", "fchk": "fchk", "molden": "molden", "molekel": "mkl", "wfn": "wfn", "wfx": "wfx"}
def target(name, pre):
    fn = os.path.join(tmp, f"{name}_{pre}.dat")
    if pre:
        open(fn, "w").write("PRECIOUS CONTENT\n")
    elif os.path.exists(fn):
        os.remove(fn)
    return fn
for name, mod in sorted(FORMAT_MODULES.items()):
    if not hasattr(mod, "dump_one"): continue
    req = list(mod.dump_one.required)
    # every required attribute set to None, target absent / pre-existing
    for attr in req:
        for pre in (False, True):
            cases += 1
            d = full_object()
            try:
                setattr(d, attr, None)
            except Exception:
                continue
            if getattr(d, attr) is not None:
                continue  # a derived attribute (e.g. atcorenums defaults to atnums)
            fn = target(name, pre)
            try:
                dump_one(d, fn, fmt=name)
                fails.append((name, attr, pre, "no error for missing required attribute"))
            except PrepareDumpError:
                if pre and open(fn).read() != "PRECIOUS CONTENT\n": fails.append((name, attr, pre, "pre-existing file modified by a pre-flight failure"))
                if not pre and os.path.exists(fn): fails.append((name, attr, pre, "file created by a pre-flight failure"))
            except Exception as exc:
                fails.append((name, attr, pre, "missing required attribute raised " + type(exc).__name__))
    # write faults: an exception at the k-th write call
    real_open = builtins.open
    for exc_cls in (RuntimeError, OSError, ValueError, KeyError):
        for k in range(0, 12):
            cases += 1
            d = full_object()
            fn = target(name, False)
            state = {"n": 0, "closed": None}
            class F(io.StringIO):
                def write(self, s):
                    state["n"] += 1
                    if state["n"] > k: raise exc_cls("injected")
                    return super().write(s)
                def close(self):
                    state["closed"] = True
                    super().close()
            def fake_open(path, mode="r", *a, **kw):
                if path == fn and "w" in mode: return F()
                return real_open(path, mode, *a, **kw)
            builtins.open = fake_open
            try:
                dump_one(d, fn, fmt=name)
            except DumpError:
                pass
            except PrepareDumpError:
                pass
            except Exception as exc:
                fails.append((name, k, exc_cls.__name__, "write fault escaped as " + type(exc).__name__))
            finally:
                builtins.open = real_open
            if state["n"] > 0 and state["closed"] is not True: fails.append((name, k, exc_cls.__name__, "file not closed after a write fault"))
# required attributes whose value is a dictionary: an object that was never given the data holds an empty dictionary,
# not None - it lacks the required attribute all the same
for name, mod in sorted(FORMAT_MODULES.items()):
    if not hasattr(mod, "dump_one"): continue
    for attr in mod.dump_one.required:
        if not isinstance(getattr(IOData(), attr), dict): continue
        cases += 1
        d = full_object()
        setattr(d, attr, {})
        fn = target(name + "_emptydict", True)
        try:
            dump_one(d, fn, fmt=name)  # an empty dictionary may be all the format needs (pdb: extra)
        except PrepareDumpError:
            if open(fn).read() != "PRECIOUS CONTENT\n": fails.append((name, attr, "pre-existing file modified by a pre-flight failure"))
        except DumpError:
            if open(fn).read() != "PRECIOUS CONTENT\n": fails.append((name, attr, "an empty required dictionary attribute passes the pre-flight check: existing file destroyed, then DumpError"))
        except Exception as exc:
            fails.append((name, attr, "missing attribute raised " + type(exc).__name__))
# incompatible objects: pre-flight must reject them (PrepareDumpError, file untouched) or the dump must succeed
def variants():
    out = []
    for lbl, ang, kinds in (("gen-ss", [0, 0], "cc"), ("gen-pp", [1, 1], "cc"), ("gen-ps", [1, 0], "cc"), ("sp", [0, 1], "cc"), ("gen-ssp", [0, 0, 1], "ccc"), ("pure-d", [2], "p")):
        d = full_object()
        nb0 = sum((l + 1) * (l + 2) // 2 if k == "c" else 2 * l + 1 for l, k in zip(ang, kinds))
        shells = [Shell(0, ang, list(kinds), np.array([1.0, 0.3]), np.ones((2, len(ang))) * 0.5), Shell(1, [0], ["c"], np.array([0.8]), np.array([[1.0]]))]
        d.obasis = MolecularBasis(shells, HORTON2_CONVENTIONS, "L2")
        n = nb0 + 1
        d.mo = MolecularOrbitals("restricted", n, n, occs=np.array([2.0] + [0.0] * (n - 1)), coeffs=np.eye(n), energies=np.arange(float(n)), irreps=["a"] * n)
        out.append((lbl, d))
    d = full_object(); d.mo = MolecularOrbitals("generalized", None, None, occs=np.array([1.0, 1.0, 0, 0]), coeffs=np.eye(4), energies=np.arange(4.0)); out.append(("generalized-orbitals", d))
    d = full_object(); d.mo = MolecularOrbitals("restricted", 2, 2, occs=np.array([1.0, 1.0]), occs_aminusb=np.array([1.0, -1.0]), coeffs=np.eye(2), energies=np.arange(2.0), irreps=["a", "a"]); out.append(("occs_aminusb", d))
    d = full_object(); d.mo = MolecularOrbitals("restricted", 2, 2, occs=np.array([1.0, 1.0]), occs_aminusb=np.array([0.0, 0.0]), coeffs=np.eye(2), energies=np.arange(2.0), irreps=["a", "a"]); out.append(("occs_aminusb-zero", d))
    d = full_object(); d.mo = MolecularOrbitals("restricted", 2, 2, occs=np.array([0.0, 2.0]), coeffs=np.eye(2), energies=np.arange(2.0), irreps=["a", "a"]); out.append(("non-aufbau", d))
    d = full_object(); d.extra = {}; out.append(("no-schema_name", d))
    return out
for name, mod in sorted(FORMAT_MODULES.items()):
    if not hasattr(mod, "dump_one"): continue
    try:
        dump_one(full_object(), target(name + "_base", False), fmt=name)
    except Exception:
        continue  # the base object itself is not writable in this format (not an error-contract matter; see C02)
    for lbl, d in variants():
        if not hasattr(mod, "prepare_dump") and lbl != "no-schema_name":
            continue  # the rejection reasons of the statement are those of the formats that have a prepare_dump
        for allow in (False, True):
            cases += 1
            fn = target(name + "_inc", True)
            try:
                dump_one(d, fn, fmt=name, allow_changes=allow)
            except PrepareDumpError:
                if open(fn).read() != "PRECIOUS CONTENT\n": fails.append((name, lbl, allow, "pre-existing file modified although the object was rejected"))
            except DumpError as exc:
                fails.append((name, lbl, allow, "incompatible object not rejected before the file was opened (DumpError)"))
            except Exception as exc:
                fails.append((name, lbl, allow, "incompatible object raised " + type(exc).__name__))
# dump_many: empty sequence, faulty first / later frame
for name, mod in sorted(FORMAT_MODULES.items()):
    if not hasattr(mod, "dump_many"): continue
    req = list(mod.dump_many.required)
    for pre in (False, True):
        cases += 1
        fn = target(name + "_many", pre)
        try:
            dump_many(iter([]), fn, fmt=name); fails.append((name, "empty sequence accepted"))
        except DumpError:
            if (not pre and os.path.exists(fn)) or (pre and open(fn).read() != "PRECIOUS CONTENT\n"): fails.append((name, pre, "file touched for an empty sequence"))
        except Exception as exc:
            fails.append((name, "empty sequence raised " + type(exc).__name__))
        for bad_index in range(0, 4):
            for attr in req:
                cases += 1
                frames = [full_object() for _ in range(4)]
                setattr(frames[bad_index], attr, None)
                if getattr(frames[bad_index], attr) is not None:
                    continue
                fn = target(name + "_many", pre)
                try:
                    dump_many(iter(frames), fn, fmt=name); fails.append((name, bad_index, attr, "faulty frame swallowed"))
                except PrepareDumpError:
                    if bad_index == 0 and ((not pre and os.path.exists(fn)) or (pre and open(fn).read() != "PRECIOUS CONTENT\n")): fails.append((name, attr, "file touched although the first frame is faulty"))
                except DumpError:
                    if bad_index == 0: fails.append((name, attr, "first faulty frame gave DumpError"))
                except Exception as exc:
                    fails.append((name, bad_index, attr, "faulty frame raised " + type(exc).__name__))
for fmtname in ("nonexisting", "cp2klog", "orcalog"):
    cases += 1
    fn = target("unknown", True)
    try:
        dump_one(full_object(), fn, fmt=fmtname); fails.append((fmtname, "unknown/unsupported format accepted"))
    except FileFormatError:
        if open(fn).read() != "PRECIOUS CONTENT\n": fails.append((fmtname, "file touched for an unknown format"))
    except Exception as exc:
        fails.append((fmtname, "unknown format raised " + type(exc).__name__))
for prog, kw in (("nonexisting", {}), ("gaussian", {"template": "{nofield}"}), ("orca", {"atom_line": lambda d, i: 1 / 0}), ("gaussian", {"atom_line": lambda d, i: (_ for _ in ()).throw(RuntimeError("x"))})):
    cases += 1
    fn = target("input", False)
    try:
        write_input(full_object(), fn, prog, **kw); fails.append((prog, "bad input accepted"))
    except FileFormatError:
        if prog != "nonexisting": fails.append((prog, "FileFormatError for a known program"))
    except WriteInputError:
        if prog == "nonexisting": fails.append((prog, "WriteInputError for an unknown program"))
    except Exception as exc:
        fails.append((prog, "write_input raised " + type(exc).__name__))
# a device without space: small outputs fail when the buffer is flushed at close, large ones inside a write call
if os.path.exists("/dev/full"):
    small = full_object()
    for what, call, want in (("dump_one", lambda: dump_one(small, "/dev/full", fmt="xyz"), DumpError), ("dump_many", lambda: dump_many([small, small], "/dev/full", fmt="xyz"), DumpError), ("write_input", lambda: write_input(small, "/dev/full", "gaussian"), WriteInputError)):
        cases += 1
        try:
            call(); fails.append((what, "writing to a full device reported success"))
        except want:
            pass
        except Exception as exc:
            fails.append((what, "a write failure at flush/close escaped as " + type(exc).__name__))
sig = {}
for f in fails: sig.setdefault(f[-1], f)
print(json.dumps(dict(cases=cases, nfails=len(fails), kinds={k: repr(v)[:500] for k, v in sig.items()}), default=str))
"""
_TAIL = "print(json.dumps(dict(cases=cases, nfails=len(fails), kinds={k: repr(v)[:500] for k, v in sig.items()}), default=str))"


def run_bounded(chk):
    env = dict(os.environ, PYTHONPATH=source.REPO)
    out = subprocess.run([VENV_PY, "-c", BOUNDED], capture_output=True, text=True, env=env, cwd="/", timeout=3000)
    if out.returncode != 0:
        chk.fault(f"bounded driver crashed: {out.stderr[-1500:]}")
        return
    res = json.loads(out.stdout.strip().splitlines()[-1])
    bound = "13 dump formats x each required attribute None x {absent, pre-existing} target; exception injected at the k-th write, k<=11, 4 exception classes; dump_many: empty, faulty frame index 0..3; unknown formats; write_input failures"
    for kind, example in sorted(res["kinds"].items()):
        script = BOUNDED.replace(_TAIL, f"print(sig.get({kind!r}))\nif {kind!r} in sig:\n    print('REPRODUCED'); sys.exit(1)")
        chk.add_bounded(f"error-contract.{kind}", bound, res["cases"], [example], replay_script=script)
    if not res["kinds"]:
        chk.add_bounded("error-contract", bound, res["cases"], [])


def run(chk):
    chk.functions += [f"{API}.dump_one", f"{API}.dump_many", f"{API}.dump_many.<locals>.checking_iterator", f"{API}.write_input", f"{API}._check_required", f"{API}._reissue_warnings.<locals>.inner", f"{API}._select_input_module"]
    chk.trusted += [
        "z3",
        "havoc contract of format-level callees: return anything or raise an exception of an arbitrary subclass of Exception (BaseExceptions such as KeyboardInterrupt are out of scope)",
        "contract of _select_format_module (verified in C17): the module or FileFormatError, no file-system access",
        "open(path,'w') either raises (the operating system's own error) or returns a file whose context manager closes it",
        "warnings.catch_warnings(record=True) records any number of warnings; warnings.warn does not raise (default filters)",
        "format-level dump_many by contract, shape checked on the AST (plain loop calling dump_one, no try)",
    ]
    chk.assumptions += ["the caller's iterable raises nothing but StopIteration on its first next() (an exception of the caller's own generator on the first item passes through unwrapped)", "'keeps its exact bytes' = no open(..., 'w') / write event before the raise"]
    jobs = [("checks.c08", "job_dump_one", {"modname": m}) for m in sorted(dump_modules("dump_one"))]
    jobs += [("checks.c08", "job_dump_many", {"modname": m}) for m in sorted(dump_modules("dump_many"))]
    jobs += [("checks.c08", f, {}) for f in ("job_check_required", "job_checking_iterator", "job_write_input", "job_prepare_frames")]
    collect(chk, run_jobs(jobs))
    run_bounded(chk)
    chk.samples = [o.as_dict() for o in list(chk.ledger.obligations.values())[:6]]
    chk.notes["explanation"] = "C08: exception-flow and event-trace contracts of the three writing API functions, callees havoc'ed"
