"""C12 -- orbital and shell objects keep their derived quantities consistent.

MolecularOrbitals: representation invariant Inv (what the attrs validators establish), proved to be established
by the constructor and preserved by every assignment of the quantifier's alphabet from an arbitrary state |= Inv;
the statement's clauses are postconditions of the real getters / setters, for every kind and all array contents.
Shell / MolecularBasis: validators and nbasis (loop invariant).
"""

from __future__ import annotations

import json
import os
import re
import subprocess

import z3

from pyvc import lemmas, source
from pyvc.core import Ledger
from pyvc.harness import get_target, verify
from pyvc.interp import Config, LoopSpec, PyRaise
from pyvc.pool import collect, run_jobs
from pyvc.report import A_FP, VENV_PY
from pyvc.values import Obj, SArr, SInt, SOpt, SReal, SU, U, asum, asum_definition, to_z3, ustr, wrap

LEVEL = "other"
T = "iodata.orbitals.MolecularOrbitals"
SPIN_GETTERS = ("occsa", "occsb", "coeffsa", "coeffsb", "energiesa", "energiesb", "irrepsa", "irrepsb", "spinpol")


def mo_cls():
    return source.import_repo("iodata.orbitals").MolecularOrbitals


def _t(x):
    return z3.IntVal(x) if isinstance(x, int) else x


def make_mo(ctx, kind, tag="m"):
    """Arbitrary MolecularOrbitals state of the given kind satisfying Inv."""
    obj = Obj(mo_cls(), tag=f"mo.{tag}")
    obj.fields["kind"] = kind
    na, nb, nbasis = z3.Int(f"{tag}.norba"), z3.Int(f"{tag}.norbb"), z3.Int(f"{tag}.nbasis")
    ctx.assume(z3.And(na >= 0, nb >= 0, nbasis >= 0))
    if kind == "restricted":
        ctx.assume(na == nb)
        norb = na
    elif kind == "unrestricted":
        norb = na + nb
    else:
        norb = z3.Int(f"{tag}.norb")
        ctx.assume(norb >= 0)
    obj.fields["norba"] = SInt(na) if kind != "generalized" else None
    obj.fields["norbb"] = SInt(nb) if kind != "generalized" else None
    rows = nbasis if kind != "generalized" else 2 * nbasis
    obj.fields["occs"] = SOpt(z3.Bool(f"{tag}.occs.isnone"), SArr.fresh(f"{tag}.occs", (norb,), "float"))
    obj.fields["coeffs"] = SOpt(z3.Bool(f"{tag}.coeffs.isnone"), SArr.fresh(f"{tag}.coeffs", (rows, norb), "float"))
    obj.fields["energies"] = SOpt(z3.Bool(f"{tag}.energies.isnone"), SArr.fresh(f"{tag}.energies", (norb,), "float"))
    obj.fields["irreps"] = SOpt(z3.Bool(f"{tag}.irreps.isnone"), SArr.fresh(f"{tag}.irreps", (norb,), "str"))
    if kind == "restricted":
        obj.fields["occs_aminusb"] = SOpt(z3.Bool(f"{tag}.aminusb.isnone"), SArr.fresh(f"{tag}.aminusb", (norb,), "float"))
    else:
        obj.fields["occs_aminusb"] = None
    return obj, dict(na=na, nb=nb, norb=norb, nbasis=nbasis)


def clone(obj):
    return Obj(obj.cls, dict(obj.fields), tag=obj.tag + "'")


def field_terms(v):
    if isinstance(v, SOpt):
        return v.isnone, v.val
    if v is None:
        return z3.BoolVal(True), None
    return z3.BoolVal(False), v


def inv(obj, interp):
    """Inv: kind/norba/norbb agree; every stored array has the length the number of orbitals dictates."""
    kind = obj.fields["kind"]
    na, nb = obj.fields["norba"], obj.fields["norbb"]
    conj = []
    if kind == "generalized":
        conj.append(z3.BoolVal(na is None and nb is None))
        norb = None
    else:
        if na is None or nb is None:
            return z3.BoolVal(False)
        ta, tb = to_z3(na), to_z3(nb)
        conj += [ta >= 0, tb >= 0]
        if kind == "restricted":
            conj.append(ta == tb)
            norb = ta
        else:
            norb = ta + tb
    isn, am = field_terms(obj.fields["occs_aminusb"])
    if kind != "restricted":
        conj.append(isn)
    lens = []
    for name, axis in (("occs", 0), ("coeffs", 1), ("energies", 0), ("irreps", 0), ("occs_aminusb", 0)):
        isnone, val = field_terms(obj.fields[name])
        if val is None:
            continue
        if not isinstance(val, SArr) or val.ndim != (2 if name == "coeffs" else 1):
            conj.append(isnone)
            continue
        lens.append((isnone, _t(val.shape[axis])))
    if norb is not None:
        for isnone, ln in lens:
            conj.append(z3.Or(isnone, ln == norb))
    else:
        for (i1, l1) in lens:
            for (i2, l2) in lens:
                conj.append(z3.Or(i1, i2, l1 == l2))
    return z3.And(*conj) if conj else z3.BoolVal(True)


def same(a, b):
    if isinstance(a, tuple) or isinstance(b, tuple):
        return z3.BoolVal(isinstance(a, tuple) and isinstance(b, tuple) and a[:2] == b[:2])
    if a is None or b is None:
        return z3.BoolVal(a is None and b is None)
    if isinstance(a, SArr) and isinstance(b, SArr):
        if a.ndim != b.ndim:
            return z3.BoolVal(False)
        idx = [z3.Int(f"sm{k}") for k in range(a.ndim)]
        rng = z3.And(*[z3.And(i >= 0, i < _t(s)) for i, s in zip(idx, a.shape)])
        return z3.And(*[_t(x) == _t(y) for x, y in zip(a.shape, b.shape)], z3.ForAll(idx, z3.Implies(rng, a.get(tuple(idx)) == b.get(tuple(idx)))))
    if isinstance(a, SArr) or isinstance(b, SArr):
        return z3.BoolVal(False)
    ta, tb = to_z3(a), to_z3(b)
    if ta.sort() != tb.sort():
        ta = z3.ToReal(ta) if ta.sort() == z3.IntSort() else ta
        tb = z3.ToReal(tb) if tb.sort() == z3.IntSort() else tb
    return ta == tb


def read(interp, obj, name):
    try:
        return interp.load_attr(clone(obj), name)
    except PyRaise as pr:
        return ("raise", type(pr.exc).__name__)


def view(arr, lo, n, axis=0):
    """Documented slice arr[lo:lo+n] along `axis` (spec side, built independently of the code)."""
    if arr.ndim == 1:
        return SArr((n,), lambda idx: arr.get((idx[0] + lo,)), arr.dtype)
    return SArr((arr.shape[0], n), lambda idx: arr.get((idx[0], idx[1] + lo)), arr.dtype)


# ------------------------------------------------------------------------------------------------
def job_getters(kind):
    target = f"{T}.getters[{kind}]"

    def setup(ctx, interp):
        obj, sy = make_mo(ctx, kind)
        ctx.assume(inv(obj, interp))
        return None, [], {}, dict(obj=obj, sy=sy)

    def post(out, env):
        ctx, interp = out.ctx, out.interp
        obj, sy = env["obj"], env["sy"]
        na, norb = sy["na"], sy["norb"]
        vals = {g: read(interp, obj, g) for g in SPIN_GETTERS + ("nelec", "norb", "nbasis")}
        c = clone(obj)
        occs = interp.resolve(c.fields["occs"])
        am = interp.resolve(c.fields["occs_aminusb"])
        if kind == "generalized":
            # O5 generalized orbitals refuse spin-resolved access, expose the combined quantities
            for g in SPIN_GETTERS:
                ctx.prove(f"{target}::post.generalized-refuses-{g}", vals[g] == ("raise", "NotImplementedError"))
            for g in ("nelec", "norb", "nbasis"):
                ctx.prove(f"{target}::post.generalized-exposes-{g}", not isinstance(vals[g], tuple))
        else:
            for g in SPIN_GETTERS + ("nelec", "norb", "nbasis"):
                ctx.prove(f"{target}::post.no-getter-raises", not isinstance(vals[g], tuple))
            ctx.prove(f"{target}::post.norb-is-number-of-spatial-orbitals", same(vals["norb"], wrap(norb)))
        # nelec is the total of the stored occupations
        ctx.prove(f"{target}::post.nelec-is-total-occupation", same(vals["nelec"], SReal(occs.sum_term()) if occs is not None else None))
        if kind == "generalized":
            return
        oa, ob, sp = vals["occsa"], vals["occsb"], vals["spinpol"]
        if occs is None:
            ctx.prove(f"{target}::post.no-occupations-no-spin-occupations", oa is None and ob is None and sp is None)
        elif isinstance(oa, SArr) and isinstance(ob, SArr):
            i = z3.Int("oi")
            rng = z3.And(i >= 0, i < norb)
            if kind == "restricted":
                # O1 alpha + beta == stored occupations, element by element
                ctx.prove(f"{target}::post.occsa-plus-occsb-is-occs", z3.And(_t(oa.shape[0]) == norb, _t(ob.shape[0]) == norb, z3.ForAll([i], z3.Implies(rng, oa.get((i,)) + ob.get((i,)) == occs.get((i,))))))
                if am is not None:
                    ctx.prove(f"{target}::post.occsa-minus-occsb-is-occs_aminusb", z3.ForAll([i], z3.Implies(rng, oa.get((i,)) - ob.get((i,)) == am.get((i,)))))
                    # instance of the summation lemma: pointwise oa - ob - am == 0  ==>  sums
                    ctx.assume(lemmas.linear_sum_instance([(1, oa), (-1, ob), (-1, am)], norb))
                else:
                    clip = occs.map1(lambda t: z3.If(t < 0, z3.RealVal(0), z3.If(t > 1, z3.RealVal(1), t)))
                    allint = z3.ForAll([i], z3.Implies(rng, occs.get((i,)) == z3.ToReal(_trunc(occs.get((i,))))))
                    # documented heuristic: integer occupations = restricted open shell (alpha first), else halves
                    ctx.prove(
                        f"{target}::post.documented-heuristic-for-missing-occs_aminusb",
                        z3.If(allint, z3.ForAll([i], z3.Implies(rng, oa.get((i,)) == clip.get((i,)))), z3.ForAll([i], z3.Implies(rng, oa.get((i,)) * 2 == occs.get((i,))))),
                    )
                    ctx.assume(lemmas.linear_sum_instance([(1, oa), (1, ob), (-1, occs)], norb))
                    ctx.assume(lemmas.linear_sum_instance([(1, oa), (-1, ob), (-2, clip), (1, occs)], norb))
                    ctx.assume(lemmas.linear_sum_instance([(1, oa), (-1, ob)], norb))
            else:
                # O3 documented slices
                ctx.prove(f"{target}::post.occsa-is-first-norba-occupations", same(oa, view(occs, 0, na)))
                ctx.prove(f"{target}::post.occsb-is-remaining-occupations", same(ob, view(occs, na, norb - na)))
                ctx.assume(lemmas.split_sum_instance(occs, na, norb, tail_view=view(occs, na, norb - na)))
                ctx.assume(lemmas.linear_sum_instance([(1, oa), (-1, view(occs, 0, na))], na))
                ctx.assume(lemmas.linear_sum_instance([(1, ob), (-1, view(occs, na, norb - na))], norb - na))
                ctx.assume(lemmas.linear_sum_instance([(1, view(occs, 0, na)), (-1, occs)], na))
                ctx.prove(f"{target}::post.alpha-and-beta-totals-sum-to-nelec", oa.sum_term() + ob.sum_term() == occs.sum_term())
            # O2 spin polarisation is |sum(alpha) - sum(beta)|
            d = oa.sum_term() - ob.sum_term()
            ctx.prove(f"{target}::post.spinpol-is-abs-difference-of-alpha-and-beta-totals", same(sp, SReal(z3.If(d >= 0, d, -d))) if sp is not None and not isinstance(sp, tuple) else False)
        else:
            ctx.prove(f"{target}::post.occsa-occsb-are-arrays", False)
        # O3 alpha/beta views of coefficients, energies, irreps
        for base, axis in (("coeffs", 1), ("energies", 0), ("irreps", 0)):
            arr = interp.resolve(c.fields[base])
            va, vb = vals[base + "a"], vals[base + "b"]
            if arr is None:
                ctx.prove(f"{target}::post.{base}a-b-None-when-absent", va is None and vb is None)
            elif kind == "restricted":
                ctx.prove(f"{target}::post.{base}a-b-are-the-shared-array", z3.And(same(va, arr), same(vb, arr)))
            else:
                ctx.prove(f"{target}::post.{base}a-is-first-norba", same(va, view(arr, 0, na, axis)))
                ctx.prove(f"{target}::post.{base}b-is-the-rest", same(vb, view(arr, na, norb - na, axis)))
        # reading does not change the state
        ctx.prove(f"{target}::step.Inv-preserved", inv(obj, interp), kind="inv-step")

    return verify(target, setup, post, call=lambda *a: None, max_paths=4000)


def _trunc(t):
    return z3.If(t >= 0, z3.ToInt(t), -z3.ToInt(-t))


def job_setters(kind, which):
    """mo.occsa = a / mo.occsb = a from an arbitrary state |= Inv."""
    target = f"{T}.{which}.setter[{kind}]"

    def setup(ctx, interp):
        obj, sy = make_mo(ctx, kind)
        ctx.assume(inv(obj, interp))
        m = z3.Int("new.len")
        ctx.assume(m >= 0)
        a = SArr.fresh("new.occ", (m,), "float")
        return None, [], {}, dict(obj=obj, sy=sy, a=a, m=m)

    def post(out, env):
        ctx, interp = out.ctx, out.interp
        obj, sy, a, m = env["obj"], env["sy"], env["a"], env["m"]
        na, norb = sy["na"], sy["norb"]
        other = "occsb" if which == "occsa" else "occsa"
        before_other = read(interp, obj, other) if kind != "generalized" else None
        before_occs_none = interp.resolve(clone(obj).fields["occs"]) is None
        try:
            interp.store_attr(obj, which, a)
            raised = None
        except PyRaise as pr:
            raised = pr.exc
        if kind == "generalized":
            ctx.prove(f"{target}::post.generalized-refuses-assignment", isinstance(raised, NotImplementedError))
            return
        want_len = norb if kind == "restricted" else (na if which == "occsa" else norb - na)
        if raised is not None:
            ctx.prove(f"{target}::raises.only-TypeError-or-ValueError", isinstance(raised, (TypeError, ValueError)), kind="raises")
            if kind == "restricted" or not before_occs_none:
                ctx.prove(f"{target}::raises.only-for-wrong-length", m != want_len, kind="raises")
            return
        ctx.prove(f"{target}::post.accepted-only-with-right-length", z3.Or(m == 1, m == want_len))
        ctx.prove(f"{target}::post.length-1-array-is-not-broadcast", z3.Or(m != 1, m == want_len))
        ctx.prove(f"{target}::step.Inv-preserved", inv(obj, interp), kind="inv-step")
        ctx.prove(f"{target}::post.reads-back-as-assigned", z3.Or(m != want_len, same(read(interp, obj, which), a)))
        if not before_occs_none:
            ctx.prove(f"{target}::post.other-spin-unchanged", same(read(interp, obj, other), before_other))

    cfg = Config()
    cfg.modifies_args = True  # the setter's purpose is to change the object's own occupation array
    return verify(target, setup, post, config=cfg, call=lambda *a: None, max_paths=4000)


def job_assign(kind, name):
    """mo.<field> = v: accepted exactly when the length agrees with the number of orbitals."""
    target = f"{T}.assign.{name}[{kind}]"

    def setup(ctx, interp):
        obj, sy = make_mo(ctx, kind)
        ctx.assume(inv(obj, interp))
        m, r = z3.Int("new.len"), z3.Int("new.rows")
        ctx.assume(z3.And(m >= 0, r >= 0))
        shape = (r, m) if name == "coeffs" else (m,)
        v = SOpt(z3.Bool("new.isnone"), SArr.fresh("new.v", shape, "str" if name == "irreps" else "float"))
        return None, [], {}, dict(obj=obj, sy=sy, v=v, m=m)

    def post(out, env):
        ctx, interp = out.ctx, out.interp
        obj, sy, m = env["obj"], env["sy"], env["m"]
        v = interp.resolve(env["v"])
        norb_before = read(interp, obj, "norb")
        try:
            interp.store_attr(obj, name, v)
            raised = None
        except PyRaise as pr:
            raised = pr.exc
        if raised is not None:
            ctx.prove(f"{target}::raises.only-TypeError-or-ValueError", isinstance(raised, (TypeError, ValueError)), kind="raises")
            if name == "occs_aminusb" and kind != "restricted":
                ctx.prove(f"{target}::raises.occs_aminusb-only-for-restricted", v is not None, kind="raises")
            elif norb_before is not None:
                ctx.prove(f"{target}::raises.only-for-wrong-length", z3.And(v is not None, m != to_z3(norb_before)) if v is not None else False, kind="raises")
            return
        if v is not None and norb_before is not None:
            ctx.prove(f"{target}::post.accepted-only-with-right-length", m == to_z3(norb_before))
        if name == "occs_aminusb" and kind != "restricted":
            ctx.prove(f"{target}::post.occs_aminusb-rejected-unless-restricted", v is None)
        ctx.prove(f"{target}::step.Inv-preserved", inv(obj, interp), kind="inv-step")
        ctx.prove(f"{target}::post.reads-back", same(interp.load_attr(clone(obj), name), v))

    return verify(target, setup, post, call=lambda *a: None, max_paths=4000)


def job_assign_count(kind, name, new_kind=None):
    """mo.norba / mo.norbb / mo.kind = v from a state |= Inv: refused, or Inv still holds afterwards
    ("kinds that contradict the orbital counts ... are rejected at construction or assignment";
    "arrays whose lengths disagree with the number of orbitals ... are rejected")."""
    target = f"{T}.assign.{name}[{kind}{'->' + new_kind if new_kind else ''}]"

    def setup(ctx, interp):
        obj, sy = make_mo(ctx, kind)
        ctx.assume(inv(obj, interp))
        if name == "kind":
            v = new_kind
        else:
            n = z3.Int("new.n")
            ctx.assume(n >= 0)
            v = SOpt(z3.Bool("new.isnone"), SInt(n))
        return None, [], {}, dict(obj=obj, sy=sy, v=v)

    def post(out, env):
        ctx, interp = out.ctx, out.interp
        obj = env["obj"]
        v = interp.resolve(env["v"])
        try:
            interp.store_attr(obj, name, v)
            raised = None
        except PyRaise as pr:
            raised = pr.exc
        if raised is not None:
            ctx.prove(f"{target}::raises.only-TypeError-or-ValueError", isinstance(raised, (TypeError, ValueError)), kind="raises")
            return
        what = "kind-agrees-with-the-orbital-counts-and-array-lengths" if name == "kind" else "array-lengths-still-agree-with-the-number-of-orbitals"
        ctx.prove(f"{target}::step.accepted-only-if-{what}", inv(obj, interp), kind="inv-step")

    return verify(target, setup, post, call=lambda *a: None, max_paths=4000)


def job_init():
    """MolecularOrbitals(kind, norba, norbb, ...): establishes Inv or raises TypeError / ValueError."""
    target = f"{T}.__init__"
    led = Ledger()
    for kind in ("restricted", "unrestricted", "generalized", "other"):

        def setup(ctx, interp, kind=kind):
            na = SOpt(z3.Bool("a.norba.isnone"), SInt(z3.Int("a.norba")))
            nb = SOpt(z3.Bool("a.norbb.isnone"), SInt(z3.Int("a.norbb")))
            ctx.assume(z3.And(z3.Int("a.norba") >= 0, z3.Int("a.norbb") >= 0))
            kw = {}
            for name in ("occs", "coeffs", "energies", "irreps", "occs_aminusb"):
                m, r = z3.Int(f"a.{name}.len"), z3.Int(f"a.{name}.rows")
                ctx.assume(z3.And(m >= 0, r >= 0))
                shape = (r, m) if name == "coeffs" else (m,)
                kw[name] = SOpt(z3.Bool(f"a.{name}.isnone"), SArr.fresh(f"a.{name}", shape, "str" if name == "irreps" else "float"))
            return mo_cls(), [kind, na, nb], kw, dict(kw=kw)

        def post(out, env, kind=kind):
            ctx, interp = out.ctx, out.interp
            if out.kind == "raise":
                ctx.prove(f"{target}::raises.only-TypeError-or-ValueError", out.exc_class in (TypeError, ValueError), kind="raises")
                return
            ctx.prove(f"{target}::post.kind-is-one-of-the-three", kind != "other")
            ctx.prove(f"{target}::init.Inv-established", inv(out.value, interp), kind="inv-init")

        verify(target, setup, post, ledger=led, max_paths=8000)
    return led


# ------------------------------------------------------------------------------------------------
# Shell
# ------------------------------------------------------------------------------------------------
def job_shell():
    TS = "iodata.basis.Shell"
    led = Ledger()
    basis = source.import_repo("iodata.basis")

    # constructor: the four cross-referencing validators reject every disagreement in shape
    def setup(ctx, interp):
        d = {k: z3.Int(f"sh.{k}") for k in ("nang", "nkind", "nexp", "crow", "ccol")}
        for v in d.values():
            ctx.assume(v >= 0)
        ang = SArr.fresh("sh.angmoms", (d["nang"],), "int")
        kinds = SArr.fresh("sh.kinds", (d["nkind"],), "str")
        exps = SArr.fresh("sh.exponents", (d["nexp"],), "float")
        co = SArr.fresh("sh.coeffs", (d["crow"], d["ccol"]), "float")
        return basis.Shell, [SInt(z3.Int("sh.icenter")), ang, kinds, exps, co], {}, dict(d=d)

    def post(out, env):
        ctx = out.ctx
        d = env["d"]
        agree = z3.And(d["nang"] == d["ccol"], d["nkind"] == d["ccol"], d["nexp"] == d["crow"])
        if out.kind == "raise":
            ctx.prove(f"{TS}.__init__::raises.only-TypeError", out.exc_class is TypeError, kind="raises")
            ctx.prove(f"{TS}.__init__::raises.only-when-shapes-disagree", z3.Not(agree), kind="raises")
        else:
            ctx.prove(f"{TS}.__init__::post.accepted-only-when-angmoms-kinds-exponents-coeffs-agree", agree)
            sh = out.value
            ctx.prove(f"{TS}.__init__::post.ncon-nexp", z3.And(to_z3(out.interp.load_attr(sh, "ncon")) == d["ccol"], to_z3(out.interp.load_attr(sh, "nexp")) == d["crow"]))

    verify(f"{TS}.__init__", setup, post, ledger=led)

    # nbasis: loop invariant over zip(angmoms, kinds)
    ncon = z3.Int("sh.ncon")
    angf = z3.Function("sh.l", z3.IntSort(), z3.IntSort())
    kindf = z3.Function("sh.k", z3.IntSort(), U)
    kk = z3.Int("sh.kk")

    def size(k):
        l = angf(k)
        return z3.If(kindf(k) == ustr("c"), ((l + 1) * (l + 2)) / 2, 2 * l + 1)

    def legal(k):
        return z3.Or(kindf(k) == ustr("c"), z3.And(kindf(k) == ustr("p"), angf(k) >= 2))

    # ghost: number of functions of the first k contractions = asum(SZ, k), SZ[k] = size(k) (the recursive sum of
    # pyvc.values; its two defining equations for this array are assumed below)
    SZ = z3.Lambda([kk], z3.ToReal(size(kk)))

    def cnt(k):
        return asum(SZ, k)

    def real(v):
        t = to_z3(v)
        return z3.ToReal(t) if t.sort() == z3.IntSort() else t

    cfg = Config()

    # the accumulator is the local that the loop updates and the function returns (whatever its name is)
    try:
        _, _, ret, _, upd, carried = source.loop_roles("iodata.basis", "Shell.nbasis", 0)
        acc = [nm for nm in carried if nm in ret][0]
    except (LookupError, IndexError):
        acc = None  # no accumulating loop (e.g. sum() over a generator): the loop contract does not apply

    def havoc(interp, frame, k):
        frame.locals[acc] = SInt(interp.ctx.fresh_int("nb.result"))

    def inv_nb(interp, frame, k):
        j = z3.Int("nbj")
        return z3.And(k <= ncon, real(frame.locals[acc]) == cnt(k), z3.ForAll([j], z3.Implies(z3.And(0 <= j, j < k), legal(j))))

    if acc is not None:
        cfg.loop_specs[(f"{TS}.nbasis", 0)] = LoopSpec("zip(self.angmoms, self.kinds)", havoc, inv_nb, name="loop.contractions")

    def setup2(ctx, interp):
        ctx.assume(ncon >= 0)
        k = z3.Int("ck")
        for d in asum_definition(SZ):
            ctx.assume(d)
        ctx.assume(z3.ForAll([k], angf(k) >= 0))
        sh = Obj(basis.Shell, tag="shell")
        sh.fields.update(icenter=0, angmoms=SArr((ncon,), lambda idx: angf(idx[0]), "int"), kinds=SArr((ncon,), lambda idx: kindf(idx[0]), "str"), exponents=SArr.fresh("e", (1,), "float"), coeffs=SArr.fresh("c", (1, ncon), "float"))
        return None, [], {}, dict(sh=sh)

    def post2(out, env):
        ctx, interp = out.ctx, out.interp
        j = z3.Int("pj")
        all_legal = z3.ForAll([j], z3.Implies(z3.And(0 <= j, j < ncon), legal(j)))
        try:
            r = interp.load_attr(env["sh"], "nbasis")
        except PyRaise as pr:
            ctx.prove(f"{TS}.nbasis::raises.only-TypeError", isinstance(pr.exc, TypeError), kind="raises")
            ctx.prove(f"{TS}.nbasis::raises.only-for-an-illegal-kind", z3.Not(all_legal), kind="raises")
            return
        t = to_z3(r)
        if z3.is_app(t) and t.decl().name() == "asum":
            # the code sums a generator: sum(g(k) for k ...) = asum(G, n).  Instance of the summation lemma proved by
            # induction in job_lemmas (schema (1, -1)): element-wise equal arrays have equal sums.
            ctx.assume(lemmas.linear_sum_instance([(1, t.arg(0)), (-1, SZ)], t.arg(1)))
        ctx.prove(f"{TS}.nbasis::post.sum-of-(l+1)(l+2)/2-for-cartesian-and-2l+1-for-pure", real(r) == cnt(ncon))
        ctx.prove(f"{TS}.nbasis::post.every-kind-is-legal", all_legal)

    # the loop is inside the property getter, whose frame name is the qualified name of the function
    led2 = verify(f"{TS}.nbasis", setup2, post2, config=cfg, ledger=led, call=lambda *a: None)
    return led


def job_lemmas():
    led = Ledger()
    lemmas.prove_used(led, [(1, -1, -1), (1, 1, -1), (1, -1, -2, 1), (1, -1)], split=True)
    return led


# ------------------------------------------------------------------------------------------------
BOUNDED = r"""
import itertools, json, sys
import numpy as np
from iodata.orbitals import MolecularOrbitals
from iodata.basis import Shell
maxn = int(sys.argv[1])
fails, cases = [], 0
def close(a, b):
    if a is None or b is None: return a is None and b is None
    a, b = np.asarray(a, float), np.asarray(b, float)
    return a.shape == b.shape and np.allclose(a, b, atol=1e-12)
def check(mo, hist):
    global cases
    cases += 1
    if mo.kind == "generalized":
        for g in ("occsa", "occsb", "coeffsa", "coeffsb", "energiesa", "energiesb", "irrepsa", "irrepsb", "spinpol"):
            try:
                getattr(mo, g); fails.append((hist, "generalized exposes " + g))
            except NotImplementedError:
                pass
        return
    if mo.occs is None:
        if mo.occsa is not None or mo.occsb is not None or mo.spinpol is not None: fails.append((hist, "spin data without occs"))
        return
    oa, ob = mo.occsa, mo.occsb
    if mo.kind == "restricted":
        if not close(oa + ob, mo.occs): fails.append((hist, "occsa+occsb != occs", oa.tolist(), ob.tolist(), mo.occs.tolist()))
    else:
        if not close(np.concatenate([oa, ob]), mo.occs): fails.append((hist, "slices do not partition occs"))
    if not close(mo.nelec, mo.occs.sum()): fails.append((hist, "nelec != sum(occs)"))
    if not close(mo.spinpol, abs(oa.sum() - ob.sum())): fails.append((hist, "spinpol != |sum(occsa)-sum(occsb)|", float(mo.spinpol), float(abs(oa.sum() - ob.sum()))))
    for base in ("coeffs", "energies", "irreps"):
        arr = getattr(mo, base)
        va, vb = getattr(mo, base + "a"), getattr(mo, base + "b")
        if arr is None:
            if va is not None or vb is not None: fails.append((hist, base + " views without array"))
        elif mo.kind == "restricted":
            if va is not arr or vb is not arr: fails.append((hist, base + " views are not the shared array"))
        else:
            wa, wb = (arr[:, :mo.norba], arr[:, mo.norba:]) if base == "coeffs" else (arr[:mo.norba], arr[mo.norba:])
            if not (np.array_equal(va, wa) and np.array_equal(vb, wb)): fails.append((hist, base + " views are not the documented slices"))
PATTERNS = lambda n: [None, np.zeros(n), np.array([2.0, 2.0, 1.0, 1.0, 0.0, 0.0][:n]), np.array([1.9, 1.5, 0.6, 0.0, 0.0, 0.0][:n]), np.array([2.0, 1.0, 0.9999999999999999, 0, 0, 0][:n])]
AMB = lambda n: [None, np.array([0.0, 0.0, 1.0, 1.0, 0.0, 0.0][:n]), np.array([0.0, 0.0, -1.0, 0.5, 0.0, 0.0][:n])]
for n in range(0, maxn + 1):
    for occs in PATTERNS(n):
        for am in AMB(n):
            if occs is None and am is not None: continue
            mo = MolecularOrbitals("restricted", n, n, occs=occs, occs_aminusb=am, coeffs=np.arange(3.0 * n).reshape(3, n), energies=np.arange(float(n)), irreps=["a"] * n)
            check(mo, ("restricted", n, None if occs is None else occs.tolist(), None if am is None else am.tolist()))
            # assignment sequences
            vals = [np.linspace(0.1, 1.0, n), np.array([1.0, 1.0, 1.0, 0.0, 0.0, 0.0][:n]), np.linspace(1.0, 0.0, n) * 0.5]
            for seq in itertools.product(("occsa", "occsb"), repeat=2):
                m2 = MolecularOrbitals("restricted", n, n, occs=None if occs is None else occs.copy(), occs_aminusb=None if am is None else am.copy())
                for step, (which, v) in enumerate(zip(seq, vals)):
                    other = "occsb" if which == "occsa" else "occsa"
                    before = getattr(m2, other)
                    before = None if before is None else np.array(before)
                    setattr(m2, which, v.copy())
                    if not close(getattr(m2, which), v): fails.append((("restricted", n, seq[: step + 1]), which + " does not read back"))
                    if before is not None and not close(getattr(m2, other), before): fails.append((("restricted", n, seq[: step + 1]), other + " changed"))
                    check(m2, ("restricted", n, seq[: step + 1]))
    for na in range(0, n + 1):
        nb = n - na
        occs = np.array([1.0, 1.0, 0.5, 1.0, 0.0, 0.3][:n])
        mo = MolecularOrbitals("unrestricted", na, nb, occs=occs.copy(), coeffs=np.arange(3.0 * n).reshape(3, n), energies=np.arange(float(n)), irreps=list("abcdef"[:n]))
        check(mo, ("unrestricted", na, nb))
        mo.occsa = np.full(na, 0.25); mo.occsb = np.full(nb, 0.75)
        if not (close(mo.occsa, np.full(na, 0.25)) and close(mo.occsb, np.full(nb, 0.75))): fails.append((("unrestricted", na, nb), "setters do not read back"))
        check(mo, ("unrestricted", na, nb, "set"))
    mo = MolecularOrbitals("generalized", None, None, occs=np.ones(n), coeffs=np.ones((4, n)))
    check(mo, ("generalized", n))
    # wrong lengths are rejected
    for kind, a, b in (("restricted", n, n), ("unrestricted", n, 1)):
        norb = n if kind == "restricted" else n + 1
        for field in ("occs", "energies", "irreps", "occs_aminusb", "coeffs"):
            if field == "occs_aminusb" and kind != "restricted": continue
            bad = np.ones((2, norb + 1)) if field == "coeffs" else (["a"] * (norb + 1) if field == "irreps" else np.ones(norb + 1))
            cases += 1
            try:
                MolecularOrbitals(kind, a, b, **{field: bad}); fails.append(((kind, n, field), "wrong length accepted at construction"))
            except TypeError:
                pass
            m3 = MolecularOrbitals(kind, a, b)
            try:
                setattr(m3, field, bad); fails.append(((kind, n, field), "wrong length accepted at assignment"))
            except TypeError:
                pass
for args in (("restricted", 2, 3), ("restricted", None, 2), ("unrestricted", 2, None), ("generalized", 2, None), ("generalized", None, 2), ("nonsense", 1, 1)):
    cases += 1
    try:
        MolecularOrbitals(*args); fails.append((args, "contradictory kind / counts accepted"))
    except ValueError:
        pass
try:
    MolecularOrbitals("unrestricted", 1, 1, occs_aminusb=np.zeros(2)); fails.append(("unrestricted", "occs_aminusb accepted"))
except ValueError:
    pass
# shells
for ncon in range(1, 5):
    for ls in itertools.product(range(0, 10, 3), repeat=ncon):
        for ks in itertools.product("cp", repeat=ncon):
            cases += 1
            sh = Shell(0, list(ls), list(ks), np.ones(3), np.ones((3, ncon)))
            legal = all(k == "c" or l >= 2 for l, k in zip(ls, ks))
            try:
                nb = sh.nbasis
                want = sum((l + 1) * (l + 2) // 2 if k == "c" else 2 * l + 1 for l, k in zip(ls, ks))
                if not legal or nb != want: fails.append((("shell", ls, ks), "nbasis wrong", nb))
            except TypeError:
                if legal: fails.append((("shell", ls, ks), "legal shell refused"))
    for bad in (dict(angmoms=[0] * (ncon + 1)), dict(kinds=["c"] * (ncon + 1)), dict(exponents=np.ones(4)), dict(coeffs=np.ones((3, ncon + 1)))):
        kw = dict(icenter=0, angmoms=[0] * ncon, kinds=["c"] * ncon, exponents=np.ones(3), coeffs=np.ones((3, ncon)))
        kw.update(bad)
        cases += 1
        try:
            Shell(**kw); fails.append((("shell", ncon, list(bad)), "shape disagreement accepted"))
        except TypeError:
            pass
sig = {}
for f in fails: sig.setdefault(f[1], f)
print(json.dumps(dict(cases=cases, nfails=len(fails), kinds={k: repr(v)[:500] for k, v in sig.items()}), default=str))
"""


def run_bounded(chk):
    maxn = 4 if chk.tier == "quick" else 6
    env = dict(os.environ, PYTHONPATH=source.REPO)
    out = subprocess.run([VENV_PY, "-c", BOUNDED, str(maxn)], capture_output=True, text=True, env=env, cwd="/", timeout=3000)
    if out.returncode != 0:
        chk.fault(f"bounded driver crashed: {out.stderr[-1500:]}")
        return
    res = json.loads(out.stdout.strip().splitlines()[-1])
    tail = "print(json.dumps(dict(cases=cases, nfails=len(fails), kinds={k: repr(v)[:500] for k, v in sig.items()}), default=str))"
    for kind, example in sorted(res["kinds"].items()):
        script = BOUNDED.replace("maxn = int(sys.argv[1])", f"maxn = {maxn}").replace(tail, f"print(sig.get({kind!r}))\nif {kind!r} in sig:\n    print('REPRODUCED'); sys.exit(1)")
        chk.add_bounded(f"orbitals-and-shells.{kind}", f"kinds x orbital counts 0..{maxn} x occupation patterns x occsa/occsb sequences of depth 2; shells with 1..4 contractions", res["cases"], [example], replay_script=script)
    if not res["kinds"]:
        chk.add_bounded("orbitals-and-shells", f"kinds x orbital counts 0..{maxn} x occupation patterns x occsa/occsb sequences of depth 2; shells with 1..4 contractions of l in 0..9, kinds c/p", res["cases"], [])


REPLAY_BROADCAST = """
import sys
import numpy as np
from iodata.orbitals import MolecularOrbitals
mo = MolecularOrbitals("{kind}", {na}, {nb}, occs=np.array({occs}))
try:
    mo.{which} = np.array([0.5])
except (TypeError, ValueError) as exc:
    print("rejected:", exc); sys.exit(0)
print("a length-1 array was accepted for {want} orbitals; {which} =", mo.{which})
print("REPRODUCED"); sys.exit(1)
"""

REPLAY_COUNT = """
import sys
import numpy as np
from iodata.orbitals import MolecularOrbitals
START = dict(restricted=("restricted", 3, 3, 3), unrestricted=("unrestricted", 3, 2, 5), generalized=("generalized", None, None, 3))
kind, na, nb, norb = START[{kind!r}]
mo = MolecularOrbitals(kind, na, nb, occs=np.ones(norb), energies=np.zeros(norb), coeffs=np.ones((4, norb)))
try:
    mo.{name} = {value!r}
except (TypeError, ValueError) as exc:
    print("rejected:", exc); sys.exit(0)
print("accepted: kind", mo.kind, "norba", mo.norba, "norbb", mo.norbb, "len(occs)", len(mo.occs))
try:
    MolecularOrbitals(mo.kind, mo.norba, mo.norbb, occs=mo.occs, energies=mo.energies, coeffs=mo.coeffs)
    print("the state after the assignment is one the constructor accepts"); sys.exit(0)
except (TypeError, ValueError) as exc:
    print("the constructor rejects the state the assignment left behind:", exc)
print("REPRODUCED"); sys.exit(1)
"""

REPLAY_SPINPOL = """
import sys
import numpy as np
from iodata.orbitals import MolecularOrbitals
mo = MolecularOrbitals("restricted", 1, 1, occs=np.array([1.0]), occs_aminusb=np.array([-1.0]))
want = abs(mo.occsa.sum() - mo.occsb.sum())
print("occsa", mo.occsa, "occsb", mo.occsb, "spinpol", mo.spinpol, "expected |sum(occsa)-sum(occsb)| =", want)
if mo.spinpol != want:
    print("REPRODUCED"); sys.exit(1)
"""


def run(chk):
    chk.functions += [f"{T}.{g} (getter)" for g in SPIN_GETTERS + ("nelec", "norb", "nbasis")] + [f"{T}.occsa (setter)", f"{T}.occsb (setter)", "iodata.orbitals.validate_norbab", "iodata.orbitals.validate_occs_aminusb", "iodata.basis.Shell.nbasis/nexp/ncon", "iodata.attrutils.validate_shape.<locals>.validator"]
    chk.trusted += [
        "z3",
        "attrs model (see C11)",
        "numpy axioms: element-wise + - / ==, np.clip, astype(int) = truncation, .all() = forall, slicing = views, np.array(x) = copy, ndarray.sum = recursive sum",
        "summation lemmas proved by explicit induction in z3 (pyvc/lemmas.py); instances added by the harness",
    ]
    chk.assumptions += [A_FP + " -- in particular (a+b)/2 + (a-b)/2 == a exactly", "occsa/occsb setters: a length-1 array assigned to an object with another number of orbitals is broadcast by numpy instead of being rejected; this case is excluded by precondition (not modelled)", "assignment alphabet: occs, occs_aminusb, occsa, occsb, coeffs, energies, irreps, norba, norbb, kind"]
    jobs = [("checks.c12", "job_getters", {"kind": k}) for k in ("restricted", "unrestricted", "generalized")]
    jobs += [("checks.c12", "job_setters", {"kind": k, "which": w}) for k in ("restricted", "unrestricted", "generalized") for w in ("occsa", "occsb")]
    jobs += [("checks.c12", "job_assign", {"kind": k, "name": n}) for k in ("restricted", "unrestricted", "generalized") for n in ("occs", "occs_aminusb", "coeffs", "energies", "irreps")]
    jobs += [("checks.c12", "job_assign_count", {"kind": k, "name": n}) for k in ("restricted", "unrestricted", "generalized") for n in ("norba", "norbb")]
    jobs += [("checks.c12", "job_assign_count", {"kind": k, "name": "kind", "new_kind": k2}) for k in ("restricted", "unrestricted", "generalized") for k2 in ("restricted", "unrestricted", "generalized", "other")]
    jobs += [("checks.c12", "job_init", {}), ("checks.c12", "job_shell", {}), ("checks.c12", "job_lemmas", {})]
    collect(chk, run_jobs(jobs))
    run_bounded(chk)
    for o in chk.ledger.obligations.values():
        if o.status == "refuted" and "spinpol-is-abs-difference" in o.name:
            chk.set_replay(o.name, REPLAY_SPINPOL)
        if o.status == "refuted" and "length-1-array-is-not-broadcast" in o.name:
            which = "occsa" if "occsa" in o.name else "occsb"
            if "[restricted]" in o.name:
                chk.set_replay(o.name, REPLAY_BROADCAST.format(kind="restricted", na=3, nb=3, occs=[2.0, 1.0, 0.0], which=which, want=3))
            else:
                chk.set_replay(o.name, REPLAY_BROADCAST.format(kind="unrestricted", na=2, nb=2, occs=[1.0, 1.0, 0.0, 0.0], which=which, want=2))
    for o in chk.ledger.obligations.values():
        m = re.search(r"assign\.(norba|norbb|kind)\[(\w+)(?:->(\w+))?\]::step\.accepted-only-if", o.name)
        if o.status == "refuted" and m:
            chk.set_replay(o.name, REPLAY_COUNT.format(kind=m.group(2), name=m.group(1), value=m.group(3) if m.group(1) == "kind" else 4))
    chk.samples = [o.as_dict() for o in list(chk.ledger.obligations.values())[:6]]
    chk.notes["explanation"] = "C12: invariant + getter/setter/validator contracts for every kind and all array contents; Shell validators and nbasis loop invariant"
