"""./check <property-id> [--tier quick|thorough]"""

import importlib
import sys

from pyvc import source
from pyvc.report import main_wrapper

LEVELS = {}


def main():
    if len(sys.argv) < 2:
        print("usage: ./check <Cxx> [--tier quick|thorough]")
        sys.exit(3)
    pid = sys.argv[1].upper()
    try:
        source.ensure_repo_on_path()
        mod = importlib.import_module(f"checks.{pid.lower()}")
    except Exception:  # noqa: BLE001
        import traceback

        traceback.print_exc()
        print(f"CHECKER-FAULT property={pid} cannot load check")
        sys.exit(3)
    main_wrapper(pid, mod.LEVEL, mod.run)


if __name__ == "__main__":
    main()
