"""C20 -- numerical helpers return what their documentation says.

Targets under contract: utils.set_four_index_element, utils.volume, utils.strtobool (+ table STRTOBOOL),
utils.check_dm, utils.derive_naturals (structure against the assumed contract of scipy.linalg.eigh; the
matrix-algebra consequence is a Lean lemma, lemmas/NaturalOrbitals.lean).
"""

from __future__ import annotations

import itertools
import json
import os
import random
import subprocess

import z3

from pyvc import source
from pyvc.core import Ledger, check_valid
from pyvc.harness import get_target, verify
from pyvc.interp import Config, PyRaise
from pyvc.models import SMat, MatSort, eigh_vals, eigh_vecs, mat_cols, mat_dot, mat_T
from pyvc.pool import collect, run_jobs
from pyvc.report import A_FP, VENV_PY, VERIF
from pyvc.values import SArr, SInt, SReal, SU, U, to_z3, ustr, wrap

LEVEL = "proof"
UT = "iodata.utils"


# ------------------------------------------------------------------------------------------------
def job_four_index():
    """Exactly the eight symmetry-equivalent positions are assigned, all others keep their value."""
    T = f"{UT}.set_four_index_element"

    def setup(ctx, interp):
        n = z3.Int("n")
        ctx.assume(n >= 1)
        A0 = z3.Function("A0", *([z3.IntSort()] * 4), z3.RealSort())
        arr = SArr((n, n, n, n), lambda idx: A0(*idx), "float", tag="A")
        ix = z3.Ints("i0 i1 i2 i3")
        for i in ix:
            ctx.assume(z3.And(i >= 0, i < n))
        v = z3.Real("value")
        fn = get_target(f"{UT}:set_four_index_element")
        return fn, [arr, *[SInt(i) for i in ix], SReal(v)], {}, dict(n=n, A0=A0, arr=arr, ix=ix, v=v)

    def post(out, env):
        ctx = out.ctx
        n, A0, arr, (i, j, k, l), v = env["n"], env["A0"], env["arr"], env["ix"], env["v"]
        ctx.prove("post.returns-normally", out.kind == "return")
        if out.kind != "return":
            return
        # symmetries of a real two-electron integral in physicists' notation, from the physics definition:
        # <ij|kl> = <ji|lk> = <kj|il> = <il|kj> = <kl|ij> = <lk|ji> = <jk|li> = <li|jk>
        images = [(i, j, k, l), (j, i, l, k), (k, j, i, l), (i, l, k, j), (k, l, i, j), (l, k, j, i), (j, k, l, i), (l, i, j, k)]
        a, b, c, d = z3.Ints("qa qb qc qd")
        rng = z3.And(*[z3.And(x >= 0, x < n) for x in (a, b, c, d)])
        is_image = z3.Or(*[z3.And(a == p, b == q, c == r, d == s) for p, q, r, s in images])
        new = arr.get((a, b, c, d))
        ctx.prove("post.eight-images-hold-the-value", z3.ForAll([a, b, c, d], z3.Implies(z3.And(rng, is_image), new == v)))
        ctx.prove("post.every-other-element-unchanged", z3.ForAll([a, b, c, d], z3.Implies(z3.And(rng, z3.Not(is_image)), new == A0(a, b, c, d))))

    cfg = Config()
    cfg.modifies_args = True  # modifies = {four_index_object}
    return verify(T, setup, post, config=cfg)


# ------------------------------------------------------------------------------------------------
TRUE_WORDS = ("y", "yes", "t", "true", "on", "1")
FALSE_WORDS = ("n", "no", "f", "false", "off", "0")


def job_strtobool():
    T = f"{UT}.strtobool"

    def setup(ctx, interp):
        s = z3.Const("s", U)
        fn = get_target(f"{UT}:strtobool")
        return fn, [SU(s, str)], {}, dict(s=s)

    def post(out, env):
        ctx = out.ctx
        lower = z3.Function("str.lower", U, U)
        low = lower(env["s"])
        is_t = z3.Or(*[low == ustr(w) for w in TRUE_WORDS])
        is_f = z3.Or(*[low == ustr(w) for w in FALSE_WORDS])
        if out.kind == "raise":
            ctx.prove("raises.only-ValueError", out.exc_class is ValueError, kind="raises")
            ctx.prove("raises.only-for-undocumented-words", z3.Not(z3.Or(is_t, is_f)), kind="raises")
            return
        ctx.prove("post.returns-bool", isinstance(out.value, bool))
        if out.value is True:
            ctx.prove("post.True-only-for-documented-true-words", is_t)
        elif out.value is False:
            ctx.prove("post.False-only-for-documented-false-words", is_f)

    return verify(T, setup, post)


# ------------------------------------------------------------------------------------------------
def _cell(ctx, name, shape):
    f = z3.Function(name, *([z3.IntSort()] * len(shape)), z3.RealSort())
    return SArr(shape, lambda idx: f(*idx), "float", tag=name), f


def job_volume():
    T = f"{UT}.volume"
    led = Ledger()
    fn_name = f"{UT}:volume"

    def case(shape, label):
        def setup(ctx, interp):
            arr, f = _cell(ctx, "cell", shape)
            return get_target(fn_name), [arr], {}, dict(f=f, arr=arr, shape=shape)

        def post(out, env):
            ctx = out.ctx
            f = env["f"]
            ctx.prove(f"post.{label}.returns-normally", out.kind == "return")
            if out.kind != "return":
                return
            r = to_z3(out.value)
            ctx.prove(f"post.{label}.non-negative", r >= 0)
            if shape in ((3,), (1, 3)):
                g = (lambda k: f(k)) if shape == (3,) else (lambda k: f(0, k))
                ctx.prove(f"post.{label}.is-length", r * r == g(0) * g(0) + g(1) * g(1) + g(2) * g(2))
            elif shape == (2, 3):
                a, b = [f(0, k) for k in range(3)], [f(1, k) for k in range(3)]
                # |a x b|^2 = |a|^2 |b|^2 - (a.b)^2   (Lagrange identity: the area spanned by a and b)
                aa, bb, ab = sum(x * x for x in a), sum(x * x for x in b), sum(x * y for x, y in zip(a, b))
                ctx.prove(f"post.{label}.is-area", r * r == aa * bb - ab * ab)
            elif shape == (3, 3):
                m = [[f(i, j) for j in range(3)] for i in range(3)]
                det = m[0][0] * (m[1][1] * m[2][2] - m[1][2] * m[2][1]) - m[0][1] * (m[1][0] * m[2][2] - m[1][2] * m[2][0]) + m[0][2] * (m[1][0] * m[2][1] - m[1][1] * m[2][0])
                ctx.prove(f"post.{label}.is-abs-det", r == z3.If(det >= 0, det, -det))

        verify(T, setup, post, ledger=led)

    case((3,), "flat-vector")
    case((1, 3), "one-vector")
    case((2, 3), "two-vectors")
    case((3, 3), "three-vectors")

    # order / handedness independence: volume(rows permuted) == volume(rows)
    for nv in (2, 3):
        for perm in itertools.permutations(range(nv)):
            if perm == tuple(range(nv)):
                continue

            def setup(ctx, interp, nv=nv, perm=perm):
                arr, f = _cell(ctx, "cell", (nv, 3))
                arr2 = SArr((nv, 3), lambda idx: _perm_get(f, perm, idx), "float", tag="cellp")
                return get_target(fn_name), [arr], {}, dict(arr2=arr2)

            def call(interp, fn, args, kwargs):
                return interp.call(fn, args, kwargs)

            def post(out, env, nv=nv, perm=perm):
                ctx = out.ctx
                if out.kind != "return":
                    ctx.prove(f"post.permutation.{nv}.returns", False)
                    return
                r2 = out.interp.call(get_target(fn_name), [env["arr2"]])
                ctx.prove(f"post.independent-of-order-and-handedness.{nv}-vectors", to_z3(r2) == to_z3(out.value))

            verify(T, setup, post, ledger=led, call=call)

    # rejected shapes: (x, 3) with x not in {1, 2, 3}
    def setup(ctx, interp):
        x = z3.Int("x")
        ctx.assume(z3.And(x >= 0, z3.Not(z3.Or(x == 1, x == 2, x == 3))))
        arr, f = _cell(ctx, "cell", (x, 3))
        return get_target(fn_name), [arr], {}, {}

    def post(out, env):
        out.ctx.prove("raises.ValueError-for-other-numbers-of-vectors", out.kind == "raise" and out.exc_class is ValueError, kind="raises")

    verify(T, setup, post, ledger=led)
    return led


def _perm_get(f, perm, idx):
    i = z3.simplify(idx[0])
    if z3.is_int_value(i):
        return f(perm[i.as_long()], idx[1])
    r = f(perm[-1], idx[1])
    for k in range(len(perm) - 2, -1, -1):
        r = z3.If(i == k, f(perm[k], idx[1]), r)
    return r


# ------------------------------------------------------------------------------------------------
def _eigh_model(interp, args, kwargs):
    a, b = args[0], args[1]
    if kwargs or len(args) != 2 or not isinstance(a, SMat) or not isinstance(b, SMat):
        from pyvc.core import OutsideSubset

        raise OutsideSubset("eigh called in a form not covered by the assumed contract")
    return (SMat(eigh_vals(a.t, b.t), (a.shape[0],)), SMat(eigh_vecs(a.t, b.t), a.shape))


def job_naturals():
    """derive_naturals(dm, S) = (V[:, :n], w) with (w, V) = eigh(S^T dm S, S)."""
    T = f"{UT}.derive_naturals"
    import scipy.linalg

    cfg = Config()
    cfg.models[scipy.linalg.eigh] = _eigh_model
    utils = source.import_repo("iodata.utils")
    cfg.models[utils.eigh] = _eigh_model

    def setup(ctx, interp):
        n = z3.Int("n")
        ctx.assume(n >= 1)
        D, S = z3.Const("D", MatSort), z3.Const("S", MatSort)
        return get_target(f"{UT}:derive_naturals"), [SMat(D, (n, n)), SMat(S, (n, n))], {}, dict(D=D, S=S, n=n)

    def post(out, env):
        ctx = out.ctx
        D, S, n = env["D"], env["S"], env["n"]
        ctx.prove("post.returns-normally", out.kind == "return")
        if out.kind != "return":
            return
        ok = isinstance(out.value, tuple) and len(out.value) == 2 and all(isinstance(v, SMat) for v in out.value)
        ctx.prove("post.returns-pair", ok)
        if not ok:
            return
        coeffs, occs = out.value
        sds = mat_dot(mat_T(S), mat_dot(D, S))
        ctx.prove("post.occupations-are-generalized-eigenvalues-of-(S^T.D.S, S)", occs.t == eigh_vals(sds, S))
        ctx.prove("post.coefficients-are-all-n-generalized-eigenvectors", coeffs.t == mat_cols(eigh_vecs(sds, S), n))

    return verify(T, setup, post, config=cfg)


def job_check_dm():
    T = f"{UT}.check_dm"
    cfg = Config()

    def dn_contract(interp, args, kwargs):
        # by contract of derive_naturals: occupations = generalized eigenvalues (a 1-D float array of length n >= 1)
        occ = interp.ctx.ghost["occ"]
        return (SMat(z3.Const("C", MatSort), ()), occ)

    cfg.contracts[f"{UT}.derive_naturals"] = dn_contract

    def setup(ctx, interp):
        n = z3.Int("n")
        ctx.assume(n >= 1)
        w = z3.Function("w", z3.IntSort(), z3.RealSort())
        occ = SArr((n,), lambda idx: w(idx[0]), "float", tag="occupations")
        ctx.ghost["occ"] = occ
        eps, occ_max = z3.Reals("eps occ_max")
        dm, ov = SMat(z3.Const("D", MatSort), (n, n)), SMat(z3.Const("S", MatSort), (n, n))
        return get_target(f"{UT}:check_dm"), [dm, ov, SReal(eps), SReal(occ_max)], {}, dict(n=n, w=w, eps=eps, occ_max=occ_max)

    def post(out, env):
        ctx = out.ctx
        n, w, eps, occ_max = env["n"], env["w"], env["eps"], env["occ_max"]
        i = z3.Int("ci")
        inside = z3.ForAll([i], z3.Implies(z3.And(i >= 0, i < n), z3.And(w(i) >= -eps, w(i) <= occ_max + eps)))
        if out.kind == "raise":
            ctx.prove("raises.only-ValueError", out.exc_class is ValueError, kind="raises")
            ctx.prove("raises.only-when-an-occupation-is-outside-[-eps,occ_max+eps]", z3.Not(inside), kind="raises")
        else:
            ctx.prove("post.accepts-only-occupations-inside-[-eps,occ_max+eps]", inside)
            ctx.prove("post.returns-None", out.value is None)

    # default arguments: eps=1e-4, occ_max=1.0 (ground)
    led = verify(T, setup, post, config=cfg)
    fn = get_target(f"{UT}:check_dm")
    ok = fn.__defaults__ == (1e-4, 1.0)
    led.record(f"{T}::ground.defaults-eps-1e-4-occ_max-1", "ground", "discharged" if ok else "refuted", "eval", 0.0, detail=str(fn.__defaults__))
    return led


# ------------------------------------------------------------------------------------------------
def job_ground_strtobool():
    led = Ledger()
    fn = get_target(f"{UT}:strtobool")
    bad = []
    n = 0
    for words, want in ((TRUE_WORDS, True), (FALSE_WORDS, False)):
        for w in words:
            for mask in itertools.product((0, 1), repeat=len(w)):
                s = "".join(c.upper() if m else c for c, m in zip(w, mask))
                n += 1
                try:
                    if fn(s) is not want:
                        bad.append(s)
                except ValueError:
                    bad.append(s)
    rng = random.Random(1)
    others = ["", " ", "yes ", " no", "2", "tru", "yess", "of", "none", "None", "ye s", "0.0", "01", "√", "ON\n"] + ["".join(rng.choice("yestruonfalsf01 ") for _ in range(rng.randint(1, 6))) for _ in range(300)]
    vocab = set(TRUE_WORDS) | set(FALSE_WORDS)
    for s in others:
        n += 1
        try:
            r = fn(s)
            if s.lower() not in vocab:
                bad.append(s)
            elif r is not (s.lower() in TRUE_WORDS):
                bad.append(s)
        except ValueError:
            if s.lower() in vocab:
                bad.append(s)
    led.record(f"{UT}.strtobool::ground.all-case-variants-of-the-vocabulary-and-other-strings", "ground", "refuted" if bad else "discharged", "eval", 0.0, detail=str(bad[:5]), witness={"inputs": bad[:5]} if bad else None)
    tab = source.import_repo("iodata.utils").STRTOBOOL
    ok = tab == {**{w: True for w in TRUE_WORDS}, **{w: False for w in FALSE_WORDS}}
    led.record(f"{UT}.STRTOBOOL::ground.table-is-the-documented-vocabulary", "ground", "discharged" if ok else "refuted", "eval", 0.0, detail=str(tab))
    return {"ledger": led, "strtobool_cases": n}


def job_lean():
    """The Lean lemma (natural orbitals reconstruct the density matrix) compiles."""
    led = Ledger()
    src = os.path.join(VERIF, "lemmas", "NaturalOrbitals.lean")
    import time

    t0 = time.time()
    try:
        out = subprocess.run(["lake", "env", "lean", src], cwd="/opt/veriftools/mathlib4", capture_output=True, text=True, timeout=900)
        ok = out.returncode == 0 and "error" not in out.stdout.lower() and "sorry" not in (out.stdout + out.stderr).lower()
        detail = (out.stdout + out.stderr)[-1500:]
    except Exception as exc:  # noqa: BLE001
        ok, detail = False, repr(exc)
    text = open(src).read()
    if "sorry" in text or "admit" in text or "axiom " in text:
        ok, detail = False, "lemma file contains sorry/admit/axiom"
    led.record("C20.lemma::NaturalOrbitals.reconstruct-density-and-orthonormality", "lemma", "discharged" if ok else "unknown", "lean4+mathlib", time.time() - t0, detail=detail)
    return led


BOUNDED = r"""
import json, sys, itertools
import numpy as np
from iodata.utils import derive_naturals, check_dm, volume, set_four_index_element
seed, nmat = int(sys.argv[1]), int(sys.argv[2])
rng = np.random.default_rng(seed)
fails = []
cases = 0
for it in range(nmat):
    n = 1 + it % 12
    a = rng.normal(size=(n, n)); S = a @ a.T + n * np.eye(n)
    occ = rng.uniform(0, 2, size=n)
    if it % 3 == 0: occ[: n // 2] = 0.0
    if it % 4 == 0: occ[:] = np.round(occ)
    C = np.linalg.inv(np.linalg.cholesky(S)).T @ np.linalg.qr(rng.normal(size=(n, n)))[0]
    D = C @ np.diag(occ) @ C.T
    if it % 5 == 0: S = np.asfortranarray(S)
    if it % 7 == 3:
        # integer-typed (but symmetric positive definite) overlap and density matrices
        S = (2 + it % 3) * np.eye(n, dtype=int) + ((np.eye(n, k=1, dtype=int) + np.eye(n, k=-1, dtype=int)) if n > 1 else 0)
        D = np.diag(np.arange(n) % 3)
        Li = np.linalg.inv(np.linalg.cholesky(S.astype(float)))
        occ = np.linalg.eigvalsh(Li @ (S.T @ D @ S) @ Li.T)
    coeffs, occs = derive_naturals(D.copy(), S.copy())
    cases += 1
    e1 = np.abs(coeffs.T @ S @ coeffs - np.eye(n)).max()
    e2 = np.abs(coeffs @ np.diag(occs) @ coeffs.T - D).max()
    e3 = np.abs(np.sort(occs) - np.sort(occ)).max()
    e4 = np.abs(S @ D @ S @ coeffs - S @ coeffs @ np.diag(occs)).max()
    if max(e1, e2, e3) > 1e-8 * max(1, np.abs(S).max()) ** 2 or coeffs.shape != (n, n):
        fails.append(dict(what="derive_naturals", n=n, it=it, orth=e1, recon=e2, occs=e3))
    for occ_max in (1.0, 2.0, 0.5):
        for eps in (1e-4, 1e-2):
            lo, hi = occs.min(), occs.max()
            expect_ok = lo >= -eps and hi <= occ_max + eps
            try:
                check_dm(D, S, eps=eps, occ_max=occ_max); got_ok = True
            except ValueError:
                got_ok = False
            cases += 1
            margin = min(abs(lo + eps), abs(hi - occ_max - eps))
            if got_ok != expect_ok and margin > 1e-9:
                fails.append(dict(what="check_dm", n=n, it=it, eps=eps, occ_max=occ_max, lo=lo, hi=hi, accepted=got_ok))
# window probes for check_dm on diagonal matrices (exact occupations)
for occ_max in (1.0, 2.0, 0.5, 3.0):
    for eps in (1e-4, 1e-3):
        for delta in (-3, -1.5, -0.5, 0.5, 1.5, 3):
            for side in ("hi", "lo"):
                v = occ_max + eps + delta * eps * 0.5 if side == "hi" else -eps + delta * eps * 0.5
                D = np.diag([v, occ_max / 2]); S = np.eye(2)
                expect_ok = (-eps <= v <= occ_max + eps)
                try:
                    check_dm(D, S, eps=eps, occ_max=occ_max); got_ok = True
                except ValueError:
                    got_ok = False
                cases += 1
                if got_ok != expect_ok:
                    fails.append(dict(what="check_dm-window", v=v, eps=eps, occ_max=occ_max, accepted=got_ok))
# volume
for it in range(200):
    for nv in (1, 2, 3):
        c = rng.normal(size=(nv, 3)) * 3
        ref = {1: lambda c: np.sqrt((c ** 2).sum()), 2: lambda c: np.sqrt(max(0.0, (c[0] @ c[0]) * (c[1] @ c[1]) - (c[0] @ c[1]) ** 2)), 3: lambda c: abs(np.linalg.det(c))}[nv](c)
        for perm in itertools.permutations(range(nv)):
            v = volume(c[list(perm)])
            cases += 1
            if v < 0 or abs(v - ref) > 1e-9 * max(1, ref):
                fails.append(dict(what="volume", cell=c[list(perm)].tolist(), got=float(v), expected=float(ref)))
# four-index on prefilled arrays, all quadruples n <= 4 (6 in thorough)
nmax = 4 if nmat < 200 else 6
for n in range(1, nmax + 1):
    base = rng.normal(size=(n, n, n, n))
    for q in itertools.product(range(n), repeat=4):
        for val in (0.0, 1.5):
            A = base.copy()
            set_four_index_element(A, *q, val)
            i, j, k, l = q
            img = {(i, j, k, l), (j, i, l, k), (k, j, i, l), (i, l, k, j), (k, l, i, j), (l, k, j, i), (j, k, l, i), (l, i, j, k)}
            ok = all(A[p] == val for p in img)
            mask = np.ones(A.shape, bool)
            for p in img: mask[p] = False
            ok = ok and np.array_equal(A[mask], base[mask])
            cases += 1
            if not ok:
                fails.append(dict(what="set_four_index_element", n=n, q=q, value=val))
print(json.dumps(dict(cases=cases, fails=fails[:10], nfails=len(fails)), default=float))
"""


def run_bounded(chk):
    nmat = 60 if chk.tier == "quick" else 600
    env = dict(os.environ, PYTHONPATH=source.REPO)
    out = subprocess.run([VENV_PY, "-c", BOUNDED, str(chk.seed), str(nmat)], capture_output=True, text=True, env=env, cwd="/", timeout=1800)
    if out.returncode != 0:
        chk.fault(f"bounded driver crashed: {out.stderr[-1500:]}")
        return
    res = json.loads(out.stdout.strip().splitlines()[-1])
    by = {}
    for f in res["fails"]:
        by.setdefault(f["what"].split("-")[0], []).append(f)
    for what, bound in (
        ("derive_naturals", "random symmetric D, SPD S, sizes 1..12, degenerate/zero occupations, tol 1e-8 (float side of the property; bounded)"),
        ("check_dm", "same matrices x occ_max in {1,2,.5} x eps in {1e-4,1e-2}; window probes around both interval ends"),
        ("volume", "200 random cells x 1..3 vectors x all row permutations"),
        ("set_four_index_element", "all index quadruples n<=4 (6 thorough) on pre-filled arrays, value 0.0 and 1.5"),
    ):
        fl = by.get(what, [])
        script = bounded_replay(chk.seed, nmat, what) if fl else None
        chk.add_bounded(what, bound, res["cases"] // 4, fl, replay_script=script)
        if fl:
            for o in chk.ledger.obligations.values():
                if o.status == "refuted" and f".{what}::" in o.name:
                    chk.set_replay(o.name, script, witness=fl[0])


_TAIL = "print(json.dumps(dict(cases=cases, fails=fails[:10], nfails=len(fails)), default=float))"


def bounded_replay(seed, nmat, what):
    """Replay = re-run the bounded driver on the real code with the same seed; REPRODUCED iff it fails again."""
    body = BOUNDED.replace("seed, nmat = int(sys.argv[1]), int(sys.argv[2])", f"seed, nmat = {seed}, {nmat}")
    assert _TAIL in body
    tail = (
        f"fails = [f for f in fails if f['what'].startswith({what!r})]\n"
        "print('failing cases:', fails[:3])\n"
        "if fails:\n"
        "    print('REPRODUCED'); sys.exit(1)\n"
    )
    return body.replace(_TAIL, tail)

REPLAY_VOLUME = """
import sys
import numpy as np
from iodata.utils import volume
cell = np.array([[1.0, 0, 0], [0, 0, 1.0], [0, 1.0, 0]])
v = volume(cell)
print("volume of left-handed unit cell:", v, "expected 1.0 (non-negative, independent of handedness)")
if not (v >= 0 and abs(v - 1.0) < 1e-12):
    print("REPRODUCED"); sys.exit(1)
"""


def run(chk):
    chk.functions += [f"{UT}.set_four_index_element", f"{UT}.volume", f"{UT}.strtobool", f"{UT}.check_dm", f"{UT}.derive_naturals"]
    chk.trusted += [
        "z3 (nonlinear real arithmetic for the volume identities)",
        "axiom: np.linalg.norm = sqrt(sum of squares); np.cross, np.linalg.det (3x3) closed forms",
        "axiom: ndarray single-element store changes exactly that element",
        "axiom: dict.get returns the value of the equal key or None; str.lower is a function",
        "assumed external contract scipy.linalg.eigh(A, B) -> (w, V): A V = B V diag(w), V^T B V = I, w ascending (float, LAPACK)",
        "Lean 4.33 + Mathlib kernel for lemmas/NaturalOrbitals.lean",
        "ndarray.min/max: the returned value is attained and bounds every element",
    ]
    chk.assumptions += [A_FP, "set_four_index_element: indices within range(n) (precondition); array of shape (n,n,n,n)"]
    jobs = [("checks.c20", f, {}) for f in ("job_four_index", "job_strtobool", "job_volume", "job_naturals", "job_check_dm", "job_ground_strtobool", "job_lean")]
    res = collect(chk, run_jobs(jobs))
    for r in res:
        if "strtobool_cases" in r:
            chk.notes["strtobool_ground_cases"] = r["strtobool_cases"]
    run_bounded(chk)
    for o in chk.ledger.obligations.values():
        if o.status == "refuted" and "volume" in o.name:
            chk.set_replay(o.name, REPLAY_VOLUME, witness={"cellvecs": [[1, 0, 0], [0, 0, 1], [0, 1, 0]]})
    chk.samples = [o.as_dict() for o in list(chk.ledger.obligations.values())[:6]]
    chk.notes["explanation"] = "C20: five helpers under contract; matrix-algebra consequence of the eigh contract proved in Lean; float side covered only by the bounded stand-in"
