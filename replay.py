#!/venv/bin/python
"""Replay a counterexample file against the real code:  /venv/bin/python /verif/replay.py <replay.json>

Exit 1 + 'REPRODUCED' when the violation shows on the code under $PYVC_REPO (default /repo), exit 0 otherwise."""
import json
import os
import subprocess
import sys

d = json.load(open(sys.argv[1]))
print("property  :", d.get("property"))
print("obligation:", d.get("obligation"))
if not d.get("script"):
    print("no concrete input recorded (no-failing-input-found); verifier output:")
    print(json.dumps(d.get("solver_output"), indent=1)[:4000])
    sys.exit(0)
env = dict(os.environ, PYTHONPATH=os.environ.get("PYVC_REPO", "/repo"))
r = subprocess.run([sys.executable, "-c", d["script"]], env=env, cwd="/")
sys.exit(r.returncode)
