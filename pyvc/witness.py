"""Witness cases: stand-alone, deterministic scripts under /verif/witness/<Cxx>/<name>.py, each exercising the real code on
one concrete input that once violated (or still violates) the property.  A script prints what the statement demands and
what the library did and exits with status 1 when the violation is reproduced, 0 otherwise.  They are bounded cases
(never counted as proved): a reproduced one is a violation of the bounded part under the name `witness.<name>` unless
known_findings.json lists it; a repaired one stays as a regression case."""

from __future__ import annotations

import concurrent.futures
import os
import subprocess

from . import source
from .report import VENV_PY, VERIF


_REPLAY = """import sys
SRC = {src!r}
try:
    exec(compile(SRC, {name!r}, "exec"), {{"__name__": "__main__", "__file__": {name!r}}})
except SystemExit as exc:
    if exc.code == 1:
        print("REPRODUCED")
        sys.exit(1)
    raise
"""


def _run(path):
    # the scripts create scratch files with tempfile: they get a private TMPDIR that is removed afterwards
    import shutil
    import tempfile

    scratch = tempfile.mkdtemp(prefix="witness")
    env = dict(os.environ, PYTHONPATH=source.REPO, PYTHONHASHSEED="0", TMPDIR=scratch)
    try:
        p = subprocess.run([VENV_PY, path], capture_output=True, text=True, env=env, cwd="/", timeout=600)
        return path, p.returncode, (p.stdout + p.stderr)[-1500:]
    except subprocess.TimeoutExpired:
        return path, 124, "timeout after 600 s"
    finally:
        shutil.rmtree(scratch, ignore_errors=True)


def run(chk):
    d = os.path.join(VERIF, "witness", chk.pid)
    if not os.path.isdir(d):
        return
    scripts = sorted(os.path.join(d, f) for f in os.listdir(d) if f.endswith(".py"))
    with concurrent.futures.ThreadPoolExecutor(8) as ex:
        results = list(ex.map(_run, scripts))
    held = 0
    for path, rc, out in results:
        name = os.path.basename(path)[:-3]
        if rc == 0:
            held += 1
        elif rc == 1:
            chk.add_bounded(f"witness.{name}", "one concrete input (see the script's docstring)", 1, [{"script": f"witness/{chk.pid}/{name}.py", "output": out}], replay_script=_REPLAY.format(src=open(path).read(), name=f"witness/{chk.pid}/{name}.py"))
        else:
            chk.fault(f"witness script {name} ended with status {rc}: {out[-600:]}")
    chk.add_bounded("witness.regression-cases-that-hold", f"{len(scripts)} concrete inputs under witness/{chk.pid}/", held, [])
