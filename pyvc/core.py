"""Core of pyvc: path contexts, branching by re-execution, obligations and solver plumbing."""

from __future__ import annotations

import subprocess
import tempfile
import time
import os

import z3

Z3_TIMEOUT_MS = int(os.environ.get("PYVC_Z3_TIMEOUT_MS", "10000"))
FEAS_TIMEOUT_MS = int(os.environ.get("PYVC_FEAS_TIMEOUT_MS", "400"))
CVC5_TIMEOUT_S = int(os.environ.get("PYVC_CVC5_TIMEOUT_S", "20"))
RETRY_FACTOR = int(os.environ.get("PYVC_RETRY_FACTOR", "8"))
_retry_budget = [float(os.environ.get("PYVC_RETRY_BUDGET_S", "240"))]  # seconds of second attempts per process


class OutsideSubset(Exception):
    """The target uses a construct the executor does not model: verdict `undecided`, never `proved`."""


class CheckerFault(Exception):
    """Internal inconsistency of the verifier (exit 3)."""


class PathAbort(Exception):
    """The current path is infeasible (assumption contradicts the path condition)."""


# --------------------------------------------------------------------------------------
# Obligation bookkeeping
# --------------------------------------------------------------------------------------


class Obligation:
    """A named proof obligation; aggregated over all paths that generate it."""

    __slots__ = ("name", "kind", "status", "instances", "model", "detail", "solver_s", "backend", "witness")

    def __init__(self, name, kind):
        self.name = name
        self.kind = kind
        self.status = "discharged"  # discharged | refuted | unknown
        self.instances = 0
        self.model = None
        self.detail = ""
        self.solver_s = 0.0
        self.backend = set()
        self.witness = None

    def as_dict(self):
        return {
            "name": self.name,
            "kind": self.kind,
            "status": self.status,
            "instances": self.instances,
            "backend": sorted(self.backend),
            "solver_s": round(self.solver_s, 4),
            "detail": self.detail[:2000],
        }


class Ledger:
    """All obligations generated while verifying one property."""

    def __init__(self):
        self.obligations: dict[str, Obligation] = {}
        self.paths = 0
        self.covers: dict[str, bool] = {}

    def get(self, name, kind):
        ob = self.obligations.get(name)
        if ob is None:
            ob = self.obligations[name] = Obligation(name, kind)
        return ob

    def record(self, name, kind, status, backend, solver_s, model=None, detail="", witness=None):
        ob = self.get(name, kind)
        ob.instances += 1
        ob.backend.add(backend)
        ob.solver_s += solver_s
        if status == "refuted" and ob.status != "refuted":
            ob.status = "refuted"
            ob.model = model
            ob.detail = detail
            ob.witness = witness
        elif status == "unknown" and ob.status == "discharged":
            ob.status = "unknown"
            ob.detail = detail
        return ob

    def cover(self, name, reached=True):
        self.covers[name] = self.covers.get(name, False) or reached

    def merge(self, other: "Ledger"):
        for ob in other.obligations.values():
            mine = self.get(ob.name, ob.kind)
            mine.instances += ob.instances
            mine.backend |= ob.backend
            mine.solver_s += ob.solver_s
            if ob.status == "refuted" and mine.status != "refuted":
                mine.status, mine.model, mine.detail, mine.witness = "refuted", ob.model, ob.detail, ob.witness
            elif ob.status == "unknown" and mine.status == "discharged":
                mine.status, mine.detail = "unknown", ob.detail
        self.paths += other.paths
        for k, v in other.covers.items():
            self.cover(k, v)


# --------------------------------------------------------------------------------------
# Solver helpers
# --------------------------------------------------------------------------------------


def _cvc5_check(smt2: str) -> str:
    """Run the cvc5 CLI on an SMT-LIB script; returns 'sat' | 'unsat' | 'unknown'."""
    with tempfile.NamedTemporaryFile("w", suffix=".smt2", delete=False) as fh:
        fh.write("(set-logic ALL)\n")
        fh.write(smt2)
        fh.write("\n(check-sat)\n")
        name = fh.name
    try:
        out = subprocess.run(
            ["/usr/bin/cvc5", "--strings-exp", f"--tlimit={CVC5_TIMEOUT_S * 1000}", name],
            capture_output=True,
            text=True,
            timeout=CVC5_TIMEOUT_S + 5,
        )
        first = out.stdout.strip().splitlines()[0] if out.stdout.strip() else "unknown"
        return first if first in ("sat", "unsat") else "unknown"
    except Exception:  # noqa: BLE001
        return "unknown"
    finally:
        os.unlink(name)


def check_valid(hyps, goal, timeout_ms=None):
    """Decide `hyps |= goal`.  Returns (status, backend, seconds, model|None)."""
    t0 = time.time()
    s = z3.Solver()
    s.set("timeout", timeout_ms or Z3_TIMEOUT_MS)
    for h in hyps:
        s.add(h)
    s.add(z3.Not(goal))
    r = s.check()
    if r == z3.unsat:
        return "discharged", "z3", time.time() - t0, None
    if r == z3.sat:
        return "refuted", "z3", time.time() - t0, s.model()
    # unknown: let cvc5 try
    try:
        smt2 = s.to_smt2().replace("(check-sat)", "")
        r2 = _cvc5_check(smt2)
    except Exception:  # noqa: BLE001
        r2 = "unknown"
    if r2 == "unsat":
        return "discharged", "cvc5", time.time() - t0, None
    # a verdict must not flip because the machine is busy: when z3 ran out of (wall-clock) time rather than gave
    # up, ask once more with a budget several times larger (only ever reached by queries that would otherwise be undecided)
    if timeout_ms is None and _retry_budget[0] > 0 and any(w in s.reason_unknown() for w in ("timeout", "canceled")):
        # (the second attempts of one process share a budget: a tree on which many queries are genuinely out of reach
        # must not make the check run for hours)
        t1 = time.time()
        s.set("timeout", int(min(RETRY_FACTOR * Z3_TIMEOUT_MS, _retry_budget[0] * 1000)))
        r = s.check()
        _retry_budget[0] -= time.time() - t1
        if r == z3.unsat:
            return "discharged", "z3 (second attempt, longer budget)", time.time() - t0, None
        if r == z3.sat:
            return "refuted", "z3 (second attempt, longer budget)", time.time() - t0, s.model()
    return "unknown", "z3+cvc5", time.time() - t0, None


# --------------------------------------------------------------------------------------
# Path context
# --------------------------------------------------------------------------------------


def has_quant(t, _cache={}):
    """Does the term contain a quantifier (or a lambda)?"""
    key = t.get_id()
    hit = _cache.get(key)
    r = hit[0] if hit is not None else None  # the cached term is kept alive, so its id cannot be reused
    if r is None:
        r = False
        stack = [t]
        seen = set()
        while stack:
            x = stack.pop()
            if x.get_id() in seen:
                continue
            seen.add(x.get_id())
            if z3.is_quantifier(x):
                r = True
                break
            stack.extend(x.children())
        if len(_cache) > 200000:
            _cache.clear()
        _cache[key] = (r, t)
    return r


class Ctx:
    """Execution context of one path.  Branching is resolved by a decision prefix; new
    alternatives are pushed on the explorer's work list (re-execution based forking)."""

    def __init__(self, explorer, decisions, ledger):
        self.explorer = explorer
        self.decisions = list(decisions)
        self.pos = 0
        self.ledger = ledger
        self.pc = []  # list of z3 BoolRef
        # feasibility is decided on the quantifier-free part of the path condition (fast, an over-approximation of
        # feasibility, hence sound); harnesses that need quantified facts to prune paths set explorer.quant_feas
        self.solver = z3.Solver()
        self.solver.set("timeout", FEAS_TIMEOUT_MS)
        self.qsolver = _SolverPair(self.solver, explorer.quant_feas)
        self.counter = {}
        self.trace = []  # ghost event trace
        self.notes = []  # free-form path notes
        self.target = explorer.target
        self.ghost = {}
        self.lits = {}
        self._keep = []

    # -- naming -------------------------------------------------------------------------
    def fresh(self, base):
        n = self.counter.get(base, 0)
        self.counter[base] = n + 1
        return f"{base}!{n}"

    def fresh_int(self, base="i"):
        return z3.Int(self.fresh(base))

    def fresh_real(self, base="r"):
        return z3.Real(self.fresh(base))

    def fresh_bool(self, base="b"):
        return z3.Bool(self.fresh(base))

    # -- path condition -----------------------------------------------------------------
    def assume(self, cond):
        if isinstance(cond, bool):
            if not cond:
                raise PathAbort()
            return
        cond = z3.simplify(cond)
        if z3.is_true(cond):
            return
        if z3.is_false(cond):
            raise PathAbort()
        self.pc.append(cond)
        self.qsolver.add(cond)

    def feasible(self, cond=None):
        return self.qsolver.feasible(cond)  # unknown counts as feasible (sound: explores more)

    def branch(self, cond) -> bool:
        """Decide a (possibly symbolic) condition on this path."""
        if isinstance(cond, bool):
            return cond
        cond = z3.simplify(cond)
        if z3.is_true(cond):
            return True
        if z3.is_false(cond):
            return False
        # a condition that was already decided on this path (syntactically the same term) keeps its value; this is
        # what keeps repeated evaluations of one quantified condition consistent (they are not in the qf solver)
        known = self.lits.get(cond.get_id())
        if known is not None:
            return known
        if self.pos < len(self.decisions):
            choice = self.decisions[self.pos]
            if self.explorer.cond_log is not None:
                want = self.explorer.cond_log.get((tuple(self.decisions[: self.pos])))
                if want is not None and want[:40] != str(cond)[:40]:
                    raise CheckerFault(f"replay misaligned at {self.pos}: expected branch on {want!r}, got {str(cond)[:200]!r}")
            self.pos += 1
        else:
            if self.explorer.cond_log is not None:
                self.explorer.cond_log[tuple(self.decisions)] = str(cond)[:200]
            can_t = self.feasible(cond)
            can_f = self.feasible(z3.Not(cond))
            if can_t and can_f:
                choice = True
                self.explorer.push(self.decisions + [False])
            elif can_t:
                choice = True
            elif can_f:
                choice = False
            else:
                raise PathAbort()
            self.decisions.append(choice)
            self.pos += 1
        lit = cond if choice else z3.Not(cond)
        self.lits[cond.get_id()] = choice
        self._keep.append(cond)  # keep the AST alive so that its id is not reused
        self.pc.append(lit)
        self.qsolver.add(lit)
        return choice

    def choose(self, n, label="choice") -> int:
        """Non-deterministic choice among n alternatives (all explored)."""
        for k in range(n - 1):
            b = z3.Bool(self.fresh(f"{label}{k}"))
            if self.branch(b):
                return k
        return n - 1

    # -- obligations --------------------------------------------------------------------
    def prove(self, name, goal, kind="post", witness=None, assume_after=True):
        """Check pc |= goal now; record under `name`; continue assuming the goal."""
        full = name if "::" in name else f"{self.target}::{name}"
        if not isinstance(goal, bool) and z3.is_and(goal) and goal.num_args() > 1:
            # conjunctions are proved conjunct by conjunct (smaller queries), under the same obligation name
            worst = "discharged"
            for g in goal.children():
                st = self.prove(name, g, kind=kind, witness=witness, assume_after=assume_after)
                if st == "refuted" or (st == "unknown" and worst == "discharged"):
                    worst = st
            return worst
        if isinstance(goal, bool):
            status, backend, secs, model = ("discharged" if goal else "refuted"), "eval", 0.0, None
            if not goal:
                # the goal is literally False: it holds only if the path is infeasible
                st2 = check_valid(self.pc, z3.BoolVal(False), timeout_ms=4000)[0] if any(has_quant(c) for c in self.pc) else "refuted"
                if not self.feasible() or st2 == "discharged":
                    status = "discharged"
                else:
                    s = z3.Solver()
                    s.set("timeout", 2000)
                    s.add(*[c for c in self.pc if not has_quant(c)])
                    if s.check() == z3.sat:
                        model = s.model()
        else:
            status, backend, secs, model = check_valid(self.pc, goal)
        detail = ""
        wit = None
        if os.environ.get("PYVC_DEBUG_FAIL") and status != "discharged":
            print(f"[prove-fail] {full} -> {status}\n  goal={goal}\n  pc=" + "\n     ".join(str(c)[:300] for c in self.pc) + f"\n  model={model}", flush=True)
        if os.environ.get("PYVC_DEBUG"):
            print(f"[prove] {full} -> {status} ({backend}, {secs:.2f}s) goal={str(goal)[:400]}", flush=True)
        if status == "refuted":
            detail = f"path decisions={self.decisions[: self.pos]}; goal={goal}"
            if witness is not None and model is not None:
                try:
                    wit = witness(model)
                except Exception as exc:  # noqa: BLE001
                    wit = {"witness_error": repr(exc)}
        elif status == "unknown":
            detail = f"solver unknown on path decisions={self.decisions[: self.pos]}"
        self.ledger.record(full, kind, status, backend, secs, model=str(model)[:4000] if model is not None else None, detail=detail, witness=wit)
        if assume_after and status != "refuted" and not isinstance(goal, bool):
            self.pc.append(goal)
            self.qsolver.add(goal)
        return status

    def event(self, *ev):
        self.trace.append(tuple(ev))


class _SolverPair:
    """Quantifier-free solver (always) + full solver (only when the harness asks for quantified pruning)."""

    def __init__(self, qf, use_full):
        self.qf = qf
        self.use_full = use_full
        self.full = None
        self.nquant = 0
        if use_full:
            self.full = z3.Solver()
            self.full.set("timeout", FEAS_TIMEOUT_MS)

    def add(self, f):
        if has_quant(f):
            self.nquant += 1
        else:
            self.qf.add(f)
        if self.full is not None:
            self.full.add(f)

    def push(self):
        self.qf.push()
        if self.full is not None:
            self.full.push()
        self._saved = getattr(self, "_saved", []) + [self.nquant]

    def pop(self):
        self.qf.pop()
        if self.full is not None:
            self.full.pop()
        self.nquant = self._saved.pop()

    def entails(self, cond):
        """Is `cond` implied by the (known part of the) path condition?"""
        if self.qf.check(z3.Not(cond)) == z3.unsat:
            return True
        if self.full is not None and self.nquant:
            return self.full.check(z3.Not(cond)) == z3.unsat
        return False

    def feasible(self, cond=None):
        r = self.qf.check() if cond is None else self.qf.check(cond)
        if r == z3.unknown and (cond is None or not has_quant(cond)):
            # a quantifier-free query must not be decided by a timeout: retry without a limit
            self.qf.set("timeout", 60000)
            r = self.qf.check() if cond is None else self.qf.check(cond)
            self.qf.set("timeout", FEAS_TIMEOUT_MS)
            if os.environ.get("PYVC_DEBUG"):
                print(f"[feasible] retried a quantifier-free query: {r}", flush=True)
        if r == z3.unsat:
            return False
        if self.full is None or self.nquant == 0:
            return True
        r = self.full.check() if cond is None else self.full.check(cond)
        return r != z3.unsat


class Explorer:
    """Enumerates all feasible paths of `run(ctx)` by depth-first re-execution."""

    def __init__(self, target, ledger=None, max_paths=5000, quant_feas=False):
        self.target = target
        self.quant_feas = quant_feas
        self.cond_log = {} if os.environ.get("PYVC_CHECK_REPLAY") else None
        self.ledger = ledger or Ledger()
        self.work = [[]]
        self.max_paths = max_paths
        self.paths = 0
        self.t0 = time.time()

    def push(self, decisions):
        self.work.append(decisions)

    def explore(self, run):
        """run(ctx) is called once per path.  It must do its own post-condition proving."""
        while self.work:
            decisions = self.work.pop()
            ctx = Ctx(self, decisions, self.ledger)
            try:
                run(ctx)
            except PathAbort:
                continue
            self.paths += 1
            self.ledger.paths += 1
            if os.environ.get("PYVC_PROGRESS") and self.paths % 50 == 0:
                print(f"[explore] {self.target}: {self.paths} paths, {len(self.work)} pending, {time.time() - self.t0:.1f}s", flush=True)
            if self.paths > self.max_paths:
                raise OutsideSubset(f"{self.target}: more than {self.max_paths} paths")
        return self.ledger
