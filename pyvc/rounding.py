"""Rounding lemmas behind the `stable@` obligations of C15 (pyvc/fmtspec.stability_condition), machine-checked.

Model (stated in the evidence as the remaining assumption): over the mathematical reals,
  * every floating-point step (float(text), one multiplication, one division) returns x (1 + d) with |d| <= u = 2**-53
    (IEEE 754 binary64, round to nearest, no overflow / underflow);
  * format(x, '.<p>f') prints R(x 10^p) / 10^p and format(x, '.<p>e') prints R(m 10^p) / 10^p x 10^e for the decade
    10^e <= |x| < 10^(e+1), m = |x| / 10^e, where R(t) is *an* integer with |t - R(t)| <= 1/2 (any tie-breaking rule).

Lemmas (exact rational arithmetic, z3; names as they appear in the evidence):
  lemma.round.accumulate      three steps perturb by at most 3.01 u:  |(1+d1)(1+d2)(1+d3) - 1| <= 3.01 u
  lemma.round.fixed[p,k]      v = n 10^-p, |v| < 10^k, x = v (1 + D), |D| <= 3.01 u, 6.02 u 10^k < 10^-p  ==>  R(x 10^p) = n
  lemma.round.sci[p]          mantissa w = n 10^-p in [1, 10), y = w (1 + D), |D| <= 3.01 u, 30.1 u < 0.5 10^-p  ==>
                                y stays below 10, and  y >= 1: R(y 10^p) = n ;  y < 1: R(10 y 10^p) = 10 n  (same decimal)
  lemma.round.sci-scale[p]    the same with an arbitrary positive decade scale E (v = w E): the statement does not
                                depend on the exponent
  lemma.round.bare-fixed      no arithmetic in between, fixed point: print -> nearest double -> print is the identity on the text
                                (needs round-half-even in format() and a correctly rounded float(); uniform grid, no binades)
  (bare scientific fields with p <= 14 use lemma.round.sci[p] with |D| <= u; p = 15 is NOT stable, e.g.
   1.0000000000000001e-11 prints 1.000000000000000e-11, which reads back as a double that prints 9.999999999999999e-12;
   p >= 16 prints 17 significant digits, which identify a double - classical result, trusted)
  ground.margin[...]          the numeric hypothesis (6.02 u 10^k < 10^-p resp. 30.1 u < 0.5 10^-p) in exact rationals, and
                                its agreement with the floating-point evaluation used by stability_condition
A failed margin means the lemma does not apply: stability_condition then reports the field as not stable.
"""

from __future__ import annotations

from fractions import Fraction

import z3

from .core import Ledger, check_valid

U = Fraction(1, 2**53)
C3 = Fraction(301, 100) * U  # 3.01 u


def _q(fr: Fraction):
    return z3.RealVal(f"{fr.numerator}/{fr.denominator}")


def _abs_le(t, b):
    return z3.And(t <= b, -t <= b)


def prove_accumulate(led: Ledger):
    d1, d2, d3 = z3.Reals("d1 d2 d3")
    u = _q(U)
    hyp = [_abs_le(d1, u), _abs_le(d2, u), _abs_le(d3, u)]
    goal = _abs_le((1 + d1) * (1 + d2) * (1 + d3) - 1, _q(C3))
    st, be, secs, _ = check_valid(hyp, goal)
    led.record("pyvc.rounding::lemma.round.accumulate", "lemma", st, be, secs, detail="|(1+d1)(1+d2)(1+d3) - 1| <= 3.01 u for |di| <= u = 2^-53")
    # reachability of the hypotheses (vacuity guard): the hypotheses alone are satisfiable
    s = z3.Solver()
    s.add(*hyp)
    led.cover("pyvc.rounding::accumulate.hypotheses-satisfiable", s.check() == z3.sat)


def margin_fixed(p: int, k: int) -> bool:
    return 2 * C3 * Fraction(10) ** k < Fraction(1, 10**p)


def margin_sci(p: int) -> bool:
    return 10 * C3 < Fraction(1, 2 * 10**p)


def prove_fixed(p: int, k: int, led: Ledger):
    """R(x 10^p) = n for every grid point v = n 10^-p with |v| < 10^k and x = v (1 + D)."""
    name = f"pyvc.rounding::lemma.round.fixed[p={p},k={k}]"
    if not margin_fixed(p, k):
        led.record(name, "lemma", "unknown", "arith", 0.0, detail="margin does not hold: the lemma has no instance here")
        return
    n, r = z3.Ints("n r")
    D, x = z3.Reals("D x")
    S = _q(Fraction(1, 10**p))
    B = _q(Fraction(10) ** k)
    v = z3.ToReal(n) * S
    hyp = [_abs_le(v, B), v < B, -v < B, _abs_le(D, _q(C3)), x == v * (1 + D), _abs_le(x / S - z3.ToReal(r), _q(Fraction(1, 2)))]
    st, be, secs, _ = check_valid(hyp, r == n)
    led.record(name, "lemma", st, be, secs, detail=f"v = n 1e-{p}, |v| < 1e{k}, x = v(1+D), |D| <= 3.01u, |x 1e{p} - r| <= 1/2  ==>  r = n")
    s = z3.Solver()
    s.add(*hyp, n == 7)
    led.cover(f"pyvc.rounding::fixed[p={p},k={k}].hypotheses-satisfiable", s.check() == z3.sat)


def prove_sci(p: int, led: Ledger):
    name = f"pyvc.rounding::lemma.round.sci[p={p}]"
    if not margin_sci(p):
        led.record(name, "lemma", "unknown", "arith", 0.0, detail="margin does not hold: the lemma has no instance here")
        return
    n, r = z3.Ints("n r")
    D, y = z3.Reals("D y")
    S = _q(Fraction(1, 10**p))
    half = _q(Fraction(1, 2))
    w = z3.ToReal(n) * S
    base = [w >= 1, w < 10, _abs_le(D, _q(C3)), y == w * (1 + D)]
    same = z3.Implies(z3.And(y >= 1, _abs_le(y / S - z3.ToReal(r), half)), r == n)
    below = z3.Implies(z3.And(y < 1, _abs_le(10 * y / S - z3.ToReal(r), half)), r == 10 * n)
    goal = z3.And(y < 10, y > _q(Fraction(1, 10)), same, below)
    st, be, secs, _ = check_valid(base, goal)
    led.record(name, "lemma", st, be, secs, detail=f"mantissa w = n 1e-{p} in [1,10), y = w(1+D), |D| <= 3.01u: the printed decimal is w again (same decade, or the decade below when y < 1)")
    s = z3.Solver()
    s.add(*base, y < 1)
    led.cover(f"pyvc.rounding::sci[p={p}].decade-below-reachable", s.check() == z3.sat)
    # scale invariance: v = w E, x = v (1 + D); the mantissa of x in the decade of v is x / E = w (1 + D)
    E, xx = z3.Reals("E xx")
    st, be, secs, _ = check_valid([E > 0, *base, xx == (w * E) * (1 + D)], xx == y * E)
    led.record(f"pyvc.rounding::lemma.round.sci-scale[p={p}]", "lemma", st, be, secs, detail="x = (w E)(1 + D) = (w (1 + D)) E for every decade scale E > 0: the mantissa statement is exponent-independent")


def prove_bare_fixed(led: Ledger):
    """No arithmetic between parsing and printing, fixed-point format (uniform decimal grid, unit = 1 after scaling):
    t0 = x0 10^p is printed as n (round-half-even), x1 = float(text) is a double at least as near to n as the double x0 is
    (float() returns a nearest double), and x1 is printed as r (round-half-even).  Then r = n."""
    n, r, m, k = z3.Ints("n r m k")
    t0, t1, a, b = z3.Reals("t0 t1 a b")
    nr, rr = z3.ToReal(n), z3.ToReal(r)
    half = _q(Fraction(1, 2))
    hyp = [z3.Or(a == t0 - nr, a == nr - t0), a >= t0 - nr, a >= nr - t0, a <= half,  # a = |t0 - n| <= 1/2
           z3.Or(b == t1 - rr, b == rr - t1), b >= t1 - rr, b >= rr - t1, b <= half,  # b = |t1 - r| <= 1/2
           t1 - nr <= a, nr - t1 <= a,  # |t1 - n| <= |t0 - n|
           z3.Implies(a == half, n == 2 * m), z3.Implies(b == half, r == 2 * k)]  # ties go to the even neighbour
    st, be, secs, _ = check_valid(hyp, r == n, timeout_ms=20000)
    led.record("pyvc.rounding::lemma.round.bare-fixed", "lemma", st, be, secs, detail="print (half-even) -> nearest double -> print (half-even) returns the same decimal on a uniform grid")
    s = z3.Solver()
    s.set("timeout", 10000)
    s.add(*hyp, n == 0, t0 == -half, t1 == half, r == 0, m == 0, k == 0)
    led.cover("pyvc.rounding::bare-fixed.tie-case-reachable", s.check() == z3.sat)
    # the tie rule is needed: with an arbitrary tie-breaking rule the statement must be refutable (sanity of the encoding)
    s = z3.Solver()
    s.set("timeout", 10000)
    s.add(*hyp[:-2], r != n)
    led.cover("pyvc.rounding::bare-fixed.refutable-without-half-even", s.check() == z3.sat)


def prove_for_fields(led: Ledger, fixed_pk, sci_p):
    """Prove the lemma instances that the fields of the current tree use; returns nothing (ledger holds the verdicts)."""
    prove_accumulate(led)
    for p, k in sorted(set(fixed_pk)):
        prove_fixed(p, k, led)
    for p in sorted(set(sci_p)):
        prove_sci(p, led)


def ground_margin_agrees(kind: str, p: int, k: int | None, float_verdict: bool, led: Ledger):
    exact = margin_fixed(p, k) if kind == "f" else margin_sci(p)
    led.record(f"pyvc.rounding::ground.margin[{kind},p={p}" + (f",k={k}]" if kind == "f" else "]"), "ground", "discharged" if exact == bool(float_verdict) else "refuted", "exact-rational", 0.0, detail=f"exact rational margin = {exact}, floating-point evaluation in stability_condition = {float_verdict}")
    return exact
