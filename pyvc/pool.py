"""Process pool for independent verification jobs (z3 objects never cross process boundaries)."""

from __future__ import annotations

import importlib
import multiprocessing as mp
import os
import traceback

from .core import Ledger


def _worker(job):
    modname, fname, kwargs = job
    import time

    t0 = time.time()
    try:
        from . import source

        source.ensure_repo_on_path()
        mod = importlib.import_module(modname)
        res = getattr(mod, fname)(**kwargs)
        return ("ok", job, res, dict(source.used_targets), time.time() - t0)
    except Exception:  # noqa: BLE001
        return ("fault", job, traceback.format_exc(), {}, time.time() - t0)


def run_jobs(jobs, procs=None):
    """jobs: list of (module, function, kwargs); each function returns a picklable result (Ledger or dict)."""
    procs = procs or min(16, os.cpu_count() or 4, max(1, len(jobs)))
    if procs <= 1 or len(jobs) <= 1 or os.environ.get("PYVC_SERIAL"):
        return [_worker(j) for j in jobs]
    ctx = mp.get_context("fork")
    # a job that does not come back (e.g. the executor looping on code that was changed under it) must not hang the check:
    # after the deadline its obligations are reported as undecided
    import time

    deadline = time.time() + float(os.environ.get("PYVC_JOB_DEADLINE_S", "2400"))
    with ctx.Pool(procs, maxtasksperchild=8) as pool:
        pending = [(j, pool.apply_async(_worker, (j,))) for j in jobs]
        out = []
        for j, ar in pending:
            try:
                out.append(ar.get(timeout=max(1.0, deadline - time.time())))
            except mp.TimeoutError:
                out.append(("timeout", j, f"no result within {os.environ.get('PYVC_JOB_DEADLINE_S', '2400')} s", {}, 0.0))
        pool.terminate()
        return out


def collect(chk, results):
    """Merge job results into a Check; faults become checker faults."""
    from . import source

    out = []
    for status, job, res, used, secs in results:
        source.used_targets.update(used)
        chk.notes.setdefault("job_seconds", {})[f"{job[1]}{job[2] or ''}"] = round(secs, 1)
        if status == "fault":
            chk.fault(f"job {job[0]}.{job[1]}{job[2]} crashed: {res[-1500:]}")
            continue
        if status == "timeout":
            chk.undecided(f"{job[0]}.{job[1]}{job[2] or ''}::deadline", f"the job did not finish: {res}")
            continue
        if isinstance(res, Ledger):
            chk.merge(res)
        elif isinstance(res, dict):
            if isinstance(res.get("ledger"), Ledger):
                chk.merge(res["ledger"])
            out.append(res)
    return out
