"""Process pool for independent verification jobs (z3 objects never cross process boundaries)."""

from __future__ import annotations

import importlib
import multiprocessing as mp
import os
import traceback

from .core import Ledger


def _worker(job):
    modname, fname, kwargs = job
    import time

    t0 = time.time()
    try:
        from . import source

        source.ensure_repo_on_path()
        mod = importlib.import_module(modname)
        res = getattr(mod, fname)(**kwargs)
        return ("ok", job, res, dict(source.used_targets), time.time() - t0)
    except Exception:  # noqa: BLE001
        return ("fault", job, traceback.format_exc(), {}, time.time() - t0)


def run_jobs(jobs, procs=None):
    """jobs: list of (module, function, kwargs); each function returns a picklable result (Ledger or dict)."""
    procs = procs or min(16, os.cpu_count() or 4, max(1, len(jobs)))
    if procs <= 1 or len(jobs) <= 1 or os.environ.get("PYVC_SERIAL"):
        return [_worker(j) for j in jobs]
    ctx = mp.get_context("fork")
    with ctx.Pool(procs, maxtasksperchild=8) as pool:
        # longest jobs first (callers may pass a 4th tuple element as a weight)
        return pool.map(_worker, jobs, chunksize=1)


def collect(chk, results):
    """Merge job results into a Check; faults become checker faults."""
    from . import source

    out = []
    for status, job, res, used, secs in results:
        source.used_targets.update(used)
        chk.notes.setdefault("job_seconds", {})[f"{job[1]}{job[2] or ''}"] = round(secs, 1)
        if status == "fault":
            chk.fault(f"job {job[0]}.{job[1]}{job[2]} crashed: {res[-1500:]}")
            continue
        if isinstance(res, Ledger):
            chk.merge(res)
        elif isinstance(res, dict):
            if isinstance(res.get("ledger"), Ledger):
                chk.merge(res["ledger"])
            out.append(res)
    return out
