"""Summation lemmas (the solver does no induction): each schema is proved once by explicit induction
(base and step as separate VCs over the defining equations of `asum`); harnesses add *instances*."""

from __future__ import annotations

import z3

from .core import Ledger, check_valid
from .values import SArr, _A, asum, asum_definition

_used = set()


def _lin(coefs, vals):
    t = z3.RealVal(0)
    for c, v in zip(coefs, vals):
        t = t + z3.RealVal(c) * v
    return t


def linear_sum_instance(terms, n):
    """(forall i in [0,n): sum_k c_k a_k[i] == 0)  ==>  sum_k c_k asum(a_k, n) == 0.

    terms: list of (coefficient, SArr or z3 array term)."""
    coefs = tuple(float(c) for c, _ in terms)
    _used.add(coefs)
    arrs = [a.as_z3_array() if isinstance(a, SArr) else a for _, a in terms]
    i = z3.Int("i!lin")
    n = z3.IntVal(n) if isinstance(n, int) else n
    hyp = z3.ForAll([i], z3.Implies(z3.And(i >= 0, i < n), _lin(coefs, [a[i] for a in arrs]) == 0))
    return z3.Implies(z3.And(n >= 0, hyp), _lin(coefs, [asum(a, n) for a in arrs]) == 0)


def prove_linear_schema(coefs, led: Ledger):
    """Induction proof of the schema for the coefficient tuple `coefs`, arbitrary arrays."""
    k = len(coefs)
    arrs = [z3.Const(f"L{j}", _A) for j in range(k)]
    defs = [d for a in arrs for d in asum_definition(a)]
    m, i = z3.Ints("m i")

    def hyp(b):
        return z3.ForAll([i], z3.Implies(z3.And(i >= 0, i < b), _lin(coefs, [a[i] for a in arrs]) == 0))

    def concl(b):
        return _lin(coefs, [asum(a, b) for a in arrs]) == 0

    name = "lemma.sum-linear[" + ",".join(f"{c:g}" for c in coefs) + "]"
    st, be, secs, _ = check_valid(defs, z3.Implies(hyp(z3.IntVal(0)), concl(z3.IntVal(0))))
    led.record(f"pyvc.lemmas::{name}.base", "lemma", st, be, secs)
    step = z3.Implies(z3.And(m >= 0, z3.Implies(hyp(m), concl(m)), hyp(m + 1)), concl(m + 1))
    # instantiate the defining equation at m and the hypothesis at i = m (the solver finds both)
    st, be, secs, _ = check_valid(defs + [asum(a, m + 1) == asum(a, m) + a[m] for a in arrs], z3.Implies(m >= 0, step))
    led.record(f"pyvc.lemmas::{name}.step", "lemma", st, be, secs)


def split_sum_instance(arr, k, n, tail_view=None):
    """0 <= k <= n  ==>  asum(a, n) == asum(a, k) + asum(j -> a[k+j], n-k).

    When `tail_view` (an SArr equal to a[k:]) is given, the instance is stated directly on that view (the link
    between the two spellings of the tail is the point-wise linear instance, added as well)."""
    a = arr.as_z3_array() if isinstance(arr, SArr) else arr
    j = z3.Int("j!split")
    tail = z3.Lambda([j], a[j + k])
    _used.add("split")
    inst = z3.Implies(z3.And(0 <= k, k <= n), asum(a, n) == asum(a, k) + asum(tail, n - k))
    if tail_view is not None:
        return z3.And(inst, linear_sum_instance([(1, tail), (-1, tail_view)], n - k))
    return inst


def prove_split_schema(led: Ledger):
    a = z3.Const("Lsplit", _A)
    k, m, j = z3.Ints("k m j")
    tail = z3.Lambda([j], a[j + k])
    defs = asum_definition(a) + asum_definition(tail)
    name = "lemma.sum-split"
    st, be, secs, _ = check_valid(defs, z3.Implies(k >= 0, asum(a, k + 0) == asum(a, k) + asum(tail, 0)))
    led.record(f"pyvc.lemmas::{name}.base", "lemma", st, be, secs)
    ih = asum(a, k + m) == asum(a, k) + asum(tail, m)
    goal = asum(a, k + (m + 1)) == asum(a, k) + asum(tail, m + 1)
    inst = [asum(a, k + m + 1) == asum(a, k + m) + a[k + m], asum(tail, m + 1) == asum(tail, m) + tail[m]]
    st, be, secs, _ = check_valid(defs + inst, z3.Implies(z3.And(k >= 0, m >= 0, ih), goal))
    led.record(f"pyvc.lemmas::{name}.step", "lemma", st, be, secs)


def prove_used(led: Ledger, coef_tuples=(), split=False):
    for c in coef_tuples:
        prove_linear_schema(tuple(float(x) for x in c), led)
    if split:
        prove_split_schema(led)
    return led
