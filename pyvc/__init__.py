"""pyvc -- a small contract-based deductive verifier for (a subset of) Python.

It re-reads the source of the target functions from /repo on every run, executes their
AST symbolically path by path against sidecar contracts and discharges the resulting
verification conditions with z3 (cvc5 takes the `unknown`s).  See /verif/DESIGN.md.
"""
