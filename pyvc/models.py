"""Trusted axioms of pyvc: models of builtins, numpy, attrs and of operations on symbolic values.

Every entry is part of the trusted base and is differential-tested against CPython / numpy / attrs by
`pyvc.selfcheck` (concrete mode of the same interpreter against the real function)."""

from __future__ import annotations

import builtins
import types

import numpy as np
import z3

from .core import OutsideSubset, PathAbort
from .interp import (
    AbsIter,
    BoundMethod,
    Closure,
    FStr,
    GenObj,
    HostModel,
    Interp,
    PyRaise,
    SuperProxy,
    _MISSING,
    all_concrete,
)
from .values import (
    Label,
    Obj,
    Opaque,
    SArr,
    SBool,
    SDict,
    SInt,
    SList,
    SOpt,
    SReal,
    SSeq,
    SU,
    SymExc,
    U,
    Value,
    _coerce,
    _len_term,
    _num,
    asum,
    binop,
    compare,
    is_sym,
    seq_of,
    to_z3,
    trunc,
    ustr,
    wrap,
)

MODELS = {}
METHOD_MODELS = {}
CLASS_MODELS = {}


def model(fn):
    def deco(f):
        MODELS[fn] = f
        return f

    return deco


# ================================================================================================
# sets of symbolic sequences
# ================================================================================================


class SSet(Value):
    """set(seq) for a symbolic sequence: only len() and ==/!= are supported (trusted axioms:
    len(set(s)) == len(s) iff s has pairwise distinct elements; set equality is mutual inclusion)."""

    def __init__(self, seq: SSeq):
        self.seq = seq

    def distinct_term(self):
        i, j = z3.Ints(f"d!i{id(self)} d!j{id(self)}")
        s = self.seq
        return z3.ForAll([i, j], z3.Implies(z3.And(0 <= i, i < j, j < s.n), z3.Not(to_z3(compare("==", s.at(i), s.at(j))))))


def set_equal(interp, a, b):
    if not (isinstance(a, SSet) and isinstance(b, SSet)):
        raise OutsideSubset("set comparison with a non-symbolic set")
    sa, sb = a.seq, b.seq
    i, j = z3.Ints(f"e!i{id(a)} e!j{id(a)}")
    incl_ab = z3.ForAll([i], z3.Implies(sa.inrange(i), z3.Exists([j], z3.And(sb.inrange(j), to_z3(compare("==", sa.at(i), sb.at(j)))))))
    incl_ba = z3.ForAll([i], z3.Implies(sb.inrange(i), z3.Exists([j], z3.And(sa.inrange(j), to_z3(compare("==", sb.at(i), sa.at(j)))))))
    return wrap(z3.And(incl_ab, incl_ba))


# ================================================================================================
# generic helpers on values
# ================================================================================================


def as_array(interp, v):
    if isinstance(v, SArr):
        return v
    if isinstance(v, (list, tuple)) and all_concrete(v):
        a = np.asarray(v)
        return host_to_sarr(a)
    s = seq_of(v) if isinstance(v, (SSeq, SList, list, tuple)) else None
    if s is not None:
        n = interp.concrete_int(s.length)
        probe = s.at(0) if (n is None or n > 0) else 0.0
        dt = "float" if isinstance(probe, (float, SReal)) else ("int" if isinstance(probe, (int, SInt, bool, SBool)) else "str")
        return SArr.from_seq(s, dt)
    return v


def host_to_sarr(a: np.ndarray):
    dt = "float" if a.dtype.kind == "f" else "int" if a.dtype.kind in "iu" else "bool" if a.dtype.kind == "b" else "str"
    if dt == "str":
        return SArr(a.shape, lambda idx: _table(a, idx, lambda x: ustr(str(x))), "str")
    return SArr(a.shape, lambda idx: _table(a, idx, lambda x: to_z3(x.item())), dt)


def _table(a, idx, conv):
    idx = [z3.simplify(i) for i in idx]
    if all(z3.is_int_value(i) for i in idx):
        return conv(a[tuple(i.as_long() for i in idx)])
    flat = [(ix, conv(a[ix])) for ix in np.ndindex(a.shape)]
    if not flat:
        raise OutsideSubset("index into an empty array")
    r = flat[-1][1]
    for ix, t in reversed(flat[:-1]):
        r = z3.If(z3.And(*[i == k for i, k in zip(idx, ix)]), t, r)
    return r


def concat(interp, a, b, inplace=False):
    if isinstance(a, (FStr, str)) or isinstance(b, (FStr, str)):
        pa = a.parts if isinstance(a, FStr) else [a]
        pb = b.parts if isinstance(b, FStr) else [b]
        return FStr(pa + pb)
    sa, sb = seq_of(a), seq_of(b)
    if sa is None or sb is None:
        raise OutsideSubset("concatenation of non-sequences")
    na = sa.n
    res = SSeq(z3.simplify(sa.n + sb.n), lambda i: _ite_value(i < na, lambda: sa.at(i), lambda: sb.at(i - na)), sa.pytype)
    if inplace and isinstance(a, SList):
        a.seq = res
        return a
    if isinstance(a, (SList, list)):
        return SList(res)
    return res


def _ite_value(cond, fa, fb):
    cond = z3.simplify(cond)
    if z3.is_true(cond):
        return fa()
    if z3.is_false(cond):
        return fb()
    va, vb = fa(), fb()
    if isinstance(va, Label) or isinstance(vb, Label):
        la, lb = Label.of(va), Label.of(vb)
        return Label(z3.If(cond, la.nminus, lb.nminus), z3.If(cond, la.base, lb.base))
    if isinstance(va, (tuple,)) and isinstance(vb, tuple) and len(va) == len(vb):
        return tuple(_ite_value(cond, lambda x=x: x, lambda y=y: y) for x, y in zip(va, vb))
    ta, tb = to_z3(va) if not isinstance(va, bool) else z3.BoolVal(va), to_z3(vb) if not isinstance(vb, bool) else z3.BoolVal(vb)
    if ta.sort() != tb.sort():
        if ta.sort() == z3.IntSort():
            ta = z3.ToReal(ta)
        if tb.sort() == z3.IntSort():
            tb = z3.ToReal(tb)
    return wrap(z3.If(cond, ta, tb))


def seq_equal(interp, a, b):
    """== between sequences; element-wise with a length test (host bool when decidable)."""
    sa, sb = seq_of(a), seq_of(b)
    na, nb = interp.concrete_int(sa.length), interp.concrete_int(sb.length)
    if na is not None and nb is not None:
        if na != nb:
            return False
        conj = []
        for i in range(na):
            x, y = sa.at(i), sb.at(i)
            r = interp.compare(__import__("ast").Eq(), x, y)
            conj.append(to_z3(r) if not isinstance(r, bool) else z3.BoolVal(r))
        return wrap(z3.And(*conj)) if conj else True
    i = z3.Int(f"se!{id(sa)}")
    return wrap(z3.And(sa.n == sb.n, z3.ForAll([i], z3.Implies(sa.inrange(i), to_z3(compare("==", sa.at(i), sb.at(i)))))))


def contains(interp, container, item):
    container = interp.resolve(container)
    item = interp.resolve(item)
    if isinstance(container, SDict):
        return container.has(interp, item)
    if isinstance(container, dict) and is_sym(item):
        keys = list(container.keys())
        return _eq_any(item, keys)
    if isinstance(container, (list, tuple, set, frozenset)) and (is_sym(item) or not all_concrete(container)):
        return _eq_any(item, list(container))
    if isinstance(container, (SSeq, SList)):
        s = seq_of(container)
        i = z3.Int(f"in!{id(s)}")
        return wrap(z3.Exists([i], z3.And(s.inrange(i), to_z3(compare("==", s.at(i), item)))))
    if isinstance(container, Value):
        raise OutsideSubset(f"`in` on {container!r}")
    if isinstance(item, FStr):
        return False
    try:
        return item in container
    except TypeError as exc:
        raise PyRaise(exc) from None


def _eq_any(item, keys):
    disj = []
    for k in keys:
        r = compare("==", item, k) if (is_sym(item) or is_sym(k)) else (item == k)
        if r is True:
            return True
        if r is False:
            continue
        disj.append(to_z3(r))
    return wrap(z3.Or(*disj)) if disj else False


def format_value(interp, val, spec, conversion):
    if isinstance(val, FStr) and spec == "" and conversion in (-1, ord("s")):
        return val  # a string formatted without a spec is itself: nested f-strings flatten
    if spec == "" and conversion == -1:
        return FStr([val])  # plain {value}: the part *is* the value
    return FStr([("fmt", val, spec, conversion)])


# ================================================================================================
# subscripting
# ================================================================================================


def _norm_index(interp, i, n):
    """Python index normalisation on a sequence of length n (z3 term); raises IndexError."""
    ctx = interp.ctx
    if isinstance(i, (SBool, bool)):
        i = _num(i)
    it = to_z3(i)
    if ctx.branch(it < 0):
        it = it + n
    if not ctx.branch(z3.And(it >= 0, it < n)):
        raise PyRaise(IndexError("index out of range"))
    return z3.simplify(it)


def _slice_bounds(interp, sl, n):
    """(start, stop) z3 terms of a step-1 slice over length n (clipped like Python)."""
    if sl.step not in (None, 1):
        raise OutsideSubset("slice step")

    ent = interp.ctx.qsolver.entails

    def ite(c, a, b):
        """If(c, a, b), resolved when the path condition decides c (keeps slice extents readable for the solver)."""
        c = z3.simplify(c)
        if z3.is_true(c) or (not z3.is_false(c) and ent(c)):
            return a
        if z3.is_false(c) or ent(z3.Not(c)):
            return b
        return z3.If(c, a, b)

    def clip(v, default):
        if v is None:
            return default
        t = to_z3(interp.resolve(v))
        t = ite(t < 0, t + n, t)
        return ite(t < 0, z3.IntVal(0), ite(t > n, n, t))

    start = clip(sl.start, z3.IntVal(0))
    stop = clip(sl.stop, n)
    stop = ite(stop < start, start, stop)
    return z3.simplify(start), z3.simplify(stop)


def subscript(interp, obj, idx):
    ctx = interp.ctx
    if isinstance(idx, SOpt):
        idx = interp.resolve(idx)
    if isinstance(obj, SArr):
        return arr_subscript(interp, obj, idx)
    if isinstance(obj, (SSeq, SList)):
        s = seq_of(obj)
        if isinstance(idx, slice):
            a, b = _slice_bounds(interp, idx, s.n)
            res = SSeq(z3.simplify(b - a), lambda i: s.at(i + a), s.pytype)
            return SList(res) if isinstance(obj, SList) else res
        return s.at(_norm_index(interp, idx, s.n))
    if isinstance(obj, SDict):
        if not interp.truth(obj.has(interp, idx)):
            raise PyRaise(KeyError(idx))
        return obj.get(interp, idx)
    if isinstance(obj, dict) and (is_sym(idx) or (isinstance(idx, tuple) and not all_concrete(idx))):
        for k in obj:
            r = _key_eq(idx, k)
            if r is True or (r is not False and ctx.branch(to_z3(r))):
                return obj[k]
        raise PyRaise(KeyError(idx))
    if isinstance(obj, (list, tuple, str)) and is_sym(idx):
        s = seq_of(obj) if not isinstance(obj, str) else None
        if s is None:
            raise OutsideSubset("symbolic index into a str")
        k = _norm_index(interp, idx, s.n)
        kc = interp.concrete_int(k)
        if kc is not None:
            return obj[kc]
        if all(isinstance(x, (int, float, bool, str)) for x in obj):
            return s.at(k)
        # objects: case split
        for j in range(len(obj)):
            if ctx.branch(k == j):
                return obj[j]
        raise PathAbort()
    if isinstance(obj, GenObj):
        raise PyRaise(TypeError("'generator' object is not subscriptable"))
    if isinstance(obj, Value):
        raise OutsideSubset(f"subscript of {obj!r}")
    if obj is None:
        raise PyRaise(TypeError("'NoneType' object is not subscriptable"))
    try:
        return obj[idx]
    except Exception as exc:  # noqa: BLE001
        raise PyRaise(exc) from None


def _key_eq(a, b):
    if isinstance(a, tuple) and isinstance(b, tuple):
        if len(a) != len(b):
            return False
        conj = []
        for x, y in zip(a, b):
            r = _key_eq(x, y)
            if r is False:
                return False
            if r is not True:
                conj.append(to_z3(r))
        return wrap(z3.And(*conj)) if conj else True
    if is_sym(a) or is_sym(b):
        return compare("==", a, b)
    return a == b


def arr_subscript(interp, arr: SArr, idx):
    if not isinstance(idx, tuple):
        idx = (idx,)
    if len([i for i in idx if i is not None]) > arr.ndim:
        raise PyRaise(IndexError("too many indices for array"))
    # element access / views
    maps = []  # per source axis: ("fix", term) | ("slice", start, length); ("new",) for np.newaxis
    new_shape = []
    ax = -1
    for ix in idx:
        if ix is None:
            # np.newaxis: an axis of extent 1 that consumes no source axis
            maps.append(("new",))
            new_shape.append(1)
            continue
        ax += 1
        n = _len_term(arr.shape[ax])
        ix = interp.resolve(ix)
        if isinstance(ix, slice):
            a, b = _slice_bounds(interp, ix, n)
            ln = z3.simplify(b - a)
            maps.append(("slice", a))
            new_shape.append(ln.as_long() if z3.is_int_value(ln) else ln)
        elif isinstance(ix, (SArr, SSeq, SList, list, np.ndarray)):
            if len(idx) != 1 or arr.ndim < 1:
                raise OutsideSubset("fancy indexing in more than one position")
            sel = seq_of(ix) if not isinstance(ix, np.ndarray) else seq_of(list(ix))
            base = arr.copy()
            # fancy indexing: a copy; indices assumed in range is an obligation of the caller (IndexError otherwise)
            q = z3.Int(f"fi!{id(sel)}")
            ok = z3.ForAll([q], z3.Implies(sel.inrange(q), z3.And(to_z3(sel.at(q)) >= -n, to_z3(sel.at(q)) < n)))
            if not interp.ctx.branch(ok):
                raise PyRaise(IndexError("index out of bounds"))

            def pick(j):
                t = to_z3(sel.at(j))
                return z3.If(t < 0, t + n, t)

            return SArr((sel.length, *arr.shape[1:]), lambda ii: base.get((pick(ii[0]), *ii[1:])), arr.dtype)
        else:
            maps.append(("fix", _norm_index(interp, ix, n)))
    for ax2 in range(ax + 1, arr.ndim):
        maps.append(("slice", z3.IntVal(0)))
        new_shape.append(arr.shape[ax2])

    def to_base(vidx, maps=maps):
        out = []
        it = iter(vidx)
        for m in maps:
            if m[0] == "fix":
                out.append(m[1])
            elif m[0] == "new":
                next(it)
            else:
                out.append(z3.simplify(next(it) + m[1]))
        return tuple(out)

    if not new_shape:
        return wrap(arr.get(to_base(())))
    return SArr(new_shape, None, arr.dtype, base=arr, to_base=to_base)


def arr_write_all(interp, arr: SArr, new: SArr):
    """arr[...] = new (same shape), through views."""
    if not arr.root().writeable and arr.base is None and not arr.writeable:
        raise PyRaise(ValueError("assignment destination is read-only"))
    snap = new._freeze() if isinstance(new, SArr) else None
    root0 = arr.root()
    if getattr(root0, "prov", "fresh") != "fresh" and not getattr(interp.cfg, "modifies_args", False):
        # frame obligation: the target has no licence to write into an array of its caller
        interp.ctx.ledger.record(f"{interp.ctx.target}::frame.no-write-to-caller-arrays", "frame", "refuted", "provenance", 0.0, detail=f"in-place write into caller's array {root0.tag}")
    if arr.base is None:
        if not arr.writeable:
            raise PyRaise(ValueError("assignment destination is read-only"))
        arr._elem = snap
        return
    # view: write into the root through the composed mapping (only rectangular step-1 views exist)
    root = arr.root()
    if not root.writeable:
        raise PyRaise(ValueError("assignment destination is read-only"))
    chain = []
    a = arr
    while a.base is not None:
        chain.append(a)
        a = a.base
    old = root._elem
    # describe the image of the view in root coordinates by probing with symbolic offsets
    probe = [z3.Int(f"pv!{k}!{arr.ident}") for k in range(arr.ndim)]
    img = tuple(probe)
    for v in chain:
        img = v.to_base(img)
    # img[j] is either a fixed term or probe[k] + offset
    axes = []
    for t in img:
        found = None
        for k, p in enumerate(probe):
            off = z3.simplify(t - p)
            if not _mentions(off, probe):
                found = (k, off)
                break
        axes.append(found if found is not None else ("fix", t))
    shape = arr.shape

    def newelem(ridx, old=old, axes=axes, shape=shape, snap=snap):
        conds = []
        vidx = [None] * len(shape)
        for r, ax in zip(ridx, axes):
            if ax[0] == "fix":
                conds.append(r == ax[1])
            else:
                k, off = ax
                vi = z3.simplify(r - off)
                vidx[k] = vi
                conds.append(z3.And(vi >= 0, vi < _len_term(shape[k])))
        return z3.If(z3.And(*conds), snap(tuple(vidx)), old(ridx))

    root._elem = newelem


def _mentions(t, vars_):
    names = {v.decl().name() for v in vars_}
    stack = [t]
    while stack:
        x = stack.pop()
        if z3.is_const(x) and x.decl().kind() == z3.Z3_OP_UNINTERPRETED and x.decl().name() in names:
            return True
        stack.extend(x.children())
    return False


def store_subscript(interp, obj, idx, v):
    v = interp.resolve(v)
    if isinstance(obj, SArr):
        view = arr_subscript(interp, obj, idx)
        if not isinstance(view, SArr):
            # single element store
            if not isinstance(idx, tuple):
                idx = (idx,)
            fixed = tuple(_norm_index(interp, interp.resolve(i), _len_term(obj.shape[ax])) for ax, i in enumerate(idx))
            tmp = SArr((), None, obj.dtype, base=obj, to_base=lambda _i, fixed=fixed: fixed)
            val = _coerce(_num(v), obj.dtype)
            arr_write_all(interp, tmp, SArr((), lambda _i: val, obj.dtype))
            return
        src = as_array(interp, v)
        if isinstance(src, SArr):
            view2, src = interp._same_shape(view, src)
            if view2 is not view:
                raise PyRaise(ValueError("could not broadcast input array into the destination shape"))
            if src.dtype != obj.dtype:
                src = src.astype(obj.dtype)
            arr_write_all(interp, view, src)
        else:
            val = _coerce(_num(src), obj.dtype)
            arr_write_all(interp, view, SArr(view.shape, lambda _i: val, obj.dtype))
        return
    if isinstance(obj, SList):
        s = obj.seq
        k = _norm_index(interp, idx, s.n)
        old = s
        obj.seq = SSeq(s.length, lambda i: _ite_value(i == k, lambda: v, lambda: old.at(i)), list)
        return
    if isinstance(obj, Value):
        raise OutsideSubset(f"store into {obj!r}")
    from .interp import check_global_write

    check_global_write(interp, obj, "subscript store")
    if isinstance(obj, np.ndarray) and is_sym(v):
        raise OutsideSubset("symbolic value stored into a concrete numpy array")
    if isinstance(obj, dict) and not all_concrete(idx):
        # symbolic key into a concrete dict: keep it as an association the executor cannot look up again
        raise OutsideSubset("store under a symbolic key into a concrete dict")
    try:
        obj[idx] = v
    except Exception as exc:  # noqa: BLE001
        raise PyRaise(exc) from None


# ================================================================================================
# comprehensions over symbolic sequences
# ================================================================================================


class _SubExplorer:
    def __init__(self, parent_ctx):
        self.work = [[]]
        self.target = parent_ctx.target
        self.quant_feas = parent_ctx.explorer.quant_feas
        self.cond_log = None

    def push(self, decisions):
        self.work.append(decisions)


def explore_generic(interp, thunk, assumption):
    """Run thunk() on every path that is feasible from the current state plus `assumption`, without forking the
    caller's path.  Returns [(path condition relative to the caller, 'value' | 'raise', result)]."""
    from .core import Ctx

    parent = interp.ctx
    sub = _SubExplorer(parent)
    results = []
    counters = dict(parent.counter)
    n = 0
    while sub.work:
        dec = sub.work.pop()
        child = Ctx(sub, dec, parent.ledger)
        child.counter = dict(parent.counter)
        child.ghost = parent.ghost
        child.trace = parent.trace
        for c in parent.pc:
            child.pc.append(c)
            child.qsolver.add(c)
        child.lits = dict(parent.lits)
        base = len(child.pc)
        child.assume(assumption)
        interp.ctx = child
        try:
            v = thunk()
            kind = "value"
        except PyRaise as pr:
            v, kind = pr.exc, "raise"
        except PathAbort:
            continue
        finally:
            interp.ctx = parent
            for k, c in child.counter.items():
                counters[k] = max(counters.get(k, 0), c)
        n += 1
        if n > 200:
            raise OutsideSubset("more than 200 paths in a generic comprehension element")
        results.append((z3.And(*child.pc[base + 1 :]) if len(child.pc) > base + 1 else z3.BoolVal(True), kind, v))
    parent.counter.update(counters)
    return results


def symbolic_map_paths(interp: Interp, node, gen, seq: SSeq, frame, kind):
    """General form of symbolic_map: the element expression may branch on the generic element."""
    ctx = interp.ctx
    j = ctx.fresh_int("cj")

    def thunk():
        interp.assign(gen.target, seq.at(j), frame)
        return interp.eval(node.elt, frame)

    results = explore_generic(interp, thunk, seq.inrange(j))
    i = z3.Int(f"cp!{j}")

    def at(t, k):
        return z3.substitute(t, (j, k))

    # an exception in any iteration escapes the comprehension (first such iteration in order; we only keep the class)
    for cond, rk, v in results:
        if rk == "raise":
            some = z3.Exists([i], z3.And(seq.inrange(i), at(cond, i)))
            if ctx.branch(some):
                raise PyRaise(v)
            ctx.assume(z3.ForAll([i], z3.Implies(seq.inrange(i), z3.Not(at(cond, i)))))
    vals = [(c, v) for c, rk, v in results if rk == "value"]
    if not vals:
        ctx.assume(seq.n == 0)
        return [] if kind == "list" else SSeq(0, lambda k: 0, list)
    ctx.assume(z3.ForAll([i], z3.Implies(seq.inrange(i), z3.Or(*[at(c, i) for c, _ in vals]))))

    def elem(k, vals=vals):
        r = None
        for c, v in reversed(vals):
            vk = _subst_value(v, j, k)
            r = vk if r is None else _ite_value(at(c, k), lambda vk=vk: vk, lambda r=r: r)
        return r

    res = SSeq(seq.length, elem, list)
    return SList(res) if kind == "list" else res


def symbolic_map(interp: Interp, node, gen, seq: SSeq, frame, kind):
    """[elt for target in seq] with len(seq) symbolic: the element expression is evaluated once for a
    generic index j; exceptions in the element are turned into a universally quantified side condition."""
    if gen.ifs:
        raise OutsideSubset("filtered comprehension over a symbolic sequence")
    try:
        return _symbolic_map_straight(interp, node, gen, seq, frame, kind)
    except OutsideSubset as exc:
        if "data-dependent branch" not in str(exc):
            raise
    return symbolic_map_paths(interp, node, gen, seq, frame, kind)


def _symbolic_map_straight(interp: Interp, node, gen, seq: SSeq, frame, kind):
    ctx = interp.ctx
    j = ctx.fresh_int("cj")
    # evaluate under the assumption 0 <= j < n, in a *sub-context* so that no branching leaks out
    saved_pc_len = len(ctx.pc)
    ctx.qsolver.push()
    ctx.qsolver.add(seq.inrange(j))
    ctx.pc.append(seq.inrange(j))
    guard = _NoBranch(ctx)
    try:
        with guard:
            interp.assign(gen.target, seq.at(j), frame)
            val = interp.eval(node.elt, frame)
        added = list(ctx.pc[saved_pc_len + 1 :])
    finally:
        del ctx.pc[saved_pc_len:]
        ctx.qsolver.pop()
    # side conditions (e.g. index found, in range) must hold for all j, else the comprehension raises
    side_terms = []
    for cond, exc in guard.side:
        i = z3.Int(f"cq!{j}")
        allok = z3.ForAll([i], z3.Implies(seq.inrange(i), z3.substitute(cond, (j, i))))
        if not ctx.branch(allok):
            raise PyRaise(exc)
        side_terms.append(cond)
    # facts established for the generic index (axioms of callees, decided side conditions) hold for every index
    facts = [a for a in added if not any(a.eq(c) for c in side_terms)]
    if facts:
        i = z3.Int(f"cf!{j}")
        ctx.assume(z3.ForAll([i], z3.Implies(seq.inrange(i), z3.substitute(z3.And(*facts), (j, i)))))

    def elem(i, val=val, j=j):
        return _subst_value(val, j, i)

    res = SSeq(seq.length, elem, list)
    return SList(res) if kind == "list" else res


class _NoBranch:
    """While active, Ctx.branch may not fork: conditions that are not decided by the path condition are
    collected as side conditions (with the exception they guard)."""

    def __init__(self, ctx):
        self.ctx = ctx
        self.side = []

    def __enter__(self):
        self.orig = self.ctx.branch
        ctx = self.ctx

        def branch(cond, _self=self):
            if isinstance(cond, bool):
                return cond
            c = z3.simplify(cond)
            if z3.is_true(c):
                return True
            if z3.is_false(c):
                return False
            if ctx.qsolver.entails(c):
                return True
            if ctx.qsolver.entails(z3.Not(c)):
                return False
            pend = getattr(ctx, "_pending_side", None)
            if pend is not None:
                want, exc = pend
                ctx._pending_side = None
                _self.side.append((c if want else z3.Not(c), exc))
                return want
            raise OutsideSubset("data-dependent branch inside a comprehension over a symbolic sequence")

        ctx.branch = branch
        return self

    def __exit__(self, *a):
        del self.ctx.branch
        return False


def side_condition(interp, cond, exc):
    """Require `cond` (else `exc` is raised).  Inside a generic comprehension body this becomes a quantified
    side condition; elsewhere it is an ordinary branch."""
    ctx = interp.ctx
    if "branch" in ctx.__dict__:  # inside _NoBranch
        ctx._pending_side = (True, exc)
        try:
            ok = ctx.branch(cond)
        finally:
            ctx._pending_side = None
    else:
        ok = ctx.branch(cond)
    if not ok:
        raise PyRaise(exc)


def _subst_value(val, j, i):
    if isinstance(val, (SBool, SInt, SReal)):
        return wrap(z3.substitute(val.t, (j, i)))
    if isinstance(val, SU):
        return SU(z3.substitute(val.t, (j, i)), val.pytype)
    if isinstance(val, Label):
        return Label(z3.substitute(val.nminus, (j, i)), z3.substitute(val.base, (j, i)))
    if isinstance(val, tuple):
        return tuple(_subst_value(v, j, i) for v in val)
    if isinstance(val, Value):
        raise OutsideSubset(f"comprehension element {val!r}")
    return val


# ================================================================================================
# attribute access on symbolic values
# ================================================================================================


def value_getattr(interp, obj, name):
    if isinstance(obj, SArr):
        return arr_getattr(interp, obj, name)
    if isinstance(obj, (SSeq, SList)):
        return BoundMethod(_SeqMethod(name), obj)
    if isinstance(obj, Label):
        m = getattr(obj, "m_" + name, None)
        if m is None:
            raise OutsideSubset(f"str method {name} on a label")
        return BoundMethod(_ValueMethod(m), obj)
    if isinstance(obj, Opaque):
        if name in obj.attrs:
            v = obj.attrs[name]
            if isinstance(v, SOpt):
                v = obj.attrs[name] = interp.resolve(v)
            return v
        sub = Opaque(f"{obj.tag}.{name}")
        obj.attrs[name] = sub
        return sub
    if isinstance(obj, SDict):
        return BoundMethod(_DictMethod(name), obj)
    if isinstance(obj, Closure):
        if name in obj.attrs:
            return obj.attrs[name]
        if name == "__name__":
            return obj.__name__
        raise PyRaise(AttributeError(name))
    from .values import SymExcClass

    if isinstance(obj, SymExcClass):
        if name in ("__name__", "__qualname__"):
            return SU(z3.Const(f"{obj.name}.__name__", U), str)
    if isinstance(obj, SymExc):
        if name == "args":
            return (Opaque(f"{obj.cls.name}.args"),)
    if isinstance(obj, SU):
        return BoundMethod(_SUMethod(name), obj)
    if isinstance(obj, GenObj):
        return BoundMethod(_GenMethod(name), obj)
    if isinstance(obj, SReal) or isinstance(obj, SInt):
        if name == "real":
            return obj
    if isinstance(obj, FStr):
        return BoundMethod(_FStrMethod(name), obj)
    hook = getattr(obj, "getattr_model", None)
    if hook is not None:
        return hook(interp, name)
    raise OutsideSubset(f"attribute {name} of {obj!r}")


def value_setattr(interp, obj, name, v):
    if isinstance(obj, Closure):
        obj.attrs[name] = v
        return
    if isinstance(obj, _Flags):
        if name == "writeable":
            obj.arr.writeable = bool(v)
            return
    if isinstance(obj, Opaque):
        obj.attrs[name] = v
        interp.ctx.event("setattr", obj.tag, name)
        return
    hook = getattr(obj, "setattr_model", None)
    if hook is not None:
        return hook(interp, name, v)
    raise OutsideSubset(f"attribute store {name} on {obj!r}")


class _ValueMethod(Value):
    def __init__(self, m):
        self.m = m


class _SeqMethod(Value):
    def __init__(self, name):
        self.name = name


class _DictMethod(Value):
    def __init__(self, name):
        self.name = name


class _SUMethod(Value):
    def __init__(self, name):
        self.name = name


class _GenMethod(Value):
    def __init__(self, name):
        self.name = name


class _FStrMethod(Value):
    def __init__(self, name):
        self.name = name


class _ArrMethod(Value):
    def __init__(self, name):
        self.name = name


class _Flags(Value):
    def __init__(self, arr):
        self.arr = arr


_orig_call = Interp._call


def _call_with_value_methods(self, fn, args, kwargs):
    if isinstance(fn, BoundMethod):
        f = fn.func
        if isinstance(f, _ValueMethod):
            return f.m(self.ctx, *args, **kwargs)
        if isinstance(f, _SeqMethod):
            return seq_method(self, fn.self_obj, f.name, args, kwargs)
        if isinstance(f, _ArrMethod):
            return arr_method(self, fn.self_obj, f.name, args, kwargs)
        if isinstance(f, _DictMethod):
            return sdict_method(self, fn.self_obj, f.name, args, kwargs)
        if isinstance(f, _SUMethod):
            return su_method(self, fn.self_obj, f.name, args, kwargs)
        if isinstance(f, _GenMethod):
            return gen_method(self, fn.self_obj, f.name, args, kwargs)
        if isinstance(f, _FStrMethod):
            raise OutsideSubset(f"str method {f.name} on a formatted string")
        if isinstance(f, HostModel):
            return f.f(self, fn.self_obj, args, kwargs)
    return _orig_call(self, fn, args, kwargs)


Interp._call = _call_with_value_methods


def gen_method(interp, g, name, args, kwargs):
    if name == "close":
        return None
    raise OutsideSubset(f"generator method {name}")


def su_method(interp, s: SU, name, args, kwargs):
    if name in ("lower", "upper", "strip", "lstrip", "rstrip", "title", "capitalize") and s.pytype is str and not args:
        f = z3.Function(f"str.{name}", U, U)  # a pure function of the string
        return SU(f(s.t), str)
    if name in ("isdigit", "isalpha", "isspace", "isnumeric", "isupper", "islower", "isalnum") and s.pytype is str and not args:
        f = z3.Function(f"str.{name}", U, z3.BoolSort())
        return wrap(f(s.t))
    if name in ("startswith", "endswith") and s.pytype is str and len(args) == 1 and isinstance(args[0], (str, tuple)):
        f = z3.Function(f"str.{name}", U, U, z3.BoolSort())
        opts = args[0] if isinstance(args[0], tuple) else (args[0],)
        return wrap(z3.Or(*[f(s.t, ustr(o)) for o in opts]))
    raise OutsideSubset(f"method {name} on opaque value")


def sdict_method(interp, d: SDict, name, args, kwargs):
    if name == "get":
        key = args[0]
        default = args[1] if len(args) > 1 else None
        if interp.truth(d.has(interp, key)):
            return d.get(interp, key)
        return default
    raise OutsideSubset(f"dict method {name} on symbolic dict")


# ---- list / tuple methods on symbolic sequences ------------------------------------------------
_index_fns = {}


def seq_method(interp, obj, name, args, kwargs):
    ctx = interp.ctx
    s = seq_of(obj)
    if name == "index":
        x = args[0]
        # axiom of list.index: least position holding an equal element; ValueError when there is none
        key = (s.tag, "index")
        sort = to_z3(x).sort() if not isinstance(x, Label) else None
        if isinstance(x, Label):
            f = z3.Function(f"index<{s.tag}>", z3.IntSort(), U, z3.IntSort())
            r = f(x.nminus, x.base)
        else:
            f = z3.Function(f"index<{s.tag}>", sort, z3.IntSort())
            r = f(to_z3(x))
        i = z3.Int(f"ix!{s.tag}")
        exists = z3.Exists([i], z3.And(s.inrange(i), to_z3(compare("==", s.at(i), x))))
        side_condition(interp, exists, ValueError("x is not in list"))
        ax = z3.And(s.inrange(r), to_z3(compare("==", s.at(r), x)), z3.ForAll([i], z3.Implies(z3.And(i >= 0, i < r), z3.Not(to_z3(compare("==", s.at(i), x))))))
        ctx.ghost.setdefault("axioms", []).append(ax)
        ctx.pc.append(ax)
        ctx.qsolver.add(ax)
        return wrap(r)
    if name in ("append", "extend") and isinstance(obj, SList):
        if name == "append":
            v = args[0]
            old = obj.seq
            n = old.n
            obj.seq = SSeq(z3.simplify(n + 1), lambda i: _ite_value(i < n, lambda: old.at(i), lambda: v), list)
            return None
        other = interp.resolve(args[0])
        if isinstance(other, GenObj):
            other = other.expand()
        concat(interp, obj, other, inplace=True)
        return None
    if name == "pop" and isinstance(obj, SList) and not args:
        if not ctx.branch(s.n > 0):
            raise PyRaise(IndexError("pop from empty list"))
        last = s.at(z3.simplify(s.n - 1))
        old = s
        obj.seq = SSeq(z3.simplify(s.n - 1), lambda i: old.at(i), list)
        return last
    if name == "copy":
        return SList(s)
    if name == "count":
        raise OutsideSubset("list.count on a symbolic list")
    raise OutsideSubset(f"sequence method {name}")


# ---- ndarray attributes / methods ---------------------------------------------------------------


def arr_getattr(interp, a: SArr, name):
    if name == "shape":
        return tuple(wrap(_len_term(s)) if not isinstance(s, int) else s for s in a.shape)
    if name == "ndim":
        return a.ndim
    if name == "size":
        return wrap(a.size_term())
    if name == "T":
        if a.ndim == 1:
            return a
        if a.ndim == 2:
            return SArr((a.shape[1], a.shape[0]), None, a.dtype, base=a, to_base=lambda idx: (idx[1], idx[0]))
        raise OutsideSubset("transpose of rank > 2")
    if name == "flags":
        return _Flags(a)
    if name == "dtype":
        return {"float": np.dtype(float), "int": np.dtype(int), "bool": np.dtype(bool), "str": np.dtype("U1"), "obj": np.dtype(object)}[a.dtype]
    return BoundMethod(_ArrMethod(name), a)


def arr_method(interp, a: SArr, name, args, kwargs):
    ctx = interp.ctx
    if name == "sum":
        if args or kwargs:
            raise OutsideSubset("sum with axis")
        if a.ndim != 1:
            raise OutsideSubset("sum of rank > 1")
        t = a.sum_term()
        if a.dtype == "int":
            return SInt(z3.ToInt(t))  # integer arrays have integer sums (asum is defined over reals)
        return SReal(t)
    if name == "all":
        return wrap(a.all_term())
    if name == "any":
        return wrap(a.any_term())
    if name == "astype":
        dt = _dtype_name(args[0] if args else kwargs["dtype"])
        return a.astype(dt)
    if name == "copy":
        return a.copy()
    if name == "reshape":
        shape = args[0] if len(args) == 1 and isinstance(args[0], tuple) else tuple(args)
        if a.ndim == 1 and shape == (-1, 1):
            return SArr((a.shape[0], 1), None, a.dtype, base=a, to_base=lambda idx: (idx[0],))
        if a.ndim == 2 and shape == (-1,) and isinstance(a.shape[1], int) and a.shape[1] == 1:
            return SArr((a.shape[0],), None, a.dtype, base=a, to_base=lambda idx: (idx[0], z3.IntVal(0)))
        raise OutsideSubset(f"reshape{shape}")
    if name == "tolist":
        if a.ndim == 1:
            return SList(seq_of(a.copy()))
    if name in ("min", "max"):
        if a.ndim != 1:
            raise OutsideSubset("min/max of rank > 1")
        r = ctx.fresh_real(f"{a.tag}.{name}") if a.dtype == "float" else ctx.fresh_int(f"{a.tag}.{name}")
        i = z3.Int(f"mm!{a.ident}")
        w = ctx.fresh_int(f"{a.tag}.arg{name}")
        if not ctx.branch(a.n0() > 0):
            raise PyRaise(ValueError("zero-size array to reduction operation"))
        bound = (lambda x: x >= r) if name == "min" else (lambda x: x <= r)
        ctx.assume(z3.And(w >= 0, w < a.n0(), a.get((w,)) == r, z3.ForAll([i], z3.Implies(z3.And(i >= 0, i < a.n0()), bound(a.get((i,)))))))
        return wrap(r)
    if name == "__len__":
        return wrap(a.n0())
    raise OutsideSubset(f"ndarray method {name}")


def _dtype_name(dt):
    if dt in (float, np.float64, "float", "f8") or dt == np.dtype(float):
        return "float"
    if dt in (int, np.int64, "int") or dt == np.dtype(int):
        return "int"
    if dt in (bool, np.bool_) or dt == np.dtype(bool):
        return "bool"
    if dt is str or (isinstance(dt, np.dtype) and dt.kind == "U"):
        return "str"
    raise OutsideSubset(f"dtype {dt}")


# ================================================================================================
# attrs model
# ================================================================================================


def attrs_construct(interp, cls, args, kwargs):
    import attrs

    fields = attrs.fields(cls)
    init_fields = [f for f in fields if f.init]
    kwargs = dict(kwargs)
    if "**" in kwargs:
        raise OutsideSubset("attrs constructor with symbolic **kwargs")
    obj = Obj(cls)
    obj.initialising = True
    values = {}
    pos = [f for f in init_fields if not f.kw_only]
    if len(args) > len(pos):
        raise PyRaise(TypeError(f"{cls.__name__}.__init__() takes {len(pos) + 1} positional arguments but {len(args) + 1} were given"))
    for f, a in zip(pos, args):
        values[f.name] = a
    for f in init_fields:
        alias = f.alias
        if alias in kwargs:
            if f.name in values:
                raise PyRaise(TypeError(f"got multiple values for argument '{alias}'"))
            values[f.name] = kwargs.pop(alias)
    if kwargs:
        raise PyRaise(TypeError(f"{cls.__name__}.__init__() got an unexpected keyword argument '{next(iter(kwargs))}'"))
    for f in fields:
        if f.name not in values:
            if f.default is attrs.NOTHING:
                raise PyRaise(TypeError(f"{cls.__name__}.__init__() missing required argument: '{f.alias}'"))
            if isinstance(f.default, attrs.Factory):
                values[f.name] = interp.call(f.default.factory, [obj] if f.default.takes_self else [])
            else:
                values[f.name] = f.default
    # attrs: each field is converted and stored in order; validators run afterwards, then post-init
    for f in fields:
        v = interp.resolve(values[f.name])
        if f.converter is not None:
            v = interp.call(f.converter, [v])
        obj.fields[f.name] = v
    for f in fields:
        if f.validator is not None:
            run_validator(interp, f.validator, obj, f, obj.fields[f.name])
    obj.initialising = False
    post = interp._class_lookup(cls, "__attrs_post_init__")
    if post is not _MISSING:
        interp._call_function(post, [obj], {}, defining_class=cls)
    return obj


def run_validator(interp, validator, obj, attribute, value):
    import attrs

    tname = type(validator).__name__
    if tname == "_OptionalValidator":
        value = interp.resolve(value)
        if value is None:
            return
        return run_validator(interp, validator.validator, obj, attribute, value)
    if tname == "_AndValidator":
        for v in validator._validators:
            run_validator(interp, v, obj, attribute, value)
        return
    if tname == "_InValidator":
        r = contains(interp, validator.options, value)
        if not interp.truth(r):
            raise PyRaise(ValueError(f"'{attribute.name}' must be in {validator.options!r}"))
        return
    if isinstance(validator, (types.FunctionType, Closure)):
        interp.call(validator, [obj, attribute, value])
        return
    raise OutsideSubset(f"attrs validator {tname}")


def obj_setattr(interp, obj: Obj, name, v):
    import attrs

    cls = obj.cls
    attr = interp._class_lookup(cls, name)
    if isinstance(attr, property):
        if attr.fset is None:
            raise PyRaise(AttributeError(f"property '{name}' has no setter"))
        defining = next(c for c in cls.__mro__ if name in c.__dict__)
        interp._call_function(attr.fset, [obj, v], {}, defining_class=defining)
        return
    if attrs.has(cls):
        fmap = {f.name: f for f in attrs.fields(cls)}
        f = fmap.get(name)
        if f is None:
            raise PyRaise(AttributeError(f"'{cls.__name__}' object has no attribute '{name}'"))
        v = interp.resolve(v)
        # attrs.define: on_setattr = [convert, validate]; the store happens after both
        if f.converter is not None:
            v = interp.call(f.converter, [v])
        if f.validator is not None:
            run_validator(interp, f.validator, obj, f, v)
        obj.fields[name] = v
        interp.ctx.event("store", obj.tag, name)
        return
    obj.fields[name] = v


def attrs_evolve(interp, args, kwargs):
    import attrs

    inst = interp.resolve(args[0])
    if not isinstance(inst, Obj):
        if all_concrete(kwargs):
            return interp.native(attrs.evolve, args, kwargs)
        raise OutsideSubset("attrs.evolve of a host object with symbolic changes")
    changes = dict(kwargs)
    for f in attrs.fields(inst.cls):
        if not f.init:
            continue
        if f.alias not in changes:
            changes[f.alias] = inst.fields[f.name]
    return attrs_construct(interp, inst.cls, [], changes)


def super_getattr(interp, sp: SuperProxy, name):
    obj = sp.obj
    mro = list(obj.cls.__mro__)
    start = mro.index(sp.after) + 1 if sp.after in mro else 1
    for c in mro[start:]:
        if name in c.__dict__:
            attr = c.__dict__[name]
            if isinstance(attr, types.FunctionType):
                return BoundMethod(attr, obj, c)
            return object_builtin_method(interp, obj, name, attr)
    raise PyRaise(AttributeError(name))


def object_builtin_method(interp, obj: Obj, name, attr):
    """Methods inherited from object / BaseException for interpreted instances."""

    def init(interp_, self_obj, args, kwargs):
        self_obj.fields["args"] = tuple(args)
        return None

    def str_(interp_, self_obj, args, kwargs):
        a = self_obj.fields.get("args", ())
        if len(a) == 0:
            return ""
        if len(a) == 1:
            return a[0] if isinstance(a[0], (str, FStr)) else FStr([a[0]])
        return FStr([a])

    if name == "__init__":
        return BoundMethod(HostModel(init), obj)
    if name in ("__str__", "__repr__"):
        return BoundMethod(HostModel(str_), obj)
    raise OutsideSubset(f"builtin method {name} on interpreted object")


# ================================================================================================
# builtins
# ================================================================================================


@model(builtins.len)
def _len(interp, args, kwargs):
    v = interp.resolve(args[0])
    if isinstance(v, (SSeq, SList)):
        s = seq_of(v)
        return s.length if isinstance(s.length, int) else wrap(s.n)
    if isinstance(v, SArr):
        if v.ndim == 0:
            raise PyRaise(TypeError("len() of unsized object"))
        return v.shape[0] if isinstance(v.shape[0], int) else wrap(v.n0())
    if isinstance(v, SSet):
        s = v.seq
        n = interp.ctx.fresh_int("card")
        # trusted axiom: 0 <= |set(s)| <= len(s), equality iff pairwise distinct; > 0 iff s non-empty
        interp.ctx.assume(z3.And(n >= 0, n <= s.n, (n == s.n) == v.distinct_term(), (n == 0) == (s.n == 0)))
        return wrap(n)
    if isinstance(v, GenObj):
        raise PyRaise(TypeError("object of type 'generator' has no len()"))
    if isinstance(v, Value):
        raise OutsideSubset(f"len of {v!r}")
    if v is None:
        raise PyRaise(TypeError("object of type 'NoneType' has no len()"))
    return interp.native(len, [v], {})


@model(builtins.isinstance)
def _isinstance(interp, args, kwargs):
    v, t = interp.resolve(args[0]), args[1]
    ts = t if isinstance(t, tuple) else (t,)
    return any(_isinst(v, c) for c in ts)


def _isinst(v, c):
    import numbers

    if isinstance(v, Obj):
        return issubclass(v.cls, c)
    if isinstance(v, SArr):
        return c is np.ndarray or c is object
    if isinstance(v, SBool):
        return c in (bool, int, object, numbers.Integral, numbers.Number)
    if isinstance(v, SInt):
        return c in (int, object, numbers.Integral, numbers.Number, np.integer)
    if isinstance(v, SReal):
        return c in (float, object, numbers.Number, numbers.Real)
    if isinstance(v, (Label, FStr)):
        return c in (str, object)
    if isinstance(v, SU):
        return c is object or (isinstance(v.pytype, type) and issubclass(v.pytype, c))
    if isinstance(v, (SList,)):
        return c in (list, object)
    if isinstance(v, SSeq):
        return c in (v.pytype, object)
    if isinstance(v, SDict):
        return c in (dict, object)
    if isinstance(v, Opaque):
        if c is object:
            return True
        if isinstance(v.pytype, type) and v.pytype is not object:
            return issubclass(v.pytype, c)
        raise OutsideSubset(f"isinstance of opaque value {v!r} against {c}")
    if isinstance(v, (Closure, BoundMethod)):
        return c in (types.FunctionType, object)
    if isinstance(v, Value):
        raise OutsideSubset(f"isinstance of {v!r}")
    return isinstance(v, c)


@model(builtins.getattr)
def _getattr(interp, args, kwargs):
    obj, name = args[0], args[1]
    if not isinstance(name, str):
        raise OutsideSubset("getattr with a symbolic name")
    if len(args) > 2:
        try:
            return interp.load_attr(obj, name)
        except PyRaise as pr:
            if isinstance(pr.exc, AttributeError):
                return args[2]
            raise
    return interp.load_attr(obj, name)


@model(builtins.hasattr)
def _hasattr(interp, args, kwargs):
    obj, name = interp.resolve(args[0]), args[1]
    if isinstance(obj, Opaque):
        h = obj.attrs.get(("has", name))
        if h is None:
            raise OutsideSubset(f"hasattr on opaque {obj!r}.{name} not specified by the harness")
        return h
    try:
        interp.load_attr(obj, name)
    except PyRaise as pr:
        if isinstance(pr.exc, AttributeError):
            return False
        raise
    return True


@model(builtins.setattr)
def _setattr(interp, args, kwargs):
    interp.store_attr(args[0], args[1], args[2])


@model(builtins.abs)
def _abs(interp, args, kwargs):
    v = interp.resolve(args[0])
    if isinstance(v, (SInt, SReal)):
        return abs(v)
    if isinstance(v, SArr):
        return v.map1(lambda t: z3.If(t >= 0, t, -t))
    if v is None:
        raise PyRaise(TypeError("bad operand type for abs(): 'NoneType'"))
    return interp.native(abs, [v], {})


@model(builtins.int)
def _int(interp, args, kwargs):
    if not args:
        return 0
    v = interp.resolve(args[0])
    if isinstance(v, SReal):
        return wrap(trunc(v.t))
    if isinstance(v, (SInt,)):
        return v
    if isinstance(v, SBool):
        return wrap(_num(v))
    if v is None:
        raise PyRaise(TypeError("int() argument must be a string, a bytes-like object or a real number, not 'NoneType'"))
    if isinstance(v, Value):
        raise OutsideSubset(f"int({v!r})")
    return interp.native(int, args, kwargs)


@model(builtins.float)
def _float(interp, args, kwargs):
    v = interp.resolve(args[0])
    if isinstance(v, SReal):
        return v
    if isinstance(v, (SInt, SBool)):
        return SReal(z3.ToReal(_num(v)))
    if v is None:
        raise PyRaise(TypeError("float() argument must be a string or a real number, not 'NoneType'"))
    if isinstance(v, Value):
        raise OutsideSubset(f"float({v!r})")
    return interp.native(float, args, kwargs)


@model(builtins.round)
def _round(interp, args, kwargs):
    v = interp.resolve(args[0])
    if len(args) > 1:
        if is_sym(v):
            raise OutsideSubset("round with ndigits on a symbolic value")
        return interp.native(round, args, kwargs)
    if isinstance(v, SReal):
        return wrap(round_half_even(v.t))
    if isinstance(v, SInt):
        return v
    if v is None:
        raise PyRaise(TypeError("type NoneType doesn't define __round__ method"))
    return interp.native(round, args, kwargs)


def round_half_even(t):
    """Python round(): to nearest, ties to even."""
    fl = z3.ToInt(t)
    frac = t - z3.ToReal(fl)
    return z3.If(frac < 0.5, fl, z3.If(frac > 0.5, fl + 1, z3.If(fl % 2 == 0, fl, fl + 1)))


@model(builtins.bool)
def _bool(interp, args, kwargs):
    if not args:
        return False
    return interp.truth(args[0])


@model(builtins.type)
def _type(interp, args, kwargs):
    if len(args) == 1:
        v = interp.resolve(args[0])
        if isinstance(v, SymExc):
            return v.cls
        if isinstance(v, Obj):
            return v.cls
        if isinstance(v, Value):
            raise OutsideSubset(f"type({v!r})")
        return type(v)
    return interp.native(type, args, kwargs)


@model(builtins.set)
def _set(interp, args, kwargs):
    if not args:
        return set()
    v = interp.resolve(args[0])
    if isinstance(v, (SSeq, SList)):
        n = interp.concrete_int(seq_of(v).length)
        if n is None:
            return SSet(seq_of(v))
        items = [seq_of(v).at(i) for i in range(n)]
        if all_concrete(items):
            return set(items)
        return SSet(seq_of(v))
    if isinstance(v, GenObj):
        v = v.expand()
    return interp.native(set, [v], {})


@model(builtins.list)
def _list(interp, args, kwargs):
    if not args:
        return []
    v = interp.resolve(args[0])
    if isinstance(v, (SSeq, SList, SArr)):
        return SList(SSeq(seq_of(v).length, seq_of(v).elem, list))
    if isinstance(v, GenObj):
        return list(v.expand())
    return interp.native(list, [v], {})


@model(builtins.tuple)
def _tuple(interp, args, kwargs):
    if not args:
        return ()
    v = interp.resolve(args[0])
    if isinstance(v, (SSeq, SList, SArr)):
        n = interp.concrete_int(seq_of(v).length)
        if n is not None:
            return tuple(seq_of(v).at(i) for i in range(n))
        return SSeq(seq_of(v).length, seq_of(v).elem, tuple)
    if isinstance(v, GenObj):
        return tuple(v.expand())
    return interp.native(tuple, [v], {})


@model(builtins.zip)
def _zip(interp, args, kwargs):
    args = [interp.resolve(a) for a in args]
    if all(not isinstance(a, Value) for a in args):
        return list(zip(*[list(a) for a in args]))
    seqs = []
    for a in args:
        if isinstance(a, GenObj):
            a = a.expand()
        s = seq_of(a)
        if s is None:
            raise OutsideSubset(f"zip over {a!r}")
        seqs.append(s)
    n = seqs[0].n
    for s in seqs[1:]:
        n = z3.If(s.n < n, s.n, n)
    n = z3.simplify(n)
    cn = interp.concrete_int(n)
    return SSeq(cn if cn is not None else n, lambda i: tuple(s.at(i) for s in seqs), list)


@model(builtins.enumerate)
def _enumerate(interp, args, kwargs):
    v = interp.resolve(args[0])
    start = args[1] if len(args) > 1 else kwargs.get("start", 0)
    if not isinstance(v, Value):
        return list(enumerate(list(v), start))
    s = seq_of(v)
    return SSeq(s.length, lambda i: (wrap(i + start) if not z3.is_int_value(z3.simplify(i)) else z3.simplify(i).as_long() + start, s.at(i)), list)


@model(builtins.range)
def _range(interp, args, kwargs):
    args = [interp.resolve(a) for a in args]
    if all_concrete(args):
        return interp.native(range, args, {})
    if len(args) == 1:
        lo, hi = 0, args[0]
    elif len(args) == 2:
        lo, hi = args
    else:
        raise OutsideSubset("symbolic range with step")
    lo_t, hi_t = to_z3(lo), to_z3(hi)
    n = z3.simplify(z3.If(hi_t > lo_t, hi_t - lo_t, z3.IntVal(0)))
    return SSeq(n, lambda i: wrap(i + lo_t), list)


@model(builtins.sum)
def _sum(interp, args, kwargs):
    v = interp.resolve(args[0])
    if isinstance(v, GenObj):
        v = v.expand()
    if isinstance(v, SArr):
        return arr_method(interp, v, "sum", [], {})
    if isinstance(v, (SSeq, SList)):
        n = interp.concrete_int(seq_of(v).length)
        if n is None:
            arr = SArr.from_seq(seq_of(v), "float")
            return SReal(arr.sum_term())
        v = [seq_of(v).at(i) for i in range(n)]
    acc = args[1] if len(args) > 1 else 0
    for x in v:
        acc = interp.binop("+", acc, x)
    return acc


@model(builtins.any)
def _any(interp, args, kwargs):
    v = interp.resolve(args[0])
    if isinstance(v, GenObj):
        v = v.expand()
    if isinstance(v, (SSeq, SList)):
        s = seq_of(v)
        n = interp.concrete_int(s.length)
        if n is None:
            i = z3.Int(f"any!{id(s)}")
            return wrap(z3.Exists([i], z3.And(s.inrange(i), _truth_term(s.at(i)))))
        v = [s.at(i) for i in range(n)]
    for x in v:
        if interp.truth(x):
            return True
    return False


@model(builtins.all)
def _all(interp, args, kwargs):
    v = interp.resolve(args[0])
    if isinstance(v, GenObj):
        v = v.expand()
    if isinstance(v, (SSeq, SList)):
        s = seq_of(v)
        n = interp.concrete_int(s.length)
        if n is None:
            i = z3.Int(f"all!{id(s)}")
            return wrap(z3.ForAll([i], z3.Implies(s.inrange(i), _truth_term(s.at(i)))))
        v = [s.at(i) for i in range(n)]
    for x in v:
        if not interp.truth(x):
            return False
    return True


def _truth_term(v):
    if isinstance(v, bool):
        return z3.BoolVal(v)
    if isinstance(v, SBool):
        return v.t
    if isinstance(v, (SInt, SReal)):
        return v.t != 0
    if isinstance(v, (int, float)):
        return z3.BoolVal(bool(v))
    raise OutsideSubset(f"truth term of {v!r}")


@model(builtins.str)
def _str(interp, args, kwargs):
    if not args:
        return ""
    v = interp.resolve(args[0])
    if isinstance(v, Obj):
        m = interp.load_attr(v, "__str__")
        return interp.call(m, [])
    if isinstance(v, (FStr, Label)):
        return v
    if isinstance(v, SU) and v.pytype is str:
        return v
    if isinstance(v, Value):
        return FStr([v])
    return interp.native(str, [v], {})


@model(builtins.repr)
def _repr(interp, args, kwargs):
    v = interp.resolve(args[0])
    if isinstance(v, Value):
        return FStr([("repr", v)])
    return repr(v)


@model(builtins.next)
def _next(interp, args, kwargs):
    it = interp.resolve(args[0])
    if isinstance(it, GenObj):
        items = it.expand()
        if it.pos < len(items):
            it.pos += 1
            return items[it.pos - 1]
        if len(args) > 1:
            return args[1]
        raise PyRaise(StopIteration())
    if isinstance(it, Obj):
        return interp.call(interp.load_attr(it, "__next__"), [])
    if isinstance(it, AbsIter):
        k = it.__dict__.setdefault("count", 0)
        if interp.ctx.branch(z3.Bool(interp.ctx.fresh(f"{it.tag}.exhausted"))):
            it.next(interp, z3.IntVal(k), True)
            if len(args) > 1:
                return args[1]
            raise PyRaise(StopIteration())
        it.count = k + 1
        return it.next(interp, z3.IntVal(k))
    hook = getattr(it, "next_model", None)
    if hook is not None:
        return hook(interp, args[1:] if len(args) > 1 else ())
    if isinstance(it, Value):
        raise OutsideSubset(f"next({it!r})")
    return interp.native(next, args, kwargs)


@model(builtins.iter)
def _iter(interp, args, kwargs):
    v = interp.resolve(args[0])
    if isinstance(v, (GenObj, AbsIter)):
        return v
    if isinstance(v, Obj):
        return interp.call(interp.load_attr(v, "__iter__"), [])
    hook = getattr(v, "iter_model", None)
    if hook is not None:
        return hook(interp)
    if isinstance(v, Value):
        raise OutsideSubset(f"iter({v!r})")
    return interp.native(iter, [v], {})


@model(builtins.print)
def _print(interp, args, kwargs):
    f = kwargs.get("file")
    interp.ctx.event("print", getattr(f, "tag", None), tuple(args))
    return None


@model(builtins.min)
def _min(interp, args, kwargs):
    if all_concrete(args):
        return interp.native(min, args, kwargs)
    if len(args) == 2:
        a, b = _num(args[0]), _num(args[1])
        return wrap(z3.If(a <= b, a, b))
    raise OutsideSubset("min of symbolic collection")


@model(builtins.max)
def _max(interp, args, kwargs):
    if all_concrete(args):
        return interp.native(max, args, kwargs)
    if len(args) == 2:
        a, b = _num(args[0]), _num(args[1])
        return wrap(z3.If(a >= b, a, b))
    raise OutsideSubset("max of symbolic collection")


@model(builtins.sorted)
def _sorted(interp, args, kwargs):
    v = interp.resolve(args[0])
    if isinstance(v, GenObj):
        v = v.expand()
    if all_concrete(v) and all_concrete(kwargs):
        return interp.native(sorted, [v], kwargs)
    raise OutsideSubset("sorted of symbolic collection")


# ================================================================================================
# numpy
# ================================================================================================


def _np_asarray(interp, args, kwargs, copy=False):
    v = interp.resolve(args[0])
    dt = kwargs.get("dtype", args[1] if len(args) > 1 else None)
    if isinstance(v, np.ndarray) or (not isinstance(v, Value) and all_concrete(v)):
        return interp.native(np.array if copy else np.asarray, [v], {"dtype": dt} if dt is not None else {})
    if isinstance(v, SArr):
        want = _dtype_name(dt) if dt is not None else v.dtype
        if want == v.dtype:
            return v.copy() if copy else v
        return v.astype(want)
    if isinstance(v, (SSeq, SList, list, tuple)):
        a = as_array(interp, v)
        if dt is not None and isinstance(a, SArr) and a.dtype != _dtype_name(dt):
            a = a.astype(_dtype_name(dt))
        return a
    if isinstance(v, (SInt, SReal, SBool)):
        want = _dtype_name(dt) if dt is not None else ("float" if isinstance(v, SReal) else "int")
        t = _coerce(_num(v), want)
        return SArr((), lambda idx: t, want)
    if v is None:
        return np.asarray(None)
    raise OutsideSubset(f"np.asarray({v!r})")


MODELS[np.asarray] = _np_asarray
MODELS[np.array] = lambda interp, args, kwargs: _np_asarray(interp, args, kwargs, copy=True)


@model(np.concatenate)
def _np_concatenate(interp, args, kwargs):
    parts = [interp.resolve(p) for p in interp.iterate_concrete(args[0])]
    axis = kwargs.get("axis", args[1] if len(args) > 1 else 0)
    if all(isinstance(p, np.ndarray) for p in parts):
        return interp.native(np.concatenate, [parts], {"axis": axis})
    parts = [as_array(interp, p) if not isinstance(p, np.ndarray) else host_to_sarr(p) for p in parts]
    if len(parts) != 2:
        raise OutsideSubset("concatenate of != 2 symbolic arrays")
    a, b = parts
    if a.ndim != b.ndim:
        raise PyRaise(ValueError("all the input array dimensions must match"))
    if axis >= a.ndim:
        raise PyRaise(ValueError("axis out of bounds"))
    for ax in range(a.ndim):
        if ax != axis:
            ta, tb = _len_term(a.shape[ax]), _len_term(b.shape[ax])
            if not interp.ctx.branch(ta == tb):
                raise PyRaise(ValueError("all the input array dimensions except for the concatenation axis must match"))
    na = _len_term(a.shape[axis])
    ln = z3.simplify(na + _len_term(b.shape[axis]))
    shape = list(a.shape)
    shape[axis] = ln.as_long() if z3.is_int_value(ln) else ln
    fa, fb = a._freeze(), b._freeze()
    dtype = "float" if "float" in (a.dtype, b.dtype) else a.dtype

    def elem(idx):
        k = idx[axis]
        shifted = tuple(z3.simplify(i - na) if ax == axis else i for ax, i in enumerate(idx))
        return z3.If(k < na, _coerce(fa(idx), dtype), _coerce(fb(shifted), dtype))

    return SArr(shape, elem, dtype)


@model(np.clip)
def _np_clip(interp, args, kwargs):
    a, lo, hi = interp.resolve(args[0]), args[1], args[2]
    if isinstance(a, SArr):
        tl = None if lo is None else _num(lo)
        th = None if hi is None else _num(hi)
        if a.dtype == "float":
            tl = None if tl is None else _coerce(tl, "float")
            th = None if th is None else _coerce(th, "float")

        def f(t):
            if th is not None:
                t = z3.If(t > th, th, t)
            if tl is not None:
                t = z3.If(t < tl, tl, t)
            return t

        return a.map1(f)
    return interp.native(np.clip, args, kwargs)


@model(np.zeros_like)
def _np_zeros_like(interp, args, kwargs):
    a = interp.resolve(args[0])
    if isinstance(a, SArr):
        zero = _coerce(z3.IntVal(0), a.dtype)
        return SArr(a.shape, lambda idx: zero, a.dtype)
    return interp.native(np.zeros_like, args, kwargs)


# ================================================================================================
# attrs / warnings / misc library models
# ================================================================================================
import attrs as _attrs  # noqa: E402
import warnings as _warnings  # noqa: E402

MODELS[_attrs.evolve] = attrs_evolve


@model(_warnings.warn)
def _warn(interp, args, kwargs):
    msg = args[0]
    cat = args[1] if len(args) > 1 else kwargs.get("category")
    if isinstance(msg, Obj):
        cat = msg.cls
    elif isinstance(msg, Warning):
        cat = type(msg)
    interp.ctx.event("warn", cat, msg)
    return None


# ================================================================================================
# dict methods with symbolic keys on concrete dicts
# ================================================================================================


def _dict_get(interp, d, args, kwargs):
    key = interp.resolve(args[0])
    default = args[1] if len(args) > 1 else None
    for k in d:
        r = _key_eq(key, k)
        if r is True or (r is not False and interp.ctx.branch(to_z3(r))):
            return d[k]
    return default


METHOD_MODELS[(dict, "get")] = _dict_get


def _str_format(interp, template, args, kwargs):
    """template.format(*args, **kwargs) with symbolic arguments: the same parts an f-string with the same replacement
    fields produces (literal text, plain values, ("fmt", value, spec, conversion) for fields with a spec)."""
    import string

    parts, auto = [], 0
    for literal, field, spec, conv in string.Formatter().parse(template):
        if literal:
            parts.append(literal)
        if field is None:
            continue
        if "{" in (spec or ""):
            raise OutsideSubset("str.format with a nested replacement field in the format spec")
        head = field.split(".")[0].split("[")[0]
        if head != field:
            raise OutsideSubset("str.format with attribute / item access in a replacement field")
        if field == "":
            val, auto = args[auto], auto + 1
        elif field.isdigit():
            val = args[int(field)]
        else:
            if field not in kwargs:
                raise PyRaise(KeyError(field))
            val = kwargs[field]
        val = interp.resolve(val)
        conversion = ord(conv) if conv else -1
        if not is_sym(val) and all_concrete(val):
            v = repr(val) if conv == "r" else str(val) if conv == "s" else val
            try:
                parts.append(format(v, spec or ""))
            except Exception as exc:  # noqa: BLE001
                raise PyRaise(exc) from None
        else:
            p = format_value(interp, val, spec or "", conversion)
            parts.extend(p.parts if isinstance(p, FStr) else [p])
    if all(isinstance(p, str) for p in parts):
        return "".join(parts)
    return FStr(parts)


METHOD_MODELS[(str, "format")] = _str_format

# slice(a, b[, c]) with symbolic bounds: the same object an index expression `x[a:b:c]` evaluates to
CLASS_MODELS[slice] = lambda interp, args, kwargs: slice(*[interp.resolve(a) for a in args])


# ================================================================================================
# small linear algebra (closed forms; trusted axioms)
# ================================================================================================


def _vec3(interp, a):
    a = interp.resolve(a)
    if isinstance(a, SArr) and a.ndim == 1 and interp.concrete_int(a.shape[0]) == 3:
        return [a.get((z3.IntVal(k),)) for k in range(3)]
    raise OutsideSubset("3-vector expected")


def _sqrt_of(interp, sq, tag):
    """r >= 0 with r*r == sq (sq >= 0)."""
    r = interp.ctx.fresh_real(tag)
    interp.ctx.assume(z3.And(r >= 0, r * r == sq))
    return SReal(r)


@model(np.linalg.norm)
def _np_norm(interp, args, kwargs):
    a = interp.resolve(args[0])
    if len(args) > 1 or kwargs:
        raise OutsideSubset("norm with ord/axis")
    if isinstance(a, SArr):
        dims = [interp.concrete_int(s) for s in a.shape]
        if any(d is None for d in dims) or a.ndim > 2:
            raise OutsideSubset("norm of an array of symbolic shape")
        import itertools as _it

        sq = z3.RealVal(0)
        for idx in _it.product(*[range(d) for d in dims]):
            t = _coerce(a.get(tuple(z3.IntVal(i) for i in idx)), "float")
            sq = sq + t * t
        return _sqrt_of(interp, sq, "norm")
    return interp.native(np.linalg.norm, args, kwargs)


@model(np.cross)
def _np_cross(interp, args, kwargs):
    if all_concrete(args):
        return interp.native(np.cross, args, kwargs)
    a, b = _vec3(interp, as_array(interp, args[0])), _vec3(interp, as_array(interp, args[1]))
    c = [a[1] * b[2] - a[2] * b[1], a[2] * b[0] - a[0] * b[2], a[0] * b[1] - a[1] * b[0]]
    return SArr((3,), lambda idx: _table_terms(c, idx[0]), "float")


def _table_terms(ts, i):
    i = z3.simplify(i)
    if z3.is_int_value(i):
        return ts[i.as_long()]
    r = ts[-1]
    for k in range(len(ts) - 2, -1, -1):
        r = z3.If(i == k, ts[k], r)
    return r


@model(np.linalg.det)
def _np_det(interp, args, kwargs):
    a = interp.resolve(args[0])
    if isinstance(a, SArr):
        if a.ndim != 2 or interp.concrete_int(a.shape[0]) != 3 or interp.concrete_int(a.shape[1]) != 3:
            raise OutsideSubset("det of a non 3x3 symbolic matrix")
        m = [[_coerce(a.get((z3.IntVal(i), z3.IntVal(j))), "float") for j in range(3)] for i in range(3)]
        d = m[0][0] * (m[1][1] * m[2][2] - m[1][2] * m[2][1]) - m[0][1] * (m[1][0] * m[2][2] - m[1][2] * m[2][0]) + m[0][2] * (m[1][0] * m[2][1] - m[1][1] * m[2][0])
        return SReal(d)
    return interp.native(np.linalg.det, args, kwargs)


# ---- opaque matrices (for contracts stated over matrix algebra) ---------------------------------
MatSort = z3.DeclareSort("Mat")
mat_dot = z3.Function("dot", MatSort, MatSort, MatSort)
mat_T = z3.Function("T", MatSort, MatSort)
eigh_vals = z3.Function("eigh.w", MatSort, MatSort, MatSort)
eigh_vecs = z3.Function("eigh.V", MatSort, MatSort, MatSort)
mat_cols = z3.Function("cols", MatSort, z3.IntSort(), MatSort)  # M[:, :k]
mat_zeros_like = z3.Function("zeros_like", MatSort, MatSort)


class SMat(Value):
    """A matrix known only as a term of matrix algebra; shape is (rows, cols) of z3 ints."""

    def __init__(self, t, shape):
        self.t = t
        self.shape = shape

    def __repr__(self):
        return f"SMat({self.t})"

    def getattr_model(self, interp, name):
        if name == "T":
            return SMat(mat_T(self.t), (self.shape[1], self.shape[0]) if len(self.shape) == 2 else self.shape)
        if name == "shape":
            return tuple(wrap(s) if z3.is_expr(s) else s for s in self.shape)
        if name in ("min", "max", "sum"):
            raise OutsideSubset(f"{name} of an opaque matrix")
        raise OutsideSubset(f"attribute {name} of an opaque matrix")


def _mat_dot(interp, args, kwargs):
    a, b = interp.resolve(args[0]), interp.resolve(args[1])
    if isinstance(a, SMat) and isinstance(b, SMat):
        return SMat(mat_dot(a.t, b.t), (a.shape[0], b.shape[-1]))
    if all_concrete(args):
        return interp.native(np.dot, args, kwargs)
    raise OutsideSubset("np.dot of non-opaque symbolic operands")


MODELS[np.dot] = _mat_dot

_prev_zeros_like = MODELS[np.zeros_like]


def _zeros_like2(interp, args, kwargs):
    a = interp.resolve(args[0])
    if isinstance(a, SMat):
        return SMat(mat_zeros_like(a.t), a.shape)
    return _prev_zeros_like(interp, args, kwargs)


MODELS[np.zeros_like] = _zeros_like2

_prev_subscript = subscript


def subscript(interp, obj, idx):  # noqa: F811
    if isinstance(obj, SMat):
        # only M[:, :k] is modelled
        if isinstance(idx, tuple) and len(idx) == 2 and idx[0] == slice(None, None, None) and isinstance(idx[1], slice) and idx[1].start is None and idx[1].step is None:
            k = to_z3(interp.resolve(idx[1].stop))
            return SMat(mat_cols(obj.t, k), (obj.shape[0], k))
        raise OutsideSubset("subscript of an opaque matrix")
    return _prev_subscript(interp, obj, idx)


# ---- more numpy models (C03) ----------------------------------------------------------------------
@model(np.zeros)
def _np_zeros(interp, args, kwargs):
    shape = args[0]
    if all_concrete(args) and all_concrete(kwargs):
        return interp.native(np.zeros, args, kwargs)
    if not isinstance(shape, tuple):
        shape = (shape,)
    dt = kwargs.get("dtype", args[1] if len(args) > 1 else float)
    dtn = _dtype_name(dt)
    zero = _coerce(z3.IntVal(0), dtn)
    dims = []
    for s in shape:
        s = interp.resolve(s)
        t = to_z3(s)
        c = interp.concrete_int(t)
        dims.append(c if c is not None else t)
    return SArr(tuple(dims), lambda idx: zero, dtn)


@model(np.sqrt)
def _np_sqrt(interp, args, kwargs):
    v = interp.resolve(args[0])
    if isinstance(v, (SInt, SReal)):
        t = _coerce(_num(v), "float")
        if not interp.ctx.branch(t >= 0):
            raise OutsideSubset("sqrt of a negative symbolic number")
        return _sqrt_of(interp, t, "sqrt")
    return interp.native(np.sqrt, args, kwargs)


@model(np.isfinite)
def _np_isfinite(interp, args, kwargs):
    v = interp.resolve(args[0])
    if isinstance(v, (SReal, SInt)):
        # A-FP: symbolic floats are mathematical reals, hence finite (NaN / inf are outside the model; bounded drivers
        # cover them where a property depends on them)
        return True
    if all_concrete(args):
        return interp.native(np.isfinite, args, kwargs)
    raise OutsideSubset("np.isfinite of a symbolic array")


@model(np.sum)
def _np_sum(interp, args, kwargs):
    v = interp.resolve(args[0])
    if isinstance(v, SArr) and len(args) == 1 and not kwargs:
        return arr_method(interp, v, "sum", [], {})
    if all_concrete(args):
        return interp.native(np.sum, args, kwargs)
    raise OutsideSubset("np.sum with axis / of a non-array symbolic value")


@model(np.round)
def _np_round(interp, args, kwargs):
    v = interp.resolve(args[0])
    if isinstance(v, SReal) and len(args) == 1 and not kwargs:
        return SReal(z3.ToReal(round_half_even(v.t)))
    if isinstance(v, SInt):
        return v
    return interp.native(np.round, args, kwargs)
