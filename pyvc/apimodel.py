"""Models shared by the API-flow checks (C07, C08, C13, C17, C18, C19): havoc'ed callees that may raise any
Exception, files as ghost event sources, warnings.catch_warnings, abstract iterators."""

from __future__ import annotations

import builtins
import warnings

import z3

from .core import OutsideSubset, PathAbort
from .interp import AbsIter, BoundMethod, Config, HostModel, LoopSpec, PyRaise, _MISSING
from .values import Opaque, SList, SOpt, SSeq, SU, SymExc, SymExcClass, U, Value


class FileObj(Value):
    """An open file: every operation is a ghost event; writes may raise any Exception (fault injection at
    every write call, for all k at once)."""

    def __init__(self, ctx, name, mode):
        self.name = name
        self.mode = mode
        self.closed = False
        self.tag = ctx.fresh("file")
        self.lines_taken = 0  # ghost p: lines handed out so far
        self.dirty = False  # ghost: data accepted by write() that has not been flushed (text files are buffered)

    def __repr__(self):
        return f"FileObj({self.tag}, {self.mode})"

    def getattr_model(self, interp, name):
        ctx = interp.ctx
        if name == "__enter__":
            return BoundMethod(HostModel(lambda i, s, a, k: s), self)
        if name in ("__exit__", "close"):

            def close(i, s, a, k):
                # the descriptor is closed in any case; buffered data is written out first, and that can fail
                # (disk full, I/O error): the failure of a small write surfaces here, not in write()
                s.closed = True
                i.ctx.event("close", s.tag)
                if s.dirty:
                    s.dirty = False
                    may_raise(i, "flush-at-close", base=OSError)
                return None

            return BoundMethod(HostModel(close), self)
        if name == "write":

            def write(i, s, a, k):
                i.ctx.event("write", s.tag)
                may_raise(i, "write")
                s.dirty = True
                return None

            return BoundMethod(HostModel(write), self)
        if name == "flush":

            def flush(i, s, a, k):
                i.ctx.event("flush", s.tag)
                if s.dirty:
                    may_raise(i, "flush", base=OSError)  # a failed flush leaves the data in the buffer
                    s.dirty = False
                return None

            return BoundMethod(HostModel(flush), self)
        if name == "name":
            return self.name
        if name == "closed":
            return self.closed
        raise OutsideSubset(f"file attribute {name}")

    def next_model(self, interp, default=()):
        """next(fh): a line, or StopIteration at the end of the file."""
        ctx = interp.ctx
        if ctx.branch(z3.Bool(ctx.fresh(f"{self.tag}.eof"))):
            ctx.event("eof", self.tag)
            if default:
                return default[0]
            raise PyRaise(StopIteration())
        self.lines_taken += 1
        line = SU(z3.Const(ctx.fresh(f"{self.tag}.line"), U), str)
        ctx.event("readline", self.tag, line)
        return line

    def iter_model(self, interp):
        return self


def may_raise(interp, origin, base=Exception, never=()):
    """Fork: the current operation raises an exception of an unknown subclass of `base` (but of none of `never`)."""
    ctx = interp.ctx
    if ctx.branch(z3.Bool(ctx.fresh(f"raises.{origin}"))):
        cls = SymExcClass(ctx.fresh(f"E.{origin}"), base)
        for c in never:
            ctx.assume(z3.Not(cls.sub_pred(c)))
        ctx.event("raise", origin)
        raise PyRaise(SymExc(cls, origin))


def model_open(interp, args, kwargs):
    ctx = interp.ctx
    name = args[0]
    mode = args[1] if len(args) > 1 else kwargs.get("mode", "r")
    ctx.event("open", name, mode)
    # the operating system may refuse
    if ctx.branch(z3.Bool(ctx.fresh("open.fails"))):
        ctx.event("open-failed", name)
        raise PyRaise(OSError("cannot open"))
    f = FileObj(ctx, name, mode)
    ctx.ghost.setdefault("files", []).append(f)
    ctx.event("opened", f.tag, mode)
    return f


class _CatchWarnings(Value):
    """warnings.catch_warnings(record=True): __enter__ returns the list of recorded warnings (any number)."""

    def __init__(self, ctx):
        self.tag = ctx.fresh("catch_warnings")

    def getattr_model(self, interp, name):
        ctx = interp.ctx
        if name == "__enter__":

            def enter(i, s, a, k):
                n = i.ctx.fresh_int("nwarnings")
                i.ctx.assume(n >= 0)
                rec = SList(SSeq(n, lambda j: Opaque(f"warning[{j}]"), list, tag="recorded-warnings"))
                return rec

            return BoundMethod(HostModel(enter), self)
        if name == "__exit__":
            return BoundMethod(HostModel(lambda i, s, a, k: None), self)
        raise OutsideSubset(f"catch_warnings.{name}")


def model_catch_warnings(interp, args, kwargs):
    return _CatchWarnings(interp.ctx)


def havoc_call_factory(spec=None):
    """Unknown callee: returns an opaque value or raises any Exception.  `spec(fn_tag)` may name the result."""

    def havoc(interp, fn, args, kwargs):
        ctx = interp.ctx
        tag = getattr(fn, "tag", repr(fn))
        ctx.event("call", tag)
        havoc_line_iterators(interp, args)
        may_raise(interp, tag)
        if spec is not None:
            r = spec(interp, tag, args, kwargs)
            if r is not _MISSING:
                return r
        return Opaque(ctx.fresh(f"result.{tag}"))

    return havoc


def havoc_line_iterators(interp, args):
    """A callee that receives a LineIterator may read lines and push lines back: lineno and stack become unknown."""
    from .values import Obj, SInt

    ctx = interp.ctx
    for a in args:
        if isinstance(a, Obj) and a.cls.__name__ == "LineIterator":
            a.fields["lineno"] = SInt(ctx.fresh_int("lit.lineno"))
            n = ctx.fresh_int("lit.depth")
            ctx.assume(n >= 0)
            a.fields["stack"] = SList(SSeq(n, lambda i: SU(z3.Const(f"pushed[{i}]", U), str), list))


def abstract_iterator(tag, item_factory=None, may_fail=True):
    """An iterator about which nothing is known: each next() yields an item, ends, or raises any Exception."""

    def nxt(interp, k, want_end=False):
        ctx = interp.ctx
        if want_end:
            ctx.event("exhausted", tag)
            return _MISSING
        if may_fail:
            # a StopIteration from next() *is* exhaustion (the other case), so it is excluded here
            may_raise(interp, f"next({tag})", never=(StopIteration,))
        ctx.event("pull", tag, k)
        if item_factory is not None:
            return item_factory(interp, k)
        return Opaque(ctx.fresh(f"{tag}.item"))

    it = AbsIter(nxt, tag)
    return it


def next_of_absiter(interp, it: AbsIter):
    """next(it) outside a loop rule: fork between item / StopIteration / raise."""
    ctx = interp.ctx
    k = it.__dict__.setdefault("count", 0)
    if ctx.branch(z3.Bool(ctx.fresh(f"{it.tag}.exhausted"))):
        ctx.event("exhausted", it.tag)
        raise PyRaise(StopIteration())
    it.count = k + 1
    return it.next(interp, z3.IntVal(k))


def api_config():
    cfg = Config()
    cfg.models[builtins.open] = model_open
    cfg.models[warnings.catch_warnings] = model_catch_warnings
    cfg.havoc_call = havoc_call_factory()
    import os
    import shutil

    def fs_query(name):
        def m(interp, args, kwargs):
            interp.ctx.event("fs-query", name, tuple(args))
            return SBoolFresh(interp.ctx, name)

        return m

    def fs_effect(name):
        def m(interp, args, kwargs):
            interp.ctx.event("fs-effect", name, tuple(args))
            return None

        return m

    for f in (os.path.exists, os.path.isfile, os.path.isdir):
        cfg.models[f] = fs_query(f.__name__)
    for f in (os.remove, os.unlink, os.rename, os.replace, shutil.move, shutil.copy, shutil.copyfile, os.makedirs, os.mkdir, os.rmdir):
        cfg.models[f] = fs_effect(f.__name__)
    return cfg


def SBoolFresh(ctx, name):
    from .values import SBool

    return SBool(z3.Bool(ctx.fresh(f"fs.{name}")))


def true_loop(quote, name):
    """Loop contract with the trivial invariant (no loop-carried state that the property depends on)."""
    return LoopSpec(quote, lambda interp, frame, k: None, lambda interp, frame, k: z3.BoolVal(True), name=name)


def opaque_data(ctx, tag, attrs_present=None):
    """An IOData-like object about which only None-ness of attributes is tracked."""
    from . import source

    d = Opaque(tag, pytype=source.import_repo("iodata.iodata").IOData)
    d.nones = {}
    return d


def trace_names(ctx):
    return [e[0] for e in ctx.trace]
