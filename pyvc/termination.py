"""Termination obligations for parser loops (C07-T).

Ghost measure: remaining = (lines left in the file) + (depth of the LineIterator push-back stack).  `next(lit)`
decreases it by one (or raises StopIteration at the end of the file, which leaves the loop), `lit.back(line)`
increases it by one.  Obligation per `while` loop (and per `for ... in lit` loop): on every path through the body
that reaches the next iteration the measure strictly decreases, i.e. the net number of lines consumed is >= 1
(for `for ... in lit` the iterator itself consumes one line, so the body must not push back more than it takes).
Loops that do not read lines need a declared variant (checked syntactically: the variant variable is updated on
every continuing path).  Paths are enumerated on the AST; every call may raise (handlers are entered with net 0).
"""

from __future__ import annotations

import ast

from . import source

INF = 10**6


def _is_lit(node):
    return isinstance(node, ast.Name) and node.id == "lit"


class FuncSummary:
    def __init__(self):
        self.min_net = {}  # function name -> minimal net consumption on a normally returning path


class Analyzer:
    def __init__(self, modname):
        self.modname = modname
        self.tree, self.text = source.module_ast(modname)
        self.funcs = {}
        for n in ast.walk(self.tree):
            if isinstance(n, ast.FunctionDef):
                self.funcs.setdefault(n.name, n)
        self.summary = {}
        self.in_progress = set()

    # -- consumption of an expression (lower bound, upper not needed) ---------------------------------
    def expr_net(self, node):
        """Lower bound of the net number of lines consumed by evaluating `node` (calls that certainly happen)."""
        if node is None:
            return 0
        total = 0
        for n in self._certain_calls(node):
            total += self.call_net(n)
        return total

    def _certain_calls(self, node):
        """Call nodes that are evaluated whenever `node` is (not under a comprehension, lambda, IfExp branch or
        the right operand of a short-circuit operator)."""
        out = []

        def visit(n):
            if isinstance(n, (ast.ListComp, ast.SetComp, ast.DictComp, ast.GeneratorExp, ast.Lambda)):
                return
            if isinstance(n, ast.IfExp):
                visit(n.test)
                return
            if isinstance(n, ast.BoolOp):
                visit(n.values[0])
                return
            for c in ast.iter_child_nodes(n):
                visit(c)
            if isinstance(n, ast.Call):
                out.append(n)

        visit(node)
        return out

    def call_net(self, call):
        f = call.func
        if isinstance(f, ast.Name) and f.id == "next" and call.args and _is_lit(call.args[0]):
            return 1
        if isinstance(f, ast.Attribute) and f.attr == "back" and _is_lit(f.value):
            return -1
        if isinstance(f, ast.Attribute) and f.attr == "__next__" and _is_lit(f.value):
            return 1
        name = f.id if isinstance(f, ast.Name) else None
        passes_lit = any(_is_lit(a) for a in call.args) or any(_is_lit(k.value) for k in call.keywords)
        if name in self.funcs and passes_lit:
            return self.func_min_net(name)
        if passes_lit and name not in ("next", "LoadError", "LoadWarning", "warn", "isinstance", "print"):
            # lit handed to an unknown callee (another module): it may push back at most what it read (assumed >= 0)
            return self.foreign_net(call)
        return 0

    def foreign_net(self, call):
        f = call.func
        # helper of another iodata module, e.g. load_one(lit) of the same format or _load_helper in molden
        return 0

    def func_min_net(self, name):
        if name in self.summary:
            return self.summary[name]
        if name in self.in_progress:
            return 0
        self.in_progress.add(name)
        node = self.funcs[name]
        paths = self.block_paths(node.body)
        nets = [net for kind, net in paths if kind in ("fall", "return")]
        r = min(nets) if nets else 0
        self.in_progress.discard(name)
        self.summary[name] = r
        return r

    # -- path enumeration ------------------------------------------------------------------------------
    def block_paths(self, stmts):
        """Set of (kind, net) for the statement list; kind in fall / continue / break / return / raise."""
        paths = {("fall", 0)}
        for st in stmts:
            new = set()
            for kind, net in paths:
                if kind != "fall":
                    new.add((kind, net))
                    continue
                for k2, n2 in self.stmt_paths(st):
                    new.add((k2, net + n2))
            paths = _prune(new)
        return paths

    def stmt_paths(self, st):
        if isinstance(st, ast.If):
            c = self.expr_net(st.test)
            out = set()
            for k, n in self.block_paths(st.body) | self.block_paths(st.orelse):
                out.add((k, n + c))
            return out
        if isinstance(st, (ast.For, ast.While)):
            # an inner loop: its own obligation is checked separately; for the enclosing path it consumes >= 0
            # lines (zero iterations are possible) unless it is `for ... in lit`, `break`/`return` inside leave it
            inner = self.block_paths(st.body)
            if isinstance(st, ast.For) and _is_lit(st.iter):
                inner = {(k, n + 1) for k, n in inner}  # the iterator itself took one line for this iteration
            out = {("fall", 0)}
            if isinstance(st, ast.While):
                c = self.expr_net(st.test)
                always = isinstance(st.test, ast.Constant) and bool(st.test.value)
                if always:
                    out = set()
                elif c > 0:
                    out = {("fall", c)}
            for k, n in inner:
                if k == "break":
                    # `while True`: the body ran at least once, so the breaking iteration's own consumption counts
                    out.add(("fall", n if (isinstance(st, ast.While) and always) or n < 0 else 0))
                elif k in ("return", "raise"):
                    out.add((k, n if (isinstance(st, ast.While) and always) or n < 0 else 0))
            if isinstance(st, ast.For) and st.orelse:
                pass
            return out
        if isinstance(st, ast.Try):
            out = set(self.block_paths(st.body + st.orelse))
            for h in st.handlers:
                # the exception may come from any call of the body: nothing is known to have been consumed before
                for k, n in self.block_paths(h.body):
                    out.add((k, n))
            if st.finalbody:
                fin = self.block_paths(st.finalbody)
                out2 = set()
                for k, n in out:
                    for k2, n2 in fin:
                        out2.add((k if k2 == "fall" else k2, n + n2))
                out = out2
            return out
        if isinstance(st, ast.With):
            c = sum(self.expr_net(i.context_expr) for i in st.items)
            return {(k, n + c) for k, n in self.block_paths(st.body)}
        if isinstance(st, ast.Return):
            return {("return", self.expr_net(st.value))}
        if isinstance(st, ast.Raise):
            return {("raise", 0)}
        if isinstance(st, ast.Break):
            return {("break", 0)}
        if isinstance(st, ast.Continue):
            return {("continue", 0)}
        if isinstance(st, (ast.FunctionDef, ast.ClassDef, ast.Import, ast.ImportFrom, ast.Pass, ast.Global, ast.Nonlocal)):
            return {("fall", 0)}
        # simple statement: every certain call counts
        return {("fall", self.expr_net(st))}

    # -- obligations -------------------------------------------------------------------------------------
    def loops(self):
        out = []
        for fname, fn in self.funcs.items():
            for k, lp in enumerate(source.loops_of(fn)):
                out.append((fname, k, lp))
        return out


def _prune(paths):
    """Keep, per kind, only the minimal net (we need lower bounds)."""
    best = {}
    for k, n in paths:
        if k not in best or n < best[k]:
            best[k] = n
    return set(best.items())


def loop_header(lp):
    return ast.unparse(lp.test if isinstance(lp, ast.While) else lp.iter)


def counted_loop(lp):
    """`while v < bound` (or <=, or `len(v) < bound`) where every continuing path does `v += <positive constant>`
    and nothing in the body assigns a name of `bound`: the variant bound - v decreases."""
    t = lp.test
    if isinstance(t, ast.BoolOp) and isinstance(t.op, ast.And):
        t = t.values[0]
    if not (isinstance(t, ast.Compare) and len(t.ops) == 1 and isinstance(t.ops[0], (ast.Lt, ast.LtE)) and isinstance(t.left, ast.Name)):
        return None
    var = t.left.id
    bound_names = {n.id for n in ast.walk(t.comparators[0]) if isinstance(n, ast.Name)}
    for n in ast.walk(lp):
        if isinstance(n, (ast.Assign, ast.AugAssign)):
            tgts = n.targets if isinstance(n, ast.Assign) else [n.target]
            for tg in tgts:
                for x in ast.walk(tg):
                    if isinstance(x, ast.Name) and x.id in bound_names and isinstance(x.ctx, ast.Store):
                        return None

    def incs(st):
        return isinstance(st, ast.AugAssign) and isinstance(st.op, ast.Add) and isinstance(st.target, ast.Name) and st.target.id == var and isinstance(st.value, ast.Constant) and isinstance(st.value.value, int) and st.value.value > 0

    def block(stmts, done):
        for st in stmts:
            if incs(st):
                done = True
            elif isinstance(st, ast.If):
                done = block(st.body, done) and block(st.orelse, done)
            elif isinstance(st, ast.Continue):
                if not done:
                    raise _NotUpdated()
                return True
            elif isinstance(st, (ast.Break, ast.Return, ast.Raise)):
                return True
            elif isinstance(st, (ast.For, ast.While, ast.Try, ast.With)):
                for n in ast.walk(st):
                    if isinstance(n, ast.Continue) and not done and isinstance(st, (ast.Try, ast.With)):
                        raise _NotUpdated()
                    if isinstance(n, (ast.Assign, ast.AugAssign)) and not incs(n):
                        tg = n.targets[0] if isinstance(n, ast.Assign) else n.target
                        if isinstance(tg, ast.Name) and tg.id == var:
                            raise _NotUpdated()
            elif isinstance(st, (ast.Assign, ast.AugAssign)):
                tg = st.targets[0] if isinstance(st, ast.Assign) else st.target
                if isinstance(tg, ast.Name) and tg.id == var:
                    raise _NotUpdated()  # the counter is modified in another way
        return done

    try:
        return var if block(lp.body, False) else None
    except _NotUpdated:
        return None


def check_loop(an: Analyzer, lp):
    """Returns (status, detail): 'consumes' | 'finite-for' | 'counted' | 'needs-variant'."""
    if isinstance(lp, ast.While):
        v = counted_loop(lp)
        if v is not None:
            return "counted", f"counted loop: {v} increases by a positive constant on every continuing path, bound unchanged"
    if isinstance(lp, ast.For):
        if _is_lit(lp.iter):
            worst = min([n for k, n in an.block_paths(lp.body) if k in ("fall", "continue")], default=0)
            if worst >= 0:
                return "consumes", f"for-over-lit: body net >= {worst}"
            return "needs-variant", f"for-over-lit: a continuing path pushes back more than it reads (net {worst})"
        return "finite-for", "iteration over a finite collection / range"
    cond = an.expr_net(lp.test)
    cont = [n for k, n in an.block_paths(lp.body) if k in ("fall", "continue")]
    if not cont:
        return "consumes", "no path reaches a second iteration"
    worst = min(cont) + cond
    if worst >= 1:
        return "consumes", f"every continuing path consumes >= {worst} line(s)"
    return "needs-variant", f"a continuing path consumes only {worst} line(s)"


def updated_on_every_continuing_path(an: Analyzer, lp, var):
    """Syntactic check of a declared variant: every path that reaches the next iteration assigns `var`."""

    def assigns(st):
        for n in ast.walk(st):
            if isinstance(n, (ast.Assign, ast.AugAssign, ast.AnnAssign)):
                tgts = n.targets if isinstance(n, ast.Assign) else [n.target]
                for t in tgts:
                    for x in ast.walk(t):
                        if isinstance(x, ast.Name) and x.id == var:
                            return True
            if isinstance(n, ast.Call) and isinstance(n.func, ast.Attribute) and isinstance(n.func.value, ast.Name) and n.func.value.id == var and n.func.attr in ("append", "extend", "pop", "update", "add"):
                return True
        return False

    def block(stmts, done):
        """True if every fall/continue path through stmts assigns var (given `done` so far)."""
        for st in stmts:
            if isinstance(st, ast.If):
                a = block(st.body, done)
                b = block(st.orelse, done)
                done = a and b
            elif isinstance(st, ast.Try):
                done = block(st.body, done) and all(block(h.body, done) for h in st.handlers)
            elif isinstance(st, (ast.For, ast.While, ast.With)):
                if isinstance(st, ast.With):
                    done = block(st.body, done)
                else:
                    done = done or False
                    if any(isinstance(n, ast.Continue) for n in ast.walk(st)) and not done:
                        pass
            elif isinstance(st, ast.Continue):
                if not done:
                    raise _NotUpdated()
                return True
            elif isinstance(st, (ast.Break, ast.Return, ast.Raise)):
                return True
            else:
                done = done or assigns(st)
        return done

    try:
        return bool(block(lp.body, False))
    except _NotUpdated:
        return False


class _NotUpdated(Exception):
    pass
