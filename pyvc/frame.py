"""Frame (modifies) obligations by provenance analysis over the call graph of /repo (C09, C16).

Every statement that can mutate an object -- subscript / attribute store, augmented assignment, `del`, a call of a
mutating method, an `out=` argument, or a call of a function of /repo whose summary says that it mutates a
parameter -- must target an object whose provenance is `fresh` (allocated in this activation).  Provenance is a set
of tags {fresh, arg:<param>, global:<module.name>}; it is propagated flow-insensitively through assignments,
attribute / subscript loads and views, and through calls by function summaries (returned provenance and mutated
parameters in terms of the callee's parameters), computed as a fixpoint over the call graph.

The numpy / stdlib aliasing facts used here are trusted axioms (listed in `ALIAS_PRESERVING`, `FRESH_CALLS`).
"""

from __future__ import annotations

import ast
import importlib
import types

from . import source

MUTATING_METHODS = {"append", "extend", "insert", "pop", "remove", "clear", "sort", "reverse", "update", "setdefault", "popitem", "add", "discard", "fill", "resize", "put", "itemset", "setflags", "sort", "partition", "byteswap", "__setitem__", "__delitem__", "appendleft", "write_back"}
# calls whose result may alias (a view of / the same object as) their first argument or receiver
ALIAS_PRESERVING = {"asarray", "asanyarray", "ascontiguousarray", "reshape", "ravel", "squeeze", "transpose", "swapaxes", "view", "atleast_1d", "atleast_2d", "atleast_3d", "diagonal", "get", "setdefault", "pop", "items", "values", "keys", "__getitem__", "iter", "reversed", "zip", "enumerate", "next", "real", "imag", "T", "flat", "evolve", "getattr"}
IMMUTABLE_RESULTS = {"len", "int", "float", "str", "bool", "abs", "round", "min", "max", "sum", "any", "all", "isinstance", "hasattr", "repr", "format", "join", "split", "strip", "lower", "upper", "startswith", "endswith", "index", "count", "tuple", "range", "fnmatch", "basename", "ljust", "rjust", "title", "replace", "lstrip", "rstrip", "item", "tolist"}
FRESH = frozenset({"fresh"})


def _pseudo(node):
    """Pseudo-variable name of `X["k"]` (X a plain name, k a string constant), else None."""
    if isinstance(node, ast.Subscript) and isinstance(node.value, ast.Name) and isinstance(node.slice, ast.Constant) and isinstance(node.slice.value, str):
        return f"{node.value.id}[{node.slice.value!r}]"
    return None


class FuncInfo:
    def __init__(self, modname, qualname, node, cls=None):
        self.modname = modname
        self.qualname = qualname
        self.node = node
        self.cls = cls
        self.params = [a.arg for a in node.args.posonlyargs + node.args.args + node.args.kwonlyargs]
        if node.args.vararg:
            self.params.append(node.args.vararg.arg)
        if node.args.kwarg:
            self.params.append(node.args.kwarg.arg)
        self.ret = set()  # provenance of the return value: subset of {fresh} | {arg:<p>} | {global:<g>}
        self.mutates = {}  # tag (arg:<p> / global:<g>) -> description of the first mutation site
        self.sites = []  # all mutation sites: (lineno, text, provenance set)
        self.calls = set()  # keys of callees in /repo
        self.global_writes = []  # `global x` assignments, module attribute stores

    @property
    def key(self):
        return f"{self.modname}.{self.qualname}"


class Analysis:
    def __init__(self, modnames):
        self.funcs = {}
        self.modules = {}
        self.mutable_globals = {}
        for m in modnames:
            self.load_module(m)

    def load_module(self, modname):
        if modname in self.modules:
            return
        tree, _ = source.module_ast(modname)
        self.modules[modname] = tree
        mod = source.import_repo(modname)
        import numpy as np

        for k, v in vars(mod).items():
            if isinstance(v, (dict, list, set, np.ndarray)) and not k.startswith("__"):
                self.mutable_globals[(modname, k)] = f"{getattr(v, '__module__', None) or self._home(modname, k, v)}"
        for node in tree.body:
            if isinstance(node, ast.FunctionDef):
                self._add_func(modname, node.name, node)
            elif isinstance(node, ast.ClassDef):
                for sub in node.body:
                    if isinstance(sub, ast.FunctionDef):
                        q = f"{node.name}.{sub.name}"
                        if any(isinstance(d, ast.Attribute) and d.attr == "setter" for d in sub.decorator_list):
                            q += ".setter"
                        self._add_func(modname, q, sub, cls=node.name)

    def _home(self, modname, name, value):
        """Name of the module-level object (the defining module when it was imported from another iodata module)."""
        import sys

        for mn, m in sys.modules.items():
            if (mn == "iodata" or mn.startswith("iodata.")) and mn != modname and getattr(m, name, None) is value:
                tree = self.modules.get(mn)
                return f"{mn}.{name}"
        return f"{modname}.{name}"

    def _add_func(self, modname, qual, node, cls=None):
        fi = FuncInfo(modname, qual, node, cls)
        self.funcs[fi.key] = fi
        # nested functions
        for sub in ast.walk(node):
            if isinstance(sub, ast.FunctionDef) and sub is not node:
                self.funcs[f"{modname}.{qual}.<locals>.{sub.name}"] = FuncInfo(modname, f"{qual}.<locals>.{sub.name}", sub, cls)

    # ------------------------------------------------------------------------------------------------
    def resolve_callee(self, fi: FuncInfo, func_node, env):
        """Key(s) of the /repo function a call expression refers to (best effort), else []."""
        mod = source.import_repo(fi.modname)
        if isinstance(func_node, ast.Name):
            name = func_node.id
            k = f"{fi.modname}.{fi.qualname}.<locals>.{name}"
            if k in self.funcs:
                return [k]
            parent = fi.qualname.split(".<locals>.")[0]
            k = f"{fi.modname}.{parent}.<locals>.{name}"
            if k in self.funcs:
                return [k]
            obj = getattr(mod, name, None)
            return self._keys_of(obj)
        if isinstance(func_node, ast.Attribute):
            # module.func or obj.method
            if isinstance(func_node.value, ast.Name):
                base = getattr(mod, func_node.value.id, None)
                if isinstance(base, types.ModuleType):
                    return self._keys_of(getattr(base, func_node.attr, None))
                if func_node.value.id == "format_module" or func_node.value.id == "input_module":
                    # dynamic dispatch of the API: every format module's function of that name
                    out = []
                    for k in self.funcs:
                        if (k.startswith("iodata.formats.") or k.startswith("iodata.inputs.")) and k.count(".") == 3 and k.endswith("." + func_node.attr):
                            out.append(k)
                    return out
            # method of an iodata class: match by method name (over-approximation over all classes)
            out = [k for k, f in self.funcs.items() if f.cls and f.qualname.split(".")[1:2] == [func_node.attr]]
            return out
        return []

    def _keys_of(self, obj):
        if isinstance(obj, types.FunctionType) and (obj.__module__ or "").startswith("iodata"):
            inner = obj
            # unwrap the warning re-issuer of the API
            if obj.__closure__ and obj.__qualname__.endswith("_reissue_warnings.<locals>.inner"):
                inner = obj.__closure__[0].cell_contents
            self.load_module(inner.__module__)
            k = f"{inner.__module__}.{inner.__qualname__}"
            return [k] if k in self.funcs else []
        if isinstance(obj, type) and (obj.__module__ or "").startswith("iodata"):
            return []
        return []

    # ------------------------------------------------------------------------------------------------
    def analyse_function(self, fi: FuncInfo):
        """One pass: returns True when the summary changed."""
        env = {p: {f"arg:{p}"} for p in fi.params}
        node = fi.node
        old = (frozenset(fi.ret), frozenset(fi.mutates), len(fi.sites))
        fi.sites = []
        fi.calls = set()
        globals_declared = set()
        for n in ast.walk(node):
            if isinstance(n, ast.Global):
                globals_declared |= set(n.names)
        # iterate assignments to a local fixpoint (flow-insensitive)
        body_nodes = [n for n in self._walk_own(node)]
        for _ in range(6):
            changed = False
            for n in body_nodes:
                tgts, val = None, None
                if isinstance(n, ast.Assign):
                    tgts, val = n.targets, n.value
                elif isinstance(n, ast.AnnAssign) and n.value is not None:
                    tgts, val = [n.target], n.value
                elif isinstance(n, (ast.For, ast.comprehension)):
                    tgts, val = [n.target], n.iter
                elif isinstance(n, ast.With):
                    for item in n.items:
                        if item.optional_vars is not None:
                            changed |= self._bind(env, item.optional_vars, self.prov(fi, item.context_expr, env))
                    continue
                elif isinstance(n, ast.NamedExpr):
                    tgts, val = [n.target], n.value
                if tgts is None:
                    continue
                p = self.prov(fi, val, env)
                for t in tgts:
                    changed |= self._bind(env, t, p)
                    # a store into a container makes the stored object an element of it: X[k] = v, X.a = v
                    for tt in self._flatten(t):
                        pk = _pseudo(tt)
                        if pk is not None and tt.value.id in env:
                            # key-sensitive: X["k"] = v is remembered under the pseudo-variable X['k']
                            cur = env.setdefault(pk, set())
                            if not p <= cur:
                                cur |= p
                                changed = True
                            continue
                        if isinstance(tt, (ast.Subscript, ast.Attribute)):
                            root = tt.value
                            while isinstance(root, (ast.Subscript, ast.Attribute)):
                                root = root.value
                            if isinstance(root, ast.Name) and root.id in env:
                                elems = {"elem:" + x for x in p if x not in ("fresh", "const") and not x.startswith("elem:")} | {x for x in p if x.startswith("elem:")}
                                cur = env.setdefault(root.id, set())
                                if not elems <= cur:
                                    cur |= elems
                                    changed = True
            if not changed:
                break
        fi.env = env
        # return provenance
        ret = set()
        for n in body_nodes:
            if isinstance(n, ast.Return) and n.value is not None:
                ret |= self.prov(fi, n.value, env)
            if isinstance(n, (ast.Yield,)) and n.value is not None:
                ret |= self.prov(fi, n.value, env)
        fi.ret = {t for t in ret if t != "const"} or {"fresh"}
        # mutation sites
        mut = {}

        def site(n, target_expr, how):
            p = self.prov(fi, target_expr, env) - {"const"}
            text = f"{how}: {ast.unparse(n)[:90]}"
            fi.sites.append((n.lineno, text, frozenset(p)))
            for t in p:
                if t != "fresh":
                    mut.setdefault(t, f"{fi.key}:{n.lineno} {text}")

        for n in body_nodes:
            if isinstance(n, (ast.Assign, ast.AnnAssign, ast.AugAssign, ast.Delete)):
                tgts = n.targets if isinstance(n, (ast.Assign, ast.Delete)) else [n.target]
                for t in tgts:
                    for tt in self._flatten(t):
                        if isinstance(tt, ast.Subscript):
                            site(n, tt.value, "subscript store")
                        elif isinstance(tt, ast.Attribute):
                            if isinstance(tt.value, ast.Name) and tt.value.id == "self" and fi.qualname.endswith("__init__"):
                                continue
                            site(n, tt.value, "attribute store")
                        elif isinstance(tt, ast.Name) and isinstance(n, ast.AugAssign):
                            # x op= v mutates in place when x is a list / ndarray
                            px = env.get(tt.id, set())
                            if any(t != "fresh" and t != "const" for t in px) and not self._scalar_like(fi, tt.id, body_nodes):
                                site(n, tt, "augmented assignment")
                        elif isinstance(tt, ast.Name) and tt.id in globals_declared:
                            fi.global_writes.append((n.lineno, f"assignment to global {tt.id}"))
            elif isinstance(n, ast.Call):
                f = n.func
                if isinstance(f, ast.Attribute) and f.attr in MUTATING_METHODS:
                    # dict.get/pop on str etc. are filtered by provenance; `.pop`/.update on fresh objects are fine
                    site(n, f.value, f"call of .{f.attr}()")
                    if f.attr in ("append", "extend", "insert", "update", "add", "setdefault") and isinstance(f.value, ast.Name) and f.value.id in env:
                        for a in list(n.args) + [kw.value for kw in n.keywords]:
                            pa = self.prov(fi, a, env)
                            env.setdefault(f.value.id, set()).update({"elem:" + x for x in pa if x not in ("fresh", "const") and not x.startswith("elem:")} | {x for x in pa if x.startswith("elem:")})
                for kw in n.keywords:
                    if kw.arg == "out":
                        site(n, kw.value, "out= argument")
                callees = self.resolve_callee(fi, f, env)
                for ck in callees:
                    fi.calls.add(ck)
                    cf = self.funcs[ck]
                    amap = self._arg_map(cf, n, f)
                    for tag, where in cf.mutates.items():
                        if tag.startswith("global:"):
                            mut.setdefault(tag, where)
                        elif tag.startswith("arg:"):
                            pname = tag[4:]
                            for expr in amap.get(pname, []):
                                p = self.prov(fi, expr, env) - {"const"}
                                fi.sites.append((n.lineno, f"call of {ck} which mutates its parameter {pname}: {ast.unparse(n)[:80]}", frozenset(p)))
                                for t in p:
                                    if t != "fresh":
                                        mut.setdefault(t, where)
                if isinstance(f, ast.Name) and f.id == "setattr" and n.args:
                    site(n, n.args[0], "setattr")
        # functions of /repo that are merely referenced (callbacks such as atom_line) may be called as well
        mod = source.import_repo(fi.modname)
        for n in body_nodes:
            if isinstance(n, ast.Name) and isinstance(n.ctx, ast.Load) and n.id not in env:
                for ck in self._keys_of(getattr(mod, n.id, None)):
                    fi.calls.add(ck)
        fi.mutates = mut
        return (frozenset(fi.ret), frozenset(fi.mutates), len(fi.sites)) != old

    def _scalar_like(self, fi, name, body_nodes):
        """Is the local `name` only ever bound to numbers / strings / tuples (so `op=` rebinds, never mutates)?"""
        for n in body_nodes:
            if isinstance(n, ast.Assign):
                for t in n.targets:
                    if isinstance(t, ast.Name) and t.id == name:
                        v = n.value
                        if not (isinstance(v, ast.Constant) or (isinstance(v, ast.Call) and isinstance(v.func, ast.Name) and v.func.id in ("len", "int", "float", "str")) or isinstance(v, (ast.JoinedStr, ast.Tuple, ast.BinOp, ast.UnaryOp))):
                            return False
        return name not in fi.params

    def _walk_own(self, node):
        stack = list(ast.iter_child_nodes(node))
        while stack:
            n = stack.pop()
            if isinstance(n, (ast.FunctionDef, ast.AsyncFunctionDef, ast.ClassDef, ast.Lambda)):
                continue
            yield n
            stack.extend(ast.iter_child_nodes(n))

    def _flatten(self, t):
        if isinstance(t, (ast.Tuple, ast.List)):
            for e in t.elts:
                yield from self._flatten(e)
        elif isinstance(t, ast.Starred):
            yield from self._flatten(t.value)
        else:
            yield t

    def _bind(self, env, target, p):
        changed = False
        for t in self._flatten(target):
            if isinstance(t, ast.Name):
                cur = env.setdefault(t.id, set())
                if not p <= cur:
                    cur |= p
                    changed = True
        return changed

    def _arg_map(self, cf: FuncInfo, call, func_node):
        """callee parameter name -> list of argument expressions at this call site."""
        params = list(cf.params)
        amap = {}
        args = list(call.args)
        if cf.cls and isinstance(func_node, ast.Attribute) and params and params[0] == "self":
            amap["self"] = [func_node.value]
            params = params[1:]
        for p, a in zip(params, args):
            if isinstance(a, ast.Starred):
                continue
            amap.setdefault(p, []).append(a)
        for kw in call.keywords:
            if kw.arg:
                amap.setdefault(kw.arg, []).append(kw.value)
        return amap

    # ------------------------------------------------------------------------------------------------
    def prov(self, fi: FuncInfo, e, env):
        """Provenance of the object an expression evaluates to."""
        if e is None:
            return {"const"}
        if isinstance(e, ast.Constant):
            return {"const"}
        if isinstance(e, ast.Name):
            if e.id in env:
                return set(env[e.id]) or {"fresh"}
            if (fi.modname, e.id) in self.mutable_globals:
                return {f"global:{self.mutable_globals[(fi.modname, e.id)]}"}
            # closure variable of an enclosing function
            if ".<locals>." in fi.qualname:
                outer = self.funcs.get(f"{fi.modname}.{fi.qualname.rsplit('.<locals>.', 1)[0]}")
                if outer is not None and e.id in getattr(outer, "env", {}):
                    return set(outer.env[e.id])
            return {"const"}
        if isinstance(e, (ast.JoinedStr, ast.Compare, ast.BoolOp)) and not isinstance(e, ast.BoolOp):
            return {"const"}
        if isinstance(e, ast.BoolOp):
            out = set()
            for v in e.values:
                out |= self.prov(fi, v, env)
            return out
        if isinstance(e, ast.IfExp):
            return self.prov(fi, e.body, env) | self.prov(fi, e.orelse, env)
        if isinstance(e, (ast.List, ast.Dict, ast.Set, ast.ListComp, ast.DictComp, ast.SetComp, ast.GeneratorExp, ast.Tuple)):
            # a new container (its *elements* may alias; element mutation goes through a subscript load below)
            inner = set()
            elts = []
            if isinstance(e, (ast.List, ast.Set, ast.Tuple)):
                elts = e.elts
            elif isinstance(e, ast.Dict):
                elts = [v for v in e.values if v is not None]
            elif isinstance(e, (ast.ListComp, ast.SetComp, ast.GeneratorExp)):
                elts = [e.elt]
            elif isinstance(e, ast.DictComp):
                elts = [e.value]
            for x in elts:
                inner |= {"elem:" + t for t in self.prov(fi, x, env) if t not in ("fresh", "const") and not t.startswith("elem:")}
            return {"fresh"} | inner
        if isinstance(e, (ast.BinOp, ast.UnaryOp)):
            return {"fresh"}
        if isinstance(e, ast.Attribute):
            base = self.prov(fi, e.value, env)
            if isinstance(e.value, ast.Name):
                mod = source.import_repo(fi.modname)
                b = getattr(mod, e.value.id, None) if e.value.id not in env else None
                if isinstance(b, types.ModuleType):
                    return {"const"}
            if e.attr in ("shape", "size", "ndim", "dtype", "real", "nbasis", "natom", "norb", "ncon", "nexp", "kind", "nelec", "spinpol", "charge"):
                return {"const"}
            return {t[5:] if t.startswith("elem:") else t for t in base} - {"const"} or {"const"}
        if isinstance(e, ast.Subscript):
            pk = _pseudo(e)
            if pk is not None and pk in env:
                return set(env[pk]) or {"fresh"}
            base = self.prov(fi, e.value, env)
            out = set()
            for t in base:
                if t.startswith("elem:"):
                    out.add(t[5:])
                elif t != "const":
                    out.add(t)
            # fancy / boolean indexing copies, basic indexing yields a view: keep the base provenance (sound)
            return out or {"const"}
        if isinstance(e, ast.Starred):
            return self.prov(fi, e.value, env)
        if isinstance(e, ast.Call):
            return self.call_prov(fi, e, env)
        if isinstance(e, ast.Lambda):
            return {"const"}
        if isinstance(e, ast.NamedExpr):
            return self.prov(fi, e.value, env)
        if isinstance(e, (ast.Yield, ast.Await)):
            return {"fresh"}
        return {"fresh"}

    def call_prov(self, fi, call, env):
        f = call.func
        name = f.attr if isinstance(f, ast.Attribute) else (f.id if isinstance(f, ast.Name) else None)
        callees = self.resolve_callee(fi, f, env)
        if callees:
            out = set()
            for ck in callees:
                cf = self.funcs[ck]
                amap = self._arg_map(cf, call, f)
                for t in cf.ret:
                    if t.startswith("arg:"):
                        for expr in amap.get(t[4:], []):
                            out |= self.prov(fi, expr, env)
                    else:
                        out.add(t)
            return out or {"fresh"}
        if name in IMMUTABLE_RESULTS:
            return {"const"}
        if name in ALIAS_PRESERVING:
            srcs = []
            if isinstance(f, ast.Attribute):
                srcs.append(f.value)
            if name in ("get", "setdefault", "pop") and isinstance(f, ast.Attribute):
                srcs.extend(call.args[1:])  # the key is not aliased, the default value may be returned
            elif call.args:
                srcs.append(call.args[0])
            if name == "evolve":
                # attrs.evolve: a new object whose members are those of the argument (shallow copy)
                out = {"fresh"}
                for s in srcs[-1:]:
                    out |= {"elem:" + t for t in self.prov(fi, s, env) if t not in ("fresh", "const")}
                return out
            out = set()
            for s in srcs:
                out |= self.prov(fi, s, env)
            return out or {"fresh"}
        if name in ("copy", "deepcopy", "array", "zeros", "ones", "empty", "zeros_like", "astype", "flatten", "concatenate", "stack", "dot", "sorted", "list", "dict", "set", "sum", "cross", "clip", "where", "einsum", "tensordot", "outer", "sqrt", "exp"):
            if name in ("list", "dict", "set", "sorted", "array") and call.args:
                inner = {"elem:" + t for t in self.prov(fi, call.args[0], env) if t not in ("fresh", "const") and not t.startswith("elem:")}
                if name == "array":
                    return {"fresh"}
                return {"fresh"} | inner
            return {"fresh"}
        # an iodata class constructor or an external function: a new object
        return {"fresh"}

    # ------------------------------------------------------------------------------------------------
    def run(self, max_iter=12):
        for _ in range(max_iter):
            changed = False
            for fi in list(self.funcs.values()):
                changed |= self.analyse_function(fi)
            if not changed:
                break
        return self

    def reachable(self, roots):
        seen = set()
        stack = [r for r in roots if r in self.funcs]
        while stack:
            k = stack.pop()
            if k in seen:
                continue
            seen.add(k)
            stack.extend(self.funcs[k].calls)
        return seen
