"""AST interpreter of pyvc: executes the real source of /repo on symbolic values, one path per run."""

from __future__ import annotations

import ast
import builtins
import types

import z3

from . import source
from .core import Ctx, OutsideSubset, PathAbort
from .values import (
    Label,
    Obj,
    Opaque,
    SArr,
    SBool,
    SDict,
    SInt,
    SList,
    SOpt,
    SReal,
    SSeq,
    SU,
    SymExc,
    SymExcClass,
    Value,
    binop,
    compare,
    is_sym,
    seq_of,
    to_z3,
    ustr,
    wrap,
)

# ------------------------------------------------------------------------------------------------
# control-flow signals
# ------------------------------------------------------------------------------------------------


class ReturnSig(Exception):
    def __init__(self, value):
        self.value = value


class BreakSig(Exception):
    pass


class ContinueSig(Exception):
    pass


class PyRaise(Exception):
    """An exception of the interpreted program."""

    def __init__(self, exc, cause=None):
        super().__init__(repr(exc))
        self.exc = exc
        self.cause = cause


class Cell:
    __slots__ = ("value",)

    def __init__(self, value=None):
        self.value = value


_MISSING = object()


class Frame:
    def __init__(self, modname, glob, name, closure=None):
        self.modname = modname
        self.globals = glob
        self.name = name
        self.locals = {}
        self.closure = closure or {}  # name -> Cell
        self.cells = {}  # own variables captured by nested functions: name -> Cell (filled lazily)
        self.loop_ordinal = {}
        self.func_node = None
        self.self_obj = None
        self.defining_class = None

    def lookup(self, name):
        if name in self.locals:
            return self.locals[name]
        if name in self.closure:
            return self.closure[name].value
        if name in self.globals:
            return self.globals[name]
        if hasattr(builtins, name):
            return getattr(builtins, name)
        raise PyRaise(NameError(f"name '{name}' is not defined"))


class Closure(Value):
    """A function object created during interpretation (nested def or lambda)."""

    def __init__(self, node, frame, defaults, kwdefaults, qualname):
        self.node = node
        self.frame = frame
        self.defaults = defaults
        self.kwdefaults = kwdefaults
        self.qualname = qualname
        self.__name__ = getattr(node, "name", "<lambda>")
        self.attrs = {}

    def __repr__(self):
        return f"Closure({self.qualname})"

    __hash__ = object.__hash__


class BoundMethod(Value):
    def __init__(self, func, self_obj, defining_class=None):
        self.func = func
        self.self_obj = self_obj
        self.defining_class = defining_class

    def __repr__(self):
        return f"BoundMethod({getattr(self.func, '__qualname__', self.func)}, {self.self_obj!r})"


class HostModel(Value):
    """A model implemented in the verifier: called as f(interp, self_obj, args, kwargs) when used as the function
    of a BoundMethod."""

    def __init__(self, f):
        self.f = f


class _InlinedGenerator(Value):
    """Marker: the generator behind a `yield from` has already run in place."""


class GenObj(Value):
    """An un-started generator of an interpreted generator function."""

    def __init__(self, run, name):
        self.run = run  # callable: () -> list of yielded values (eager expansion)
        self.name = name
        self.items = None
        self.pos = 0

    def expand(self):
        if self.items is None:
            self.items = self.run()
        return self.items


class SuperProxy(Value):
    def __init__(self, obj, after):
        self.obj = obj
        self.after = after


class FStr(Value):
    """A formatted string with symbolic parts (only used for messages and traces)."""

    def __init__(self, parts):
        self.parts = parts

    def __repr__(self):
        return "FStr(" + "".join(p if isinstance(p, str) else "{" + repr(p) + "}" for p in self.parts) + ")"

    def contains_value(self, v):
        return any(p is v for p in self.parts)


class Config:
    """Per-harness configuration of the interpreter."""

    def __init__(self):
        self.contracts = {}  # "module.qualname" -> callable(interp, args, kwargs) -> value
        self.loop_specs = {}  # ("module.qualname", ordinal) -> LoopSpec
        self.anchor_specs = []  # [(module name, text in the loop header, LoopSpec)]: for loops that a refactoring may move into another function of the module
        self.models = {}  # host callable -> model(interp, args, kwargs)
        self.method_models = {}  # (type, name) -> model(interp, self, args, kwargs)
        self.havoc_call = None  # callable(interp, fn, args, kwargs) for unknown callees
        self.on_yield = None  # callable(interp, value)
        self.inline_only = None  # optional set of "module.qualname" allowed to be interpreted
        self.max_unroll = 64
        self.attr_hook = None  # callable(interp, obj, name) -> value | _MISSING
        self.global_overrides = {}  # module-level names replaced by symbolic stand-ins (e.g. a generic registry)
        self.modifies_args = False  # contract: the target may write into arrays reachable from its arguments
        self.inline_generators = set()  # generator functions whose body is run as a trace producer (on_yield hook)


class LoopSpec:
    """Contract of a loop whose trip count is symbolic.

    quote      text that must occur in the loop header (anchor check)
    havoc      callable(interp, frame, k): give every loop-carried variable a fresh value
    inv        callable(interp, frame, k) -> z3 Bool (k = number of completed iterations)
    variant    for while loops: callable(interp, frame) -> z3 Int term that must decrease and stay >= 0
    """

    def __init__(self, quote, havoc, inv, variant=None, name=None):
        self.quote = quote
        self.havoc = havoc
        self.inv = inv
        self.variant = variant
        self.name = name


class AppendLoop:
    """Generic-iteration rule for a loop whose only loop-carried state is a list it appends to:

        for x in seq: <body that only calls LIST.append(...)>

    The body is executed once for a generic index k (0 <= k < len(seq)); what it appends is recorded as a
    `Family` (items as a function of k).  Side condition, checked by the executor: inside the body the list is
    used through `.append` only (any other use is outside the subset).  The loop then denotes the concatenation,
    in order of k, of the per-iteration items."""

    def __init__(self, quote, listvar, name=None):
        self.quote = quote
        self.listvar = listvar
        self.name = name


class Family(Value):
    """Items appended by the iterations k = 0 .. count-1 of a summarised loop, in order."""

    def __init__(self, index, count, items, name):
        self.index = index
        self.count = count
        self.items = items
        self.name = name

    def __repr__(self):
        return f"Family({self.name}: {self.index} < {self.count}, {self.items!r})"


class _Tracker(Value):
    """Stand-in for the list during the generic iteration: append-only."""

    def __init__(self, name):
        self.items = []
        self.name = name

    def getattr_model(self, interp, name):
        if name == "append":
            return BoundMethod(HostModel(lambda interp_, self_obj, args, kwargs: self_obj.items.append(args[0])), self)
        raise OutsideSubset(f"generic-iteration rule: the loop-carried list {self.name} is used through .{name} (only .append is allowed)")


HOST_NATIVE_MODULES = ("builtins", "numpy", "math", "os.path", "posixpath", "fnmatch", "operator", "itertools", "functools", "collections", "re", "shlex", "json", "copy", "numbers", "genericpath")


def all_concrete(v, depth=0):
    if isinstance(v, Value):
        return False
    if depth > 4:
        return True
    if isinstance(v, (list, tuple, set, frozenset)):
        return all(all_concrete(x, depth + 1) for x in v)
    if isinstance(v, dict):
        return all(all_concrete(x, depth + 1) for x in v.values()) and all(all_concrete(x, depth + 1) for x in v.keys())
    return True


class Interp:
    def __init__(self, ctx: Ctx, config: Config):
        self.ctx = ctx
        self.cfg = config
        self.depth = 0
        from . import models  # late import: models registers itself against Interp

        self.models = models

    # ==============================================================================================
    # helpers
    # ==============================================================================================
    def resolve(self, v):
        """Resolve an SOpt by branching."""
        while isinstance(v, SOpt):
            if self.ctx.branch(v.isnone):
                return None
            v = v.val
        return v

    def truth(self, v):
        """Python truthiness -> host bool (branches when symbolic)."""
        v = self.resolve(v)
        if isinstance(v, SBool):
            return self.ctx.branch(v.t)
        if isinstance(v, SInt):
            return self.ctx.branch(v.t != 0)
        if isinstance(v, SReal):
            return self.ctx.branch(v.t != 0)
        if isinstance(v, (SSeq, SList)):
            s = seq_of(v)
            return self.ctx.branch(s.n > 0) if not isinstance(s.length, int) else s.length > 0
        if isinstance(v, SArr):
            if v.ndim == 0 or all(isinstance(s, int) and s == 1 for s in v.shape):
                return self.ctx.branch(v.get(tuple(0 for _ in v.shape)) != 0)
            raise PyRaise(ValueError("The truth value of an array with more than one element is ambiguous."))
        if isinstance(v, (Obj, Opaque, Closure, BoundMethod, GenObj)):
            return True
        if isinstance(v, Label):
            return self.ctx.branch(z3.Or(v.nminus > 0, v.base != ustr("")))
        if isinstance(v, SU):
            if v.pytype is str:
                return self.ctx.branch(v.t != ustr(""))
            return True
        if isinstance(v, FStr):
            return True
        if isinstance(v, Value):
            raise OutsideSubset(f"truth value of {v!r}")
        return bool(v)

    def concrete_int(self, t):
        """If the path condition forces the integer term to one value, return it, else None."""
        if isinstance(t, int):
            return t
        if isinstance(t, SInt):
            t = t.t
        ts = z3.simplify(t)
        if z3.is_int_value(ts):
            return ts.as_long()
        s = self.ctx.solver
        if s.check() != z3.sat:
            return None
        val = s.model().eval(t, model_completion=True)
        if not z3.is_int_value(val):
            return None
        if s.check(t != val) == z3.unsat:
            return val.as_long()
        return None

    def raise_(self, exc):
        raise PyRaise(exc)

    # ==============================================================================================
    # function calls
    # ==============================================================================================
    def call(self, fn, args=(), kwargs=None):
        kwargs = kwargs or {}
        args = list(args)
        self.depth += 1
        if self.depth > 60:
            raise OutsideSubset("call depth > 60")
        try:
            return self._call(fn, args, kwargs)
        finally:
            self.depth -= 1

    def _call(self, fn, args, kwargs):
        cfg = self.cfg
        if isinstance(fn, BoundMethod):
            return self._call_function(fn.func, [fn.self_obj, *args], kwargs, defining_class=fn.defining_class)
        if isinstance(fn, Closure):
            return self._call_function(fn, args, kwargs)
        if isinstance(fn, (Opaque, SU)):
            if cfg.havoc_call is None:
                raise OutsideSubset(f"call of unknown callee {fn!r}")
            return cfg.havoc_call(self, fn, args, kwargs)
        if isinstance(fn, Value):
            raise OutsideSubset(f"call of {fn!r}")
        # host callables -------------------------------------------------------------------
        try:
            model = cfg.models.get(fn) or self.models.MODELS.get(fn)
        except TypeError:
            model = None
        if model is not None:
            return model(self, args, kwargs)
        if isinstance(fn, types.MethodType):
            if isinstance(fn.__func__, types.FunctionType) and fn.__func__.__module__.startswith("iodata"):
                return self._call_function(fn.__func__, [fn.__self__, *args], kwargs)
        if isinstance(fn, types.FunctionType) and (fn.__module__ or "").startswith("iodata"):
            return self._call_function(fn, args, kwargs)
        if isinstance(fn, type):
            return self._call_class(fn, args, kwargs)
        # bound method of a host object
        self_obj = getattr(fn, "__self__", None)
        name = getattr(fn, "__name__", None)
        if self_obj is not None and not isinstance(self_obj, types.ModuleType):
            mm = cfg.method_models.get((type(self_obj), name)) or self.models.METHOD_MODELS.get((type(self_obj), name))
            if mm is not None and not (all_concrete(args) and all_concrete(kwargs)):
                return mm(self, self_obj, args, kwargs)
        if self_obj is not None and name in MUTATING_METHODS:
            check_global_write(self, self_obj, f"call of .{name}()")
        if all_concrete(args) and all_concrete(kwargs):
            return self.native(fn, args, kwargs)
        # host containers may hold symbolic values: methods that neither hash nor compare their arguments
        if type(self_obj) is list and name in ("append", "insert", "pop", "copy", "reverse", "clear"):
            return self.native(fn, args, kwargs)
        if type(self_obj) is list and name == "extend":
            other = self.resolve(args[0])
            if isinstance(other, GenObj):
                other = other.expand()
            if isinstance(other, (list, tuple)):
                return self.native(fn, [other], {})
            raise OutsideSubset("list.extend of a concrete list with a symbolic sequence")
        if type(self_obj) is dict and name == "update" and len(args) == 1 and isinstance(args[0], dict) and all_concrete(list(args[0].keys())) and not kwargs:
            return self.native(fn, args, kwargs)
        if type(self_obj) is dict and (name in ("items", "keys", "values", "copy") or (name in ("update", "setdefault", "__setitem__", "pop") and all_concrete(args[:1]) and all(isinstance(k, str) for k in kwargs))):
            if name == "update" and args and not isinstance(args[0], dict):
                raise OutsideSubset("dict.update with a non-dict")
            return self.native(fn, args, kwargs)
        raise OutsideSubset(f"no model for call of {getattr(fn, '__qualname__', fn)!r} with symbolic arguments")

    def native(self, fn, args, kwargs):
        try:
            return fn(*args, **kwargs)
        except (OutsideSubset, PathAbort, PyRaise, ReturnSig):
            raise
        except Exception as exc:  # noqa: BLE001  -- exception of the interpreted program
            raise PyRaise(exc) from None

    def _call_class(self, cls, args, kwargs):
        import attrs

        if "**" in kwargs:
            if self.cfg.havoc_call is None:
                raise OutsideSubset(f"{cls.__name__}(**<unknown mapping>)")
            return self.cfg.havoc_call(self, Opaque(f"{cls.__name__}(**kwargs)"), args, kwargs)
        if attrs.has(cls):
            return self.models.attrs_construct(self, cls, args, kwargs)
        if (cls.__module__ or "").startswith("iodata"):
            obj = Obj(cls)
            init = self._class_lookup(cls, "__init__")
            if isinstance(init, types.FunctionType) and init.__module__.startswith("iodata"):
                defining = next(c for c in cls.__mro__ if "__init__" in c.__dict__)
                self._call_function(init, [obj, *args], kwargs, defining_class=defining)
            else:
                obj.fields["args"] = tuple(args)
            return obj
        if isinstance(cls, type) and issubclass(cls, BaseException):
            try:
                return cls(*args, **kwargs)
            except Exception as exc:  # noqa: BLE001
                raise PyRaise(exc) from None
        model = self.models.CLASS_MODELS.get(cls)
        if model is not None:
            return model(self, args, kwargs)
        if all_concrete(args) and all_concrete(kwargs):
            return self.native(cls, args, kwargs)
        raise OutsideSubset(f"construction of {cls.__name__} with symbolic arguments")

    def _class_lookup(self, cls, name):
        for c in cls.__mro__:
            if name in c.__dict__:
                return c.__dict__[name]
        return _MISSING

    def _call_function(self, fn, args, kwargs, defining_class=None):
        """Call a function of /repo (host function object) or a Closure."""
        if isinstance(fn, Closure):
            node, modname, glob = fn.node, fn.frame.modname, fn.frame.globals
            key = f"{modname}.{fn.qualname}"
            defaults, kwdefaults = fn.defaults, fn.kwdefaults
            closure = self._closure_env(fn)
            if defining_class is None:
                defining_class = fn.frame.defining_class
        else:
            modname = fn.__module__
            key = f"{modname}.{fn.__qualname__}"
            glob = fn.__globals__
            defaults = list(fn.__defaults__ or ())
            kwdefaults = dict(fn.__kwdefaults__ or {})
            closure = {}
            if fn.__closure__:
                for name, cell in zip(fn.__code__.co_freevars, fn.__closure__):
                    try:
                        closure[name] = Cell(cell.cell_contents)
                    except ValueError:
                        closure[name] = Cell(None)
            node = None
        contract = self.cfg.contracts.get(key)
        if contract is not None:
            return contract(self, args, kwargs)
        if node is None:
            wrapped = getattr(fn, "__wrapped__", None)
            node = source.function_node(fn)
        if self.cfg.inline_only is not None and key not in self.cfg.inline_only:
            raise OutsideSubset(f"call of {key} which has neither a contract nor an inline permission")
        frame = Frame(modname, glob, key, closure)
        frame.func_node = node
        frame.defining_class = defining_class
        self.bind_args(frame, node.args, args, kwargs, defaults, kwdefaults, key)
        if isinstance(node, ast.Lambda):
            return self.eval(node.body, frame)
        if source.is_generator_def(node) and key not in self.cfg.inline_generators:
            if getattr(self, "_inline_next_generator", False):
                self._inline_next_generator = False
                self.run_body(node.body, frame)
                return _InlinedGenerator()
            return self._make_generator(node, frame, key)
        return self.run_body(node.body, frame)

    def _closure_env(self, clo: Closure):
        env = dict(clo.frame.closure)
        fr = clo.frame
        for name in list(fr.locals.keys()):
            cell = fr.cells.get(name)
            if cell is None:
                cell = fr.cells[name] = Cell(fr.locals[name])
            env[name] = cell
        return _LiveEnv(env, fr)

    def _make_generator(self, node, frame, key):
        def run():
            items = []
            saved = self.cfg.on_yield
            self.cfg.on_yield = lambda interp, v: items.append(v)
            try:
                self.run_body(node.body, frame)
            finally:
                self.cfg.on_yield = saved
            return items

        g = GenObj(run, key)
        g.node, g.frame = node, frame
        return g

    def run_body(self, body, frame):
        try:
            self.exec_block(body, frame)
        except ReturnSig as r:
            return r.value
        return None

    def bind_args(self, frame, a: ast.arguments, args, kwargs, defaults, kwdefaults, fname):
        pos = [x.arg for x in a.posonlyargs] + [x.arg for x in a.args]
        args = list(args)
        kwargs = dict(kwargs)
        loc = frame.locals
        for name, val in zip(pos, args):
            loc[name] = val
        extra = args[len(pos) :]
        if a.vararg is not None:
            loc[a.vararg.arg] = tuple(extra)
        elif extra:
            raise PyRaise(TypeError(f"{fname}() takes {len(pos)} positional arguments but {len(args)} were given"))
        ndef = len(defaults)
        for k, name in enumerate(pos):
            if name in loc:
                if name in kwargs:
                    raise PyRaise(TypeError(f"{fname}() got multiple values for argument '{name}'"))
                continue
            if name in kwargs and name not in [x.arg for x in a.posonlyargs]:
                loc[name] = kwargs.pop(name)
            else:
                d = k - (len(pos) - ndef)
                if d >= 0:
                    loc[name] = defaults[d]
                else:
                    raise PyRaise(TypeError(f"{fname}() missing required positional argument: '{name}'"))
        for x in a.kwonlyargs:
            if x.arg in kwargs:
                loc[x.arg] = kwargs.pop(x.arg)
            elif x.arg in kwdefaults:
                loc[x.arg] = kwdefaults[x.arg]
            else:
                raise PyRaise(TypeError(f"{fname}() missing required keyword-only argument: '{x.arg}'"))
        if a.kwarg is not None:
            loc[a.kwarg.arg] = kwargs
        elif kwargs:
            raise PyRaise(TypeError(f"{fname}() got an unexpected keyword argument '{next(iter(kwargs))}'"))

    # ==============================================================================================
    # statements
    # ==============================================================================================
    def exec_block(self, stmts, frame):
        for st in stmts:
            self.exec_stmt(st, frame)

    def exec_stmt(self, st, frame):
        m = getattr(self, "st_" + type(st).__name__, None)
        if m is None:
            raise OutsideSubset(f"statement {type(st).__name__} in {frame.name}")
        return m(st, frame)

    def st_Pass(self, st, frame):
        pass

    def st_Expr(self, st, frame):
        if isinstance(st.value, ast.Yield):
            self._yield(st.value, frame)
            return
        if isinstance(st.value, ast.YieldFrom):
            # `yield from g(...)` with g an interpreted generator function: its body runs here and its yields are ours
            # (send / throw into the delegate are not modelled); any other iterable: one yield per item
            self._inline_next_generator = True
            try:
                v = self.eval(st.value.value, frame)
            finally:
                self._inline_next_generator = False
            if v is None or isinstance(v, _InlinedGenerator):
                return
            for item in self.iterate_concrete(v):
                if self.cfg.on_yield is None:
                    raise OutsideSubset("yield without a generator harness")
                self.cfg.on_yield(self, item)
            return
        if isinstance(st.value, ast.Constant):
            return  # docstring
        self.eval(st.value, frame)

    def _yield(self, node, frame):
        v = self.eval(node.value, frame) if node.value is not None else None
        if self.cfg.on_yield is None:
            raise OutsideSubset("yield without a generator harness")
        return self.cfg.on_yield(self, v)

    def st_Assign(self, st, frame):
        if isinstance(st.value, ast.Yield):
            v = self._yield(st.value, frame)
        else:
            v = self.eval(st.value, frame)
        for tgt in st.targets:
            self.assign(tgt, v, frame)

    def st_AnnAssign(self, st, frame):
        if st.value is not None:
            self.assign(st.target, self.eval(st.value, frame), frame)

    def st_AugAssign(self, st, frame):
        tgt = st.target
        op = _BINOPS[type(st.op)]
        if isinstance(tgt, ast.Name):
            cur = frame.lookup(tgt.id)
            new = self.binop(op, cur, self.eval(st.value, frame), inplace=True)
            self.assign(tgt, new, frame)
        elif isinstance(tgt, ast.Attribute):
            obj = self.eval(tgt.value, frame)
            cur = self.load_attr(obj, tgt.attr)
            new = self.binop(op, cur, self.eval(st.value, frame), inplace=True)
            self.store_attr(obj, tgt.attr, new)
        elif isinstance(tgt, ast.Subscript):
            obj = self.eval(tgt.value, frame)
            idx = self.eval_index(tgt.slice, frame)
            cur = self.subscript(obj, idx)
            new = self.binop(op, cur, self.eval(st.value, frame), inplace=True)
            self.store_subscript(obj, idx, new)
        else:
            raise OutsideSubset("augmented assignment target")

    def assign(self, tgt, v, frame):
        if isinstance(tgt, ast.Name):
            if tgt.id in frame.closure and tgt.id not in frame.locals and getattr(frame, "nonlocals", None) and tgt.id in frame.nonlocals:
                frame.closure[tgt.id].value = v
            else:
                frame.locals[tgt.id] = v
                cell = frame.cells.get(tgt.id)
                if cell is not None:
                    cell.value = v
        elif isinstance(tgt, (ast.Tuple, ast.List)):
            items = self.iterate_concrete(v, len(tgt.elts))
            if len(items) != len(tgt.elts):
                raise PyRaise(ValueError("not enough / too many values to unpack"))
            for t, x in zip(tgt.elts, items):
                self.assign(t, x, frame)
        elif isinstance(tgt, ast.Attribute):
            self.store_attr(self.eval(tgt.value, frame), tgt.attr, v)
        elif isinstance(tgt, ast.Subscript):
            self.store_subscript(self.eval(tgt.value, frame), self.eval_index(tgt.slice, frame), v)
        else:
            raise OutsideSubset(f"assignment target {type(tgt).__name__}")

    def iterate_concrete(self, v, expect=None):
        """Items of an iterable whose length is concrete (or forced by the path condition)."""
        v = self.resolve(v)
        if isinstance(v, (list, tuple)):
            return list(v)
        if isinstance(v, GenObj):
            return list(v.expand())
        s = seq_of(v)
        if s is not None:
            n = self.concrete_int(s.length)
            if n is None:
                if expect is not None:
                    # unpacking: a length mismatch raises ValueError
                    if self.ctx.branch(s.n == expect):
                        n = expect
                    else:
                        raise PyRaise(ValueError("not enough / too many values to unpack"))
                else:
                    raise OutsideSubset("iteration over a sequence of symbolic length needs a loop contract")
            return [s.at(i) for i in range(n)]
        if isinstance(v, Value):
            raise OutsideSubset(f"iteration over {v!r}")
        try:
            return list(v)
        except TypeError as exc:
            raise PyRaise(exc) from None

    def st_Return(self, st, frame):
        raise ReturnSig(self.eval(st.value, frame) if st.value is not None else None)

    def st_Break(self, st, frame):
        raise BreakSig()

    def st_Continue(self, st, frame):
        raise ContinueSig()

    def st_If(self, st, frame):
        if self.truth(self.eval(st.test, frame)):
            self.exec_block(st.body, frame)
        else:
            self.exec_block(st.orelse, frame)

    def st_Assert(self, st, frame):
        if not self.truth(self.eval(st.test, frame)):
            raise PyRaise(AssertionError())

    def st_Global(self, st, frame):
        frame.globals_decl = getattr(frame, "globals_decl", set()) | set(st.names)
        raise OutsideSubset("global statement")

    def st_Nonlocal(self, st, frame):
        frame.nonlocals = getattr(frame, "nonlocals", set()) | set(st.names)

    def st_Import(self, st, frame):
        import importlib

        for alias in st.names:
            mod = importlib.import_module(alias.name)
            if alias.asname:
                frame.locals[alias.asname] = mod
            else:
                frame.locals[alias.name.split(".")[0]] = importlib.import_module(alias.name.split(".")[0])

    def st_ImportFrom(self, st, frame):
        import importlib

        base = frame.modname.rsplit(".", st.level)[0] if st.level else ""
        name = (base + "." if st.level else "") + (st.module or "")
        mod = importlib.import_module(name.rstrip("."))
        for alias in st.names:
            frame.locals[alias.asname or alias.name] = getattr(mod, alias.name)

    def st_Delete(self, st, frame):
        for tgt in st.targets:
            if isinstance(tgt, ast.Name):
                frame.locals.pop(tgt.id, None)
            else:
                raise OutsideSubset("del of a non-name")

    def st_FunctionDef(self, st, frame):
        defaults = [self.eval(d, frame) for d in st.args.defaults]
        kwdefaults = {a.arg: self.eval(d, frame) for a, d in zip(st.args.kwonlyargs, st.args.kw_defaults) if d is not None}
        fn = Closure(st, frame, defaults, kwdefaults, f"{frame.name.split('.', frame.modname.count('.') + 1)[-1]}.<locals>.{st.name}")
        for dec in reversed(st.decorator_list):
            d = self.eval(dec, frame)
            fn = self.call(d, [fn])
        self.assign(ast.Name(id=st.name, ctx=ast.Store()), fn, frame)

    def st_Raise(self, st, frame):
        if st.exc is None:
            cur = getattr(frame, "current_exc", None)
            if cur is None:
                raise PyRaise(RuntimeError("No active exception to reraise"))
            raise cur
        exc = self.eval(st.exc, frame)
        if isinstance(exc, type) and issubclass(exc, BaseException):
            exc = self.call(exc, [])
        cause = self.eval(st.cause, frame) if st.cause is not None else None
        raise PyRaise(exc, cause=cause)

    # ---- try ---------------------------------------------------------------------------------
    def exc_matches(self, exc, cls):
        """Does the interpreted exception `exc` match `except cls`?  host bool (may branch)."""
        if isinstance(cls, tuple):
            return any(self.exc_matches(exc, c) for c in cls)
        if isinstance(exc, SymExc):
            p = exc.cls.sub_pred(cls)
            for ax in exc.cls.hierarchy_axioms():
                self.ctx.assume(ax)
            return self.ctx.branch(p)
        if isinstance(exc, Obj):
            return issubclass(exc.cls, cls)
        return isinstance(exc, cls)

    def st_Try(self, st, frame):
        try:
            try:
                self.exec_block(st.body, frame)
            except PyRaise as pr:
                handled = False
                for h in st.handlers:
                    cls = self.eval(h.type, frame) if h.type is not None else BaseException
                    if self.exc_matches(pr.exc, cls):
                        handled = True
                        if h.name:
                            frame.locals[h.name] = pr.exc
                        saved = getattr(frame, "current_exc", None)
                        frame.current_exc = pr
                        try:
                            self.exec_block(h.body, frame)
                        finally:
                            frame.current_exc = saved
                            if h.name:
                                frame.locals.pop(h.name, None)
                        break
                if not handled:
                    raise
            else:
                self.exec_block(st.orelse, frame)
        except (PyRaise, ReturnSig, BreakSig, ContinueSig):
            if st.finalbody:
                self.exec_block(st.finalbody, frame)
            raise
        else:
            if st.finalbody:
                self.exec_block(st.finalbody, frame)

    # ---- with --------------------------------------------------------------------------------
    def st_With(self, st, frame):
        self._with(st.items, st.body, frame)

    def _with(self, items, body, frame):
        if not items:
            self.exec_block(body, frame)
            return
        item = items[0]
        mgr = self.eval(item.context_expr, frame)
        enter = self.load_attr(mgr, "__enter__")
        exit_ = self.load_attr(mgr, "__exit__")
        val = self.call(enter, [])
        if item.optional_vars is not None:
            self.assign(item.optional_vars, val, frame)
        try:
            self._with(items[1:], body, frame)
        except PyRaise as pr:
            et = pr.exc.cls if isinstance(pr.exc, (Obj, SymExc)) else type(pr.exc)
            sup = self.call(exit_, [et, pr.exc, None])
            if not self.truth(sup):
                raise
        except (ReturnSig, BreakSig, ContinueSig):
            self.call(exit_, [None, None, None])
            raise
        else:
            self.call(exit_, [None, None, None])

    # ---- loops -------------------------------------------------------------------------------
    def _loop_key(self, st, frame):
        loops = source.loops_of(frame.func_node) if frame.func_node is not None else []
        try:
            k = loops.index(st)
        except ValueError:
            k = -1
        return (frame.name, k)

    def _spec_for(self, st, frame):
        spec = self.cfg.loop_specs.get(self._loop_key(st, frame))
        if spec is None and self.cfg.anchor_specs:
            header = ast.unparse(st.iter if isinstance(st, ast.For) else st.test)
            for modname, quote, sp in self.cfg.anchor_specs:
                if frame.name.startswith(modname + ".") and quote in header:
                    return sp
        return spec

    def st_While(self, st, frame):
        spec = self._spec_for(st, frame)
        if spec is not None:
            return self._loop_rule(st, frame, spec, None)
        n = 0
        while self.truth(self.eval(st.test, frame)):
            n += 1
            if n > self.cfg.max_unroll:
                raise OutsideSubset(f"while loop in {frame.name} exceeds {self.cfg.max_unroll} unrolled iterations without a loop contract")
            try:
                self.exec_block(st.body, frame)
            except BreakSig:
                return
            except ContinueSig:
                continue
        self.exec_block(st.orelse, frame)

    def st_For(self, st, frame):
        it = self.resolve(self.eval(st.iter, frame))
        spec = self._spec_for(st, frame)
        seq = None
        if isinstance(it, Obj) and hasattr(it.cls, "__next__") and hasattr(it.cls, "__iter__"):
            # an object of an interpreted iterator class (e.g. LineIterator): `for x in obj` calls obj.__iter__() once and
            # obj.__next__() per iteration; StopIteration ends the loop
            obj = self.call(self.load_attr(it, "__iter__"), [])

            def next_fn(interp, k, want_end, obj=obj):
                try:
                    item = interp.call(interp.load_attr(obj, "__next__"), [])
                except PyRaise as pr:
                    if isinstance(pr.exc, StopIteration):
                        return _MISSING
                    raise
                return item

            it = AbsIter(next_fn, tag=f"iter({it.tag})")
        if isinstance(it, AbsIter):
            if spec is None:
                raise OutsideSubset(f"loop over an abstract iterator in {frame.name} needs a loop contract")
            return self._loop_rule(st, frame, spec, it)
        if isinstance(it, (SSeq, SList, SArr)):
            seq = seq_of(it)
            if self.concrete_int(seq.length) is None:
                if spec is None:
                    raise OutsideSubset(f"loop over a sequence of symbolic length in {frame.name} (loop {self._loop_key(st, frame)[1]}) needs a loop contract")
                return self._loop_rule(st, frame, spec, seq)
        items = self.iterate_concrete(it)
        if len(items) > 4096:
            raise OutsideSubset("loop too long to unroll")
        for x in items:
            self.assign(st.target, x, frame)
            try:
                self.exec_block(st.body, frame)
            except BreakSig:
                return
            except ContinueSig:
                continue
        self.exec_block(st.orelse, frame)

    def _append_loop(self, st, frame, spec: AppendLoop, seq):
        ctx = self.ctx
        header = ast.unparse(st.iter)
        name = spec.name or f"loop{self._loop_key(st, frame)[1]}"
        if spec.quote not in header:
            ctx.ledger.record(f"{frame.name}::{name}.anchor", "anchor", "unknown", "eval", 0.0, detail=f"contract-anchor-moved: expected '{spec.quote}' in '{header}'")
            raise OutsideSubset("contract-anchor-moved")
        if st.orelse:
            raise OutsideSubset("generic-iteration rule: loop with else clause")
        lst = frame.locals[spec.listvar]
        if not isinstance(lst, (list, _Tracker)):
            raise OutsideSubset("generic-iteration rule: the list is not a plain list at loop entry")
        ctx.ledger.record(f"{frame.name}::{name}.append-only", "frame", "discharged", "executor", 0.0)
        if not ctx.branch(seq.n > 0):
            return
        k = ctx.fresh_int(f"{name}.k")
        ctx.assume(z3.And(k >= 0, k < seq.n))
        tracker = _Tracker(spec.listvar)
        frame.locals[spec.listvar] = tracker
        try:
            self.assign(st.target, seq.at(k), frame)
            try:
                self.exec_block(st.body, frame)
            except ContinueSig:
                pass
            except BreakSig:
                raise OutsideSubset("generic-iteration rule: break in a summarised loop") from None
        except OutsideSubset as exc:
            if "only .append is allowed" in str(exc):
                ctx.ledger.record(f"{frame.name}::{name}.append-only", "frame", "unknown", "executor", 0.0, detail=str(exc))
            raise
        finally:
            frame.locals[spec.listvar] = lst
        fam = Family(k, seq.n, tracker.items, name)
        if isinstance(lst, _Tracker):
            lst.items.append(fam)
        else:
            lst.append(fam)

    def _loop_rule(self, st, frame, spec: LoopSpec, seq):
        if isinstance(spec, AppendLoop):
            return self._append_loop(st, frame, spec, seq)
        ctx = self.ctx
        header = ast.unparse(st.iter if isinstance(st, ast.For) else st.test)
        name = spec.name or f"loop{self._loop_key(st, frame)[1]}"
        if spec.quote not in header:
            ctx.ledger.record(f"{frame.name}::{name}.anchor", "anchor", "unknown", "eval", 0.0, detail=f"contract-anchor-moved: expected '{spec.quote}' in '{header}'")
            raise OutsideSubset("contract-anchor-moved")
        # 1. invariant holds on entry
        ctx.prove(f"{frame.name}::{name}.inv-init", spec.inv(self, frame, z3.IntVal(0)), kind="inv-init")
        generic = ctx.branch(z3.Bool(ctx.fresh(f"{name}.generic")))
        k = ctx.fresh_int(f"{name}.k")
        ctx.assume(k >= 0)
        spec.havoc(self, frame, k)
        ctx.assume(spec.inv(self, frame, k))
        if generic:
            # 2. one arbitrary iteration preserves the invariant
            if isinstance(st, ast.For):
                if isinstance(seq, AbsIter):
                    item = seq.next(self, k)  # may raise (propagates) or signal exhaustion
                    if item is _MISSING:
                        raise PathAbort()
                else:
                    ctx.assume(k < seq.n)
                    item = seq.at(k)
                self.assign(st.target, item, frame)
            else:
                before = spec.variant(self, frame) if spec.variant else None
                if not self.truth(self.eval(st.test, frame)):
                    raise PathAbort()
            try:
                self.exec_block(st.body, frame)
            except BreakSig:
                return  # leaves the loop with the current state
            except ContinueSig:
                pass
            ctx.prove(f"{frame.name}::{name}.inv-step", spec.inv(self, frame, k + 1), kind="inv-step")
            if isinstance(st, ast.While) and spec.variant:
                after = spec.variant(self, frame)
                ctx.prove(f"{frame.name}::{name}.decreases", z3.And(before >= 0, after < before), kind="decreases")
            raise PathAbort()  # the continuation is covered by the exit case
        # 3. exit: invariant and negated condition
        if isinstance(st, ast.For):
            if isinstance(seq, AbsIter):
                item = seq.next(self, k, want_end=True)
                if item is not _MISSING:
                    raise PathAbort()
            else:
                ctx.assume(k == seq.n)
        else:
            if self.truth(self.eval(st.test, frame)):
                raise PathAbort()
        self.exec_block(st.orelse, frame)

    # ==============================================================================================
    # expressions
    # ==============================================================================================
    def eval(self, node, frame):
        m = getattr(self, "ex_" + type(node).__name__, None)
        if m is None:
            raise OutsideSubset(f"expression {type(node).__name__} in {frame.name}")
        return m(node, frame)

    def ex_Constant(self, node, frame):
        return node.value

    def ex_Name(self, node, frame):
        ov = self.cfg.global_overrides
        if ov and node.id in ov and node.id not in frame.locals and node.id not in frame.closure:
            return ov[node.id]
        v = frame.lookup(node.id)
        if isinstance(v, SOpt):
            v = self.resolve(v)
            if node.id in frame.locals:
                frame.locals[node.id] = v
        return v

    def ex_Attribute(self, node, frame):
        return self.load_attr(self.eval(node.value, frame), node.attr)

    def ex_Tuple(self, node, frame):
        return tuple(self._elts(node.elts, frame))

    def ex_List(self, node, frame):
        return list(self._elts(node.elts, frame))

    def ex_Set(self, node, frame):
        return set(self._elts(node.elts, frame))

    def _elts(self, elts, frame):
        out = []
        for e in elts:
            if isinstance(e, ast.Starred):
                out.extend(self.iterate_concrete(self.eval(e.value, frame)))
            else:
                out.append(self.eval(e, frame))
        return out

    def ex_Dict(self, node, frame):
        d = {}
        for k, v in zip(node.keys, node.values):
            if k is None:
                d.update(self.eval(v, frame))
            else:
                d[self.eval(k, frame)] = self.eval(v, frame)
        return d

    def ex_IfExp(self, node, frame):
        if self.truth(self.eval(node.test, frame)):
            return self.eval(node.body, frame)
        return self.eval(node.orelse, frame)

    def ex_Lambda(self, node, frame):
        defaults = [self.eval(d, frame) for d in node.args.defaults]
        return Closure(node, frame, defaults, {}, f"{frame.name}.<lambda>")

    def ex_BoolOp(self, node, frame):
        is_and = isinstance(node.op, ast.And)
        v = None
        for e in node.values:
            v = self.eval(e, frame)
            t = self.truth(v)
            if is_and and not t:
                return v
            if not is_and and t:
                return v
        return v

    def ex_UnaryOp(self, node, frame):
        v = self.resolve(self.eval(node.operand, frame))
        if isinstance(node.op, ast.Not):
            return not self.truth(v)
        if isinstance(node.op, ast.USub):
            if isinstance(v, SArr):
                return v.map1(lambda t: -t)
            if is_sym(v):
                return binop("-", 0, v)
            return self.native(lambda x: -x, [v], {})
        if isinstance(node.op, ast.UAdd):
            return v
        raise OutsideSubset("unary operator")

    def ex_BinOp(self, node, frame):
        a = self.eval(node.left, frame)
        b = self.eval(node.right, frame)
        return self.binop(_BINOPS[type(node.op)], a, b)

    def binop(self, op, a, b, inplace=False):
        a, b = self.resolve(a), self.resolve(b)
        if a is None or b is None:
            raise PyRaise(TypeError(f"unsupported operand type(s) for {op}: NoneType"))
        if not is_sym(a) and not is_sym(b):
            import operator as o

            f = {"+": o.add, "-": o.sub, "*": o.mul, "/": o.truediv, "//": o.floordiv, "%": o.mod, "**": o.pow, "@": o.matmul, "&": o.and_, "|": o.or_}[op]
            if inplace and isinstance(a, list) and op == "+":
                a.extend(b)
                return a
            return self.native(f, [a, b], {})
        if op == "+" and (isinstance(a, (SSeq, SList, FStr)) or isinstance(b, (SSeq, SList, FStr)) or isinstance(a, str) or isinstance(b, str)):
            return self.models.concat(self, a, b, inplace)
        if op == "%" and isinstance(a, str):
            return FStr([a, b])
        if isinstance(a, SArr) or isinstance(b, SArr):
            a0 = a
            a, b = self._same_shape(a, b)
            if inplace and isinstance(a0, SArr):
                if a is not a0:
                    raise PyRaise(ValueError("non-broadcastable output operand"))
                new = SArr.elementwise(op, a.copy(), b)
                self.models.arr_write_all(self, a, new)
                return a
            return SArr.elementwise(op, a, b)
        if op == "**":
            if isinstance(b, int) and b >= 0:
                r = 1
                for _ in range(b):
                    r = binop("*", r, a) if is_sym(r) or is_sym(a) else r * a
                return r
            raise OutsideSubset("power with symbolic exponent")
        return binop(op, a, b)

    def _same_shape(self, a, b):
        """numpy shape compatibility of two arrays of equal rank; returns the operands, an extent-1 axis being
        replaced by a broadcast view.  Raises ValueError like numpy when the extents are incompatible."""
        if isinstance(a, SArr) and isinstance(b, SArr):
            if a.ndim != b.ndim:
                raise OutsideSubset("broadcast between different ranks")
            for ax, (x, y) in enumerate(zip(a.shape, b.shape)):
                tx, ty = (z3.IntVal(x) if isinstance(x, int) else x), (z3.IntVal(y) if isinstance(y, int) else y)
                if not self.ctx.branch(tx == ty):
                    if self.ctx.branch(tx == 1):
                        a = _broadcast_axis(a, ax, y)
                    elif self.ctx.branch(ty == 1):
                        b = _broadcast_axis(b, ax, x)
                    else:
                        raise PyRaise(ValueError("operands could not be broadcast together"))
        return a, b

    def ex_Compare(self, node, frame):
        left = self.eval(node.left, frame)
        result = True
        for op, rnode in zip(node.ops, node.comparators):
            right = self.eval(rnode, frame)
            r = self.compare(op, left, right)
            if len(node.ops) == 1:
                return r
            if not self.truth(r):
                return False
            result = r
            left = right
        return result

    def compare(self, op, a, b):
        a, b = self.resolve(a), self.resolve(b)
        if isinstance(op, ast.Is):
            return self._is(a, b)
        if isinstance(op, ast.IsNot):
            return not self._is(a, b)
        if isinstance(op, (ast.In, ast.NotIn)):
            r = self.models.contains(self, b, a)
            if isinstance(op, ast.NotIn):
                return (not r) if isinstance(r, bool) else wrap(z3.Not(to_z3(r)))
            return r
        sym = _CMPOPS[type(op)]
        if not is_sym(a) and not is_sym(b):
            import operator as o

            f = {"==": o.eq, "!=": o.ne, "<": o.lt, "<=": o.le, ">": o.gt, ">=": o.ge}[sym]
            return self.native(f, [a, b], {})
        if isinstance(a, (SSeq, SList, tuple, list)) and isinstance(b, (SSeq, SList, tuple, list)) and sym in ("==", "!="):
            r = self.models.seq_equal(self, a, b)
            return r if sym == "==" else ((not r) if isinstance(r, bool) else wrap(z3.Not(to_z3(r))))
        if isinstance(a, SArr) or isinstance(b, SArr):
            a, b = self._same_shape(self.models.as_array(self, a), self.models.as_array(self, b))
            return SArr.elementwise(sym, a, b)
        if isinstance(a, (Obj, Opaque)) or isinstance(b, (Obj, Opaque)):
            if sym == "==":
                return a is b
            if sym == "!=":
                return a is not b
        if isinstance(a, self.models.SSet) or isinstance(b, self.models.SSet):
            r = self.models.set_equal(self, a, b)
            return r if sym == "==" else wrap(z3.Not(to_z3(r)))
        return compare(sym, a, b)

    def _is(self, a, b):
        if a is None or b is None:
            return a is None and b is None
        return a is b

    def ex_Subscript(self, node, frame):
        obj = self.eval(node.value, frame)
        idx = self.eval_index(node.slice, frame)
        return self.subscript(obj, idx)

    def eval_index(self, node, frame):
        if isinstance(node, ast.Slice):
            return slice(*(self.eval(x, frame) if x is not None else None for x in (node.lower, node.upper, node.step)))
        if isinstance(node, ast.Tuple):
            return tuple(self.eval_index(e, frame) for e in node.elts)
        return self.eval(node, frame)

    def subscript(self, obj, idx):
        return self.models.subscript(self, self.resolve(obj), idx)

    def store_subscript(self, obj, idx, v):
        return self.models.store_subscript(self, self.resolve(obj), idx, v)

    def ex_Call(self, node, frame):
        # super() needs the frame
        if isinstance(node.func, ast.Name) and node.func.id == "super" and not node.args:
            return SuperProxy(frame.locals[next(iter(frame.locals))], frame.defining_class)
        fn = self.eval(node.func, frame)
        args = []
        for a in node.args:
            if isinstance(a, ast.Starred):
                args.extend(self.iterate_concrete(self.eval(a.value, frame)))
            else:
                args.append(self.eval(a, frame))
        kwargs = {}
        for kw in node.keywords:
            if kw.arg is None:
                d = self.eval(kw.value, frame)
                if isinstance(d, dict):
                    kwargs.update(d)
                else:
                    kwargs["**"] = d
            else:
                kwargs[kw.arg] = self.eval(kw.value, frame)
        return self.call(fn, args, kwargs)

    def ex_JoinedStr(self, node, frame):
        parts = []
        for v in node.values:
            if isinstance(v, ast.Constant):
                parts.append(v.value)
            else:
                val = self.resolve(self.eval(v.value, frame))
                spec = self.eval(v.format_spec, frame) if v.format_spec is not None else ""
                if not is_sym(val) and all_concrete(val) and isinstance(spec, str):
                    if v.conversion == ord("r"):
                        val = repr(val)
                    elif v.conversion == ord("s"):
                        val = str(val)
                    try:
                        parts.append(format(val, spec))
                    except Exception as exc:  # noqa: BLE001
                        raise PyRaise(exc) from None
                else:
                    parts.append(self.models.format_value(self, val, spec, v.conversion))
        if all(isinstance(p, str) for p in parts):
            return "".join(parts)
        flat = []
        for p in parts:
            if isinstance(p, FStr):
                flat.extend(p.parts)
            else:
                flat.append(p)
        return FStr(flat)

    def ex_FormattedValue(self, node, frame):
        return self.ex_JoinedStr(ast.JoinedStr(values=[node]), frame)

    # ---- comprehensions --------------------------------------------------------------------------
    def ex_ListComp(self, node, frame):
        return self._comp(node, frame, "list")

    def ex_GeneratorExp(self, node, frame):
        return self._comp(node, frame, "gen")

    def ex_SetComp(self, node, frame):
        r = self._comp(node, frame, "list")
        if isinstance(r, list):
            return set(r)
        return self.models.SSet(seq_of(r))

    def ex_DictComp(self, node, frame):
        out = {}
        sub = self._comp_frame(frame)

        def rec(gens):
            if not gens:
                out[self.eval(node.key, sub)] = self.eval(node.value, sub)
                return
            g = gens[0]
            for x in self.iterate_concrete(self.eval(g.iter, sub)):
                self.assign(g.target, x, sub)
                if all(self.truth(self.eval(c, sub)) for c in g.ifs):
                    rec(gens[1:])

        rec(node.generators)
        return out

    def _comp_frame(self, frame):
        sub = Frame(frame.modname, frame.globals, frame.name, frame.closure)
        sub.locals = _ChainLocals(frame.locals)
        sub.func_node = frame.func_node
        sub.defining_class = frame.defining_class
        return sub

    def _comp(self, node, frame, kind):
        sub = self._comp_frame(frame)
        if len(node.generators) == 1:
            g = node.generators[0]
            it = self.resolve(self.eval(g.iter, sub))
            s = seq_of(it) if isinstance(it, (SSeq, SList, SArr)) else None
            if s is not None and self.concrete_int(s.length) is None:
                return self.models.symbolic_map(self, node, g, s, sub, kind)
        out = []

        def rec(gens):
            if not gens:
                out.append(self.eval(node.elt, sub))
                return
            g = gens[0]
            for x in self.iterate_concrete(self.eval(g.iter, sub)):
                self.assign(g.target, x, sub)
                if all(self.truth(self.eval(c, sub)) for c in g.ifs):
                    rec(gens[1:])

        rec(node.generators)
        return out

    # ==============================================================================================
    # attributes
    # ==============================================================================================
    def load_attr(self, obj, name):
        obj = self.resolve(obj)
        if self.cfg.attr_hook is not None:
            r = self.cfg.attr_hook(self, obj, name)
            if r is not _MISSING:
                return r
        if isinstance(obj, Obj):
            return self._obj_getattr(obj, name)
        if isinstance(obj, SuperProxy):
            return self.models.super_getattr(self, obj, name)
        if isinstance(obj, Value):
            return self.models.value_getattr(self, obj, name)
        if obj is None:
            raise PyRaise(AttributeError(f"'NoneType' object has no attribute '{name}'"))
        try:
            v = getattr(obj, name)
        except AttributeError as exc:
            raise PyRaise(exc) from None
        return v

    def _obj_getattr(self, obj: Obj, name):
        if name in obj.fields:
            v = obj.fields[name]
            if isinstance(v, SOpt):
                v = self.resolve(v)
                obj.fields[name] = v
            return v
        if name == "__class__":
            return obj.cls
        attr = self._class_lookup(obj.cls, name)
        if attr is _MISSING:
            raise PyRaise(AttributeError(f"'{obj.cls.__name__}' object has no attribute '{name}'"))
        defining = next(c for c in obj.cls.__mro__ if name in c.__dict__)
        if isinstance(attr, property):
            return self._call_function(attr.fget, [obj], {}, defining_class=defining)
        if isinstance(attr, types.FunctionType):
            return BoundMethod(attr, obj, defining)
        if isinstance(attr, staticmethod):
            return attr.__func__
        if isinstance(attr, classmethod):
            return BoundMethod(attr.__func__, obj.cls, defining)
        if type(attr).__name__ in ("member_descriptor", "wrapper_descriptor", "method_descriptor", "getset_descriptor"):
            if type(attr).__name__ == "member_descriptor":
                raise PyRaise(AttributeError(f"'{obj.cls.__name__}' object has no attribute '{name}'"))
            return self.models.object_builtin_method(self, obj, name, attr)
        return attr

    def store_attr(self, obj, name, v):
        obj = self.resolve(obj)
        if isinstance(obj, Obj):
            return self.models.obj_setattr(self, obj, name, v)
        if isinstance(obj, Value):
            return self.models.value_setattr(self, obj, name, v)
        try:
            setattr(obj, name, v)
        except Exception as exc:  # noqa: BLE001
            raise PyRaise(exc) from None


def _broadcast_axis(arr, ax, extent):
    """View of `arr` (extent 1 along `ax`) repeated `extent` times along that axis."""
    shape = list(arr.shape)
    shape[ax] = extent
    return SArr(shape, None, arr.dtype, base=arr, to_base=lambda idx, ax=ax: tuple(z3.IntVal(0) if k == ax else i for k, i in enumerate(idx)))


_GLOBAL_IDS = None
MUTATING_METHODS = {"append", "extend", "insert", "pop", "remove", "clear", "sort", "reverse", "update", "setdefault", "popitem", "add", "discard", "fill", "resize", "put", "itemset", "setflags", "__setitem__", "__delitem__"}


def global_ids():
    """ids of all mutable containers reachable from the globals of the iodata modules (at most 3 levels)."""
    global _GLOBAL_IDS
    if _GLOBAL_IDS is None:
        import sys

        import numpy as np

        ids = {}

        def visit(v, path, depth):
            if isinstance(v, (dict, list, set, np.ndarray)):
                if id(v) in ids:
                    return
                ids[id(v)] = path
                if depth < 3:
                    if isinstance(v, dict):
                        for k, x in list(v.items())[:500]:
                            visit(x, f"{path}[{k!r}]", depth + 1)
                    elif isinstance(v, list):
                        for k, x in enumerate(v[:500]):
                            visit(x, f"{path}[{k}]", depth + 1)

        for name, mod in list(sys.modules.items()):
            if name == "iodata" or name.startswith("iodata."):
                for k, v in list(vars(mod).items()):
                    if not k.startswith("__"):
                        visit(v, f"{name}.{k}", 0)
        _GLOBAL_IDS = ids
    return _GLOBAL_IDS


def check_global_write(interp, obj, how):
    """Frame obligation: no statement mutates an object reachable from module-level state."""
    path = global_ids().get(id(obj))
    if path is not None:
        interp.ctx.ledger.record(f"{interp.ctx.target}::frame.no-write-to-module-state", "frame", "refuted", "provenance", 0.0, detail=f"{how} mutates module-level object {path}")
    else:
        interp.ctx.ledger.record(f"{interp.ctx.target}::frame.no-write-to-module-state", "frame", "discharged", "provenance", 0.0)


class AbsIter(Value):
    """Abstract iterator given by a contract: `next(interp, k)` returns the k-th item, raises PyRaise,
    or returns _MISSING when exhausted.  With want_end=True only the exhausted outcome is wanted."""

    def __init__(self, next_fn, tag="iter"):
        self.next_fn = next_fn
        self.tag = tag

    def next(self, interp, k, want_end=False):
        return self.next_fn(interp, k, want_end)


class _ChainLocals(dict):
    """Locals of a comprehension scope: reads fall through to the enclosing scope."""

    def __init__(self, parent):
        super().__init__()
        self.parent = parent

    def __contains__(self, k):
        return dict.__contains__(self, k) or k in self.parent

    def __getitem__(self, k):
        if dict.__contains__(self, k):
            return dict.__getitem__(self, k)
        return self.parent[k]

    def get(self, k, d=None):
        return self[k] if k in self else d


class _LiveEnv(dict):
    """Closure environment that reads the defining frame's current locals."""

    def __init__(self, env, frame):
        super().__init__(env)
        self.frame = frame

    def __contains__(self, k):
        return dict.__contains__(self, k) or k in self.frame.locals

    def __getitem__(self, k):
        if k in self.frame.locals:
            cell = self.frame.cells.get(k)
            if cell is None:
                cell = self.frame.cells[k] = Cell(self.frame.locals[k])
            else:
                cell.value = self.frame.locals[k]
            return cell
        return dict.__getitem__(self, k)


_BINOPS = {
    ast.Add: "+",
    ast.Sub: "-",
    ast.Mult: "*",
    ast.Div: "/",
    ast.FloorDiv: "//",
    ast.Mod: "%",
    ast.Pow: "**",
    ast.MatMult: "@",
    ast.BitAnd: "&",
    ast.BitOr: "|",
}
_CMPOPS = {ast.Eq: "==", ast.NotEq: "!=", ast.Lt: "<", ast.LtE: "<=", ast.Gt: ">", ast.GtE: ">="}
