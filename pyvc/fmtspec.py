"""Static analysis of the records a writer prints: every run re-reads the writer's source.

A *record* is the argument of a print(..., file=f) / f.write(...) call in a function reachable from the format
module's dump_one / dump_many (plus module-level tables of formatting lambdas, as xyz.DEFAULT_ATOM_COLUMNS).  It is
flattened into literal text and replacement fields with their format specs:
    "ATOM  " + out1 + out2      (out1, out2 assigned once in the same function to f-strings)
    " ".join(f"{e: .12f}" for e in ener[j:j+5])      -> a repeated field with separator " "
Two families of obligations are generated from the records (see checks/c02.py, checks/c15.py):
  * separation: adjacent fields of a record that the reader splits on white space have white space between them;
  * stability: printing a number that was parsed from this very field gives the same text again.
"""

from __future__ import annotations

import ast
import re
import string
from dataclasses import dataclass, field

from . import source

SPEC_RE = re.compile(r"^(?:(?P<fill>.)?(?P<align>[<>=^]))?(?P<sign>[-+ ])?(?P<alt>#)?(?P<zero>0)?(?P<width>\d+)?(?P<group>[,_])?(?:\.(?P<prec>\d+))?(?P<type>[a-zA-Z%])?$")


@dataclass
class Field:
    expr: str
    spec: str | None  # None: dynamic spec
    conv: str = ""
    line: int = 0
    node: object = None  # AST of the printed expression
    fn: object = None  # enclosing FunctionDef
    module: str = ""

    def parsed(self):
        if self.spec is None:
            return None
        m = SPEC_RE.match(self.spec)
        return m.groupdict() if m else None

    @property
    def kind(self):
        p = self.parsed()
        if p is None:
            return "dynamic"
        t = p["type"]
        if t in ("f", "F", "e", "E", "g", "G", "%"):
            return "float"
        if t in ("d", "x", "X", "o", "b", "n", "c"):
            return "int"
        if t == "s":
            return "str"
        return "default"  # no type: str() / repr-like formatting of the value


@dataclass
class Record:
    module: str
    func: str
    line: int
    parts: list = field(default_factory=list)  # ("lit", text) | ("field", Field) | ("rep", sep|None, [parts]) | ("opaque", src)
    end: str = "\n"
    in_loop: bool = False

    def text(self):
        def show(parts):
            out = ""
            for p in parts:
                if p[0] == "lit":
                    out += p[1]
                elif p[0] == "field":
                    out += "{" + p[1].expr + (":" + p[1].spec if p[1].spec else "") + "}"
                elif p[0] == "rep":
                    out += "<" + show(p[2]) + ">*" + repr(p[1])
                else:
                    out += "<?" + p[1] + "?>"
            return out

        return show(self.parts)


def _funcs(tree):
    return {n.name: n for n in tree.body if isinstance(n, ast.FunctionDef)}


def writer_functions(modname):
    """Functions of the module reachable from dump_one / dump_many (+ prepare_dump is not a writer)."""
    tree, _ = source.module_ast(modname)
    funcs = _funcs(tree)
    seen, todo = [], [n for n in ("dump_one", "dump_many") if n in funcs]
    imported = {}
    for node in tree.body:
        if isinstance(node, ast.ImportFrom) and node.level >= 1 and node.module:
            base = modname.rsplit(".", node.level)[0] if node.level == 1 else modname.rsplit(".", node.level)[0]
            for a in node.names:
                imported[a.asname or a.name] = (base + "." + node.module, a.name)
    out = []
    while todo:
        name = todo.pop()
        if name in seen:
            continue
        seen.append(name)
        if isinstance(name, tuple):
            m, fn = name
            t2, _ = source.module_ast(m)
            node = _funcs(t2).get(fn)
            if node is None:
                continue
            out.append((m, node))
            continue
        node = funcs[name]
        out.append((modname, node))
        for sub in ast.walk(node):
            if isinstance(sub, ast.Call) and isinstance(sub.func, ast.Name):
                if sub.func.id in funcs:
                    todo.append(sub.func.id)
                elif sub.func.id in imported and imported[sub.func.id][0].startswith("iodata.formats"):
                    todo.append(imported[sub.func.id])
    return out


def _is_message(node):
    """Inside raise / warn(...) / an Error(...) constructor: not file content."""
    cur = node
    while cur is not None:
        if isinstance(cur, ast.Raise):
            return True
        if isinstance(cur, ast.Call):
            f = cur.func
            name = f.id if isinstance(f, ast.Name) else (f.attr if isinstance(f, ast.Attribute) else "")
            if name == "warn" or name.endswith("Error") or name.endswith("Warning"):
                return True
        cur = getattr(cur, "_parent", None)
    return False


class _Flattener:
    def __init__(self, fn_node, text, modname="", tree=None):
        self.fn = fn_node
        self.text = text
        self.modname = modname
        self.tree = tree
        self.funcs = _funcs(tree) if tree is not None else {}
        # module-level string constants (format templates such as wfn.FMT_ATM)
        self.consts = {}
        if tree is not None:
            for node in tree.body:
                if isinstance(node, ast.Assign) and len(node.targets) == 1 and isinstance(node.targets[0], ast.Name) and isinstance(node.value, ast.Constant) and isinstance(node.value.value, str):
                    self.consts[node.targets[0].id] = node.value
        # names assigned exactly once in the function
        self.assign = {}
        counts = {}
        if fn_node is not None:
            for sub in ast.walk(fn_node):
                if isinstance(sub, ast.Assign) and len(sub.targets) == 1 and isinstance(sub.targets[0], ast.Name):
                    counts[sub.targets[0].id] = counts.get(sub.targets[0].id, 0) + 1
                    self.assign[sub.targets[0].id] = sub.value
                elif isinstance(sub, (ast.AugAssign, ast.For, ast.comprehension)):
                    tgt = sub.target
                    for n in ast.walk(tgt):
                        if isinstance(n, ast.Name):
                            counts[n.id] = counts.get(n.id, 0) + 2
        self.assign = {k: v for k, v in self.assign.items() if counts.get(k) == 1}

    def src(self, node):
        return ast.get_source_segment(self.text, node) or ast.dump(node)

    def flat(self, node, depth=0):
        if isinstance(node, ast.Constant) and isinstance(node.value, str):
            return [("lit", node.value)]
        if isinstance(node, ast.JoinedStr):
            out = []
            for v in node.values:
                if isinstance(v, ast.Constant):
                    out.append(("lit", v.value))
                else:
                    spec = ""
                    if v.format_spec is not None:
                        if all(isinstance(x, ast.Constant) for x in v.format_spec.values):
                            spec = "".join(x.value for x in v.format_spec.values)
                        else:
                            spec = None
                    conv = {-1: "", 115: "s", 114: "r", 97: "a"}[v.conversion]
                    out.append(("field", Field(self.src(v.value), spec, conv, v.lineno, v.value, self.fn, self.modname)))
            return out
        if isinstance(node, ast.BinOp) and isinstance(node.op, ast.Add):
            return self.flat(node.left, depth) + self.flat(node.right, depth)
        if isinstance(node, ast.Name) and node.id in self.assign and depth < 4:
            val = self.assign[node.id]
            if isinstance(val, (ast.JoinedStr, ast.BinOp, ast.Call)) or (isinstance(val, ast.Constant) and isinstance(val.value, str)):
                got = self.flat(val, depth + 1)
                if not (len(got) == 1 and got[0][0] == "opaque"):
                    return got
        if isinstance(node, ast.Call) and isinstance(node.func, ast.Name) and node.func.id in self.funcs and depth < 4:
            # a module-level helper that only returns a formatted string: its record is the returned expression
            helper = self.funcs[node.func.id]
            body = [st for st in helper.body if not (isinstance(st, ast.Expr) and isinstance(st.value, ast.Constant))]
            if len(body) == 1 and isinstance(body[0], ast.Return) and body[0].value is not None:
                got = _Flattener(helper, self.text, self.modname, self.tree).flat(body[0].value, depth + 1)
                if not (len(got) == 1 and got[0][0] == "opaque"):
                    return got
        if isinstance(node, ast.Call):
            f = node.func
            # sep.join(<generator or list comprehension of a record>)
            if isinstance(f, ast.Attribute) and f.attr == "join" and isinstance(f.value, ast.Constant) and isinstance(f.value.value, str) and len(node.args) == 1:
                arg = node.args[0]
                if isinstance(arg, (ast.GeneratorExp, ast.ListComp)):
                    return [("rep", f.value.value, self.flat(arg.elt, depth + 1))]
                return [("rep", f.value.value, [("opaque", self.src(arg))])]
            # "literal {:8.3f}".format(a, b)
            tmpl = None
            if isinstance(f, ast.Attribute) and f.attr == "format":
                if isinstance(f.value, ast.Constant) and isinstance(f.value.value, str):
                    tmpl = f.value.value
                elif isinstance(f.value, ast.Name) and f.value.id in self.consts and f.value.id not in self.assign:
                    tmpl = self.consts[f.value.id].value
            if tmpl is not None and not any(isinstance(a, ast.Starred) for a in node.args):
                out, k = [], 0
                for lit, name, spec, conv in string.Formatter().parse(tmpl):
                    if lit:
                        out.append(("lit", lit))
                    if name is not None:
                        anode = None
                        if name == "" and k < len(node.args):
                            anode = node.args[k]
                            k += 1
                        elif name.isdigit() and int(name) < len(node.args):
                            anode = node.args[int(name)]
                        expr = self.src(anode) if anode is not None else name
                        out.append(("field", Field(expr, spec or "", conv or "", node.lineno, anode, self.fn, self.modname)))
                return out
            # str.ljust / rjust keep their receiver first
        if isinstance(node, ast.BinOp) and isinstance(node.op, ast.Mod) and isinstance(node.left, ast.Constant) and isinstance(node.left.value, str):
            out = []
            args = node.right.elts if isinstance(node.right, ast.Tuple) else [node.right]
            k = 0
            pos = 0
            for m in re.finditer(r"%([-+ #0]*)(\d+)?(?:\.(\d+))?([a-zA-Z%])", node.left.value):
                if m.start() > pos:
                    out.append(("lit", node.left.value[pos : m.start()]))
                pos = m.end()
                if m.group(4) == "%":
                    out.append(("lit", "%"))
                    continue
                flags = m.group(1)
                spec = ("<" if "-" in flags else "") + (" " if " " in flags else "") + ("+" if "+" in flags else "") + ("0" if "0" in flags else "") + (m.group(2) or "") + ("." + m.group(3) if m.group(3) else "") + m.group(4)
                anode = args[k] if k < len(args) else None
                expr = self.src(anode) if anode is not None else "?"
                k += 1
                out.append(("field", Field(expr, spec, "", node.lineno, anode, self.fn, self.modname)))
            if pos < len(node.left.value):
                out.append(("lit", node.left.value[pos:]))
            return out
        return [("opaque", self.src(node))]


def _in_loop(node, stop):
    cur = getattr(node, "_parent", None)
    while cur is not None and cur is not stop:
        if isinstance(cur, (ast.For, ast.While)):
            return True
        cur = getattr(cur, "_parent", None)
    return False


def records(modname):
    """All records printed by the writer functions of a format module."""
    out = []
    for m, fn in writer_functions(modname):
        mtree, text = source.module_ast(m)
        fl = _Flattener(fn, text, m, mtree)
        for sub in ast.walk(fn):
            if not isinstance(sub, ast.Call) or _is_message(sub):
                continue
            f = sub.func
            arg, end = None, "\n"
            if isinstance(f, ast.Name) and f.id == "print" and any(k.arg == "file" for k in sub.keywords):
                if len(sub.args) != 1:
                    if len(sub.args) == 0:
                        continue
                    rec = Record(m, fn.name, sub.lineno, [("opaque", fl.src(sub))], in_loop=_in_loop(sub, fn))
                    out.append(rec)
                    continue
                arg = sub.args[0]
                for k in sub.keywords:
                    if k.arg == "end":
                        end = k.value.value if isinstance(k.value, ast.Constant) else None
            elif isinstance(f, ast.Attribute) and f.attr == "write" and len(sub.args) == 1:
                arg, end = sub.args[0], ""
            if arg is None:
                continue
            out.append(Record(m, fn.name, sub.lineno, fl.flat(arg), end=end, in_loop=_in_loop(sub, fn)))
    # module-level formatting lambdas (column tables)
    tree, text = source.module_ast(modname)
    fl = _Flattener(None, text, modname, tree)
    for node in tree.body:
        if isinstance(node, (ast.Assign, ast.AnnAssign)):
            for sub in ast.walk(node):
                if isinstance(sub, ast.Lambda) and isinstance(sub.body, (ast.JoinedStr, ast.Call)):
                    parts = fl.flat(sub.body)
                    if any(p[0] == "field" for p in parts):
                        out.append(Record(modname, "<module lambda>", sub.lineno, parts, end=None))
    return out


def all_fields(rec_or_parts):
    parts = rec_or_parts.parts if isinstance(rec_or_parts, Record) else rec_or_parts
    for p in parts:
        if p[0] == "field":
            yield p[1]
        elif p[0] == "rep":
            yield from all_fields(p[2])


# ----------------------------------------------------------------------------------------------------------------
U = 2.0**-53
FREE_FIELD_DIGITS = 6  # |v| < 1e6 for fixed-point fields that have no width (free-format records)


def leading_blank_guaranteed(f: Field, int_digits=10):
    """The printed field always starts with a blank (stated assumption: |ints| < 10**int_digits).  Exponents may have
    three digits (|x| < 1e-99 or >= 1e100 are legitimate doubles), so a scientific field needs width >= precision + 9."""
    p = f.parsed()
    if p is None or p["align"] in ("<", "^") or p["zero"] or (p["fill"] not in (None, " ")):
        return False
    w = int(p["width"] or 0)
    if f.kind == "float" and p["type"] in ("e", "E") and p["prec"] is not None:
        return w >= int(p["prec"]) + 9  # sign, d, '.', prec digits, E, sign, 3 digits = prec + 8
    if f.kind in ("int",) or (f.kind == "default" and w >= 12):
        return w >= int_digits + 2
    return False


def stability_condition(f: Field, bare: bool):
    """(ok, reason) for 'text -> float -> (unit factor, inverse unit factor) -> text' being the identity.

    Rounding argument (u = 2**-53): a printed decimal v is read as fl(v), multiplied and divided by a unit factor:
    the value printed next is v (1 + d), |d| <= 3.01 u.  Correctly rounded formatting gives v back iff the
    perturbation stays below half a unit of the last printed digit."""
    p = f.parsed()
    if p is None:
        return None, "dynamic format spec"
    t = p["type"]
    if f.kind != "float":
        return True, "exact (integer / string / repr formatting)"
    if p["group"] and t in ("f", "F", "g", "G", "%"):
        return False, "thousands separator in a number that float() has to parse"
    if bare:
        # s1 = round_d(x0), x1 = fl(s1), s2 = round_d(x1).  If ulp(x) <= 10^-d then |x1 - s1| <= ulp/2 <= half a unit of
        # the last printed digit, so s2 = s1; otherwise |s1 - x0| <= 0.5 10^-d < ulp/2, so x1 = x0 and s2 = s1.
        if t in ("e", "E") and p["prec"] is not None and int(p["prec"]) == 15:
            # near a power of ten that is not a double the decimal grid below is ten times finer than above:
            # 1.0000000000000001e-11 -> '1.000000000000000e-11' -> float -> '9.999999999999999e-12'
            return False, "16 significant digits without arithmetic: not idempotent next to powers of ten (1.0000000000000001e-11 prints as 1.000000000000000e-11, which reads back as 9.999999999999999e-12)"
        return True, "no arithmetic between parsing and printing: correctly rounded print/parse is idempotent after one cycle"
    if p["prec"] is None:
        return None, "float format without precision"
    d = int(p["prec"])
    if t in ("e", "E"):
        if d <= 14:
            ok = 10 * 3.01 * U < 0.5 * 10.0**-d
            return ok, f"{d + 1} significant digits: 30.1 u < 0.5e-{d}"
        if d >= 16:
            return (True, "17 significant digits identify the double exactly (printed expression is a bare value)") if bare else (False, f"{d + 1} digits are only stable when no arithmetic sits between parsing and printing")
        return False, "16 significant digits: neither decimal->binary->decimal nor the converse is the identity"
    if t in ("f", "F"):
        w = int(p["width"] or 0)
        k = max(w - d - 2, 0) if w else FREE_FIELD_DIGITS
        bound = 10.0**k
        ok = 6.02 * U * bound < 10.0**-d
        return ok, f"|v| < 1e{k} ({'what the column holds' if w else 'declared bound for fields without a width'}), {d} decimals: 6.02 u 1e{k} {'<' if ok else '>='} 1e-{d}"
    return None, f"format type {t!r}"


def bare_instance(f: Field):
    """The lemma of pyvc/rounding.py that `stability_condition(f, bare=True)` relies on: ("bare-f",), ("e", decimals) for
    scientific notation with at most 15 significant digits, ("trusted-17",) for 17 or more; None otherwise."""
    p = f.parsed()
    if p is None or f.kind != "float":
        return None
    if p["type"] in ("f", "F"):
        return ("bare-f",)
    if p["type"] in ("e", "E") and p["prec"] is not None:
        d = int(p["prec"])
        return ("e", d) if d <= 14 else (("trusted-17",) if d >= 16 else None)
    return None


def margin_instance(f: Field):
    """The instance of the rounding lemma (pyvc/rounding.py) that `stability_condition(f, bare=False)` relies on:
    ("f", decimals, digits-before-the-point bound) or ("e", decimals); None when no margin inequality is involved."""
    p = f.parsed()
    if p is None or f.kind != "float" or p["prec"] is None:
        return None
    d = int(p["prec"])
    if p["type"] in ("e", "E"):
        return ("e", d) if d <= 14 else None
    if p["type"] in ("f", "F"):
        w = int(p["width"] or 0)
        return ("f", d, max(w - d - 2, 0) if w else FREE_FIELD_DIGITS)
    return None


# ----------------------------------------------------------------------------------------------------------------
# Where does a printed value come from?  Factors applied between the object's attribute and the printed text.
PASS_METHODS = {"flatten", "ravel", "reshape", "transpose", "copy", "tolist", "items", "values", "get", "astype", "T", "squeeze", "nonzero"}
PASS_FUNCS = {"len", "float", "int", "zip", "enumerate", "range", "reversed", "sorted", "list", "tuple", "iter", "array", "asarray", "concatenate", "hstack", "abs"}


class Origin:
    """Result of tracing a printed expression backwards: factors [(op, other-operand source, kind)] and unknowns."""

    def __init__(self):
        self.factors = []
        self.unknown = []
        self.attrs = []  # attributes of the written object (data.<attr>) the printed value is taken from


def identity(fld: "Field", org: "Origin" = None):
    """A name for a printed field that does not depend on how local variables are called: the attribute(s) of the written
    object the value comes from (by `trace`), else the source text of the expression."""
    attrs = provenance(fld)
    if len(attrs) > 3:
        return "values"  # a shared helper that prints many attributes
    if attrs:
        return "+".join(sorted(attrs))
    return fld.expr.replace(" ", "")[:24]


def provenance(fld: "Field", max_depth=6):
    """Attributes `data.<attr>` that the printed expression depends on, through any arithmetic, calls and local bindings
    (flow-insensitive closure over the assignments and loop targets of the enclosing function and, for parameters, over
    the arguments at the call sites in the same module)."""
    if fld.node is None or not fld.module:
        return []
    tree, _ = source.module_ast(fld.module)
    funcs = _funcs(tree)
    found, seen = [], set()

    def visit(expr, fn, depth):
        if depth > max_depth:
            return
        for n in ast.walk(expr):
            if isinstance(n, ast.Attribute) and isinstance(n.value, ast.Name) and n.value.id in ("data", "self"):
                if n.attr not in found:
                    found.append(n.attr)
            elif isinstance(n, ast.Name) and isinstance(n.ctx, ast.Load) and fn is not None and (n.id, fn.name) not in seen:
                seen.add((n.id, fn.name))
                params = [a.arg for a in fn.args.args]
                if n.id in params:
                    k = params.index(n.id)
                    for cfn in funcs.values():
                        for call in ast.walk(cfn):
                            if isinstance(call, ast.Call) and isinstance(call.func, ast.Name) and call.func.id == fn.name:
                                if k < len(call.args):
                                    visit(call.args[k], cfn, depth + 1)
                                for kw in call.keywords:
                                    if kw.arg == n.id:
                                        visit(kw.value, cfn, depth + 1)
                for sub in ast.walk(fn):
                    if isinstance(sub, ast.Assign) and any(isinstance(t, ast.Name) and t.id == n.id or (isinstance(t, ast.Tuple) and any(isinstance(e, ast.Name) and e.id == n.id for e in t.elts)) for t in sub.targets):
                        visit(sub.value, fn, depth + 1)
                    elif isinstance(sub, (ast.For, ast.comprehension)) and any(isinstance(x, ast.Name) and x.id == n.id for x in ast.walk(sub.target)):
                        visit(sub.iter, fn, depth + 1)

    visit(fld.node, fld.fn, 0)
    return found


def _unit_names(modname):
    """Names imported from iodata.utils (unit constants) in a module."""
    tree, _ = source.module_ast(modname)
    out = set()
    for node in tree.body:
        if isinstance(node, ast.ImportFrom) and node.module and node.module.split(".")[-1] == "utils":
            out |= {a.asname or a.name for a in node.names}
    return out


def trace(fld: Field, exact_names=("signs",), max_depth=8):
    org = Origin()
    if fld.node is None:
        org.unknown.append("no expression")
        return org
    units = _unit_names(fld.module) if fld.module else set()
    tree, text = source.module_ast(fld.module)
    funcs = _funcs(tree)
    seen = set()

    def src(n):
        return ast.get_source_segment(text, n) or ast.dump(n)

    def bindings(fn, name):
        """Expressions a local name may be bound to in fn: [('value', node) | ('iter', node) | ('param', index)]."""
        out = []
        if fn is None:
            return out
        params = [a.arg for a in fn.args.args]
        if name in params:
            out.append(("param", params.index(name)))
        for sub in ast.walk(fn):
            if isinstance(sub, ast.Assign):
                for t in sub.targets:
                    if any(isinstance(n, ast.Name) and n.id == name for n in ast.walk(t)) and not isinstance(t, (ast.Subscript, ast.Attribute)):
                        out.append(("value", sub.value))
            elif isinstance(sub, ast.AugAssign) and isinstance(sub.target, ast.Name) and sub.target.id == name:
                out.append(("aug", sub))
            elif isinstance(sub, (ast.For, ast.comprehension)):
                if any(isinstance(n, ast.Name) and n.id == name for n in ast.walk(sub.target)):
                    out.append(("iter", sub.iter))
        return out

    def walk(node, fn, depth):
        key = (id(node), id(fn))
        if key in seen or depth > max_depth:
            return
        seen.add(key)
        if isinstance(node, (ast.Constant, ast.Lambda)):
            return
        if isinstance(node, ast.Name):
            if node.id in units or node.id in exact_names:
                return
            bs = bindings(fn, node.id)
            if not bs:
                return  # module-level table / global: not arithmetic by itself
            for kind, b in bs:
                if kind in ("value", "iter"):
                    walk(b, fn, depth + 1)
                elif kind == "aug":
                    org.factors.append((type(b.op).__name__, src(b.value), "other"))
                elif kind == "param":
                    for cfn in funcs.values():
                        for call in ast.walk(cfn):
                            if isinstance(call, ast.Call) and isinstance(call.func, ast.Name) and call.func.id == fn.name:
                                if b < len(call.args):
                                    walk(call.args[b], cfn, depth + 1)
                                for kw in call.keywords:
                                    if kw.arg == node.id:
                                        walk(kw.value, cfn, depth + 1)
            return
        if isinstance(node, ast.Attribute):
            if isinstance(node.value, ast.Name) and node.value.id in ("data", "self"):
                if node.attr not in org.attrs:
                    org.attrs.append(node.attr)
                return
            walk(node.value, fn, depth)
            return
        if isinstance(node, ast.Subscript):
            walk(node.value, fn, depth)
            return
        if isinstance(node, ast.IfExp):
            walk(node.body, fn, depth)
            walk(node.orelse, fn, depth)
            return
        if isinstance(node, ast.BoolOp):
            for v in node.values:
                walk(v, fn, depth)
            return
        if isinstance(node, ast.UnaryOp):
            if isinstance(node.op, ast.USub):
                walk(node.operand, fn, depth)  # negation is exact
                return
        if isinstance(node, (ast.Tuple, ast.List)):
            for e in node.elts:
                walk(e, fn, depth)
            return
        if isinstance(node, (ast.ListComp, ast.GeneratorExp)):
            walk(node.elt, fn, depth)
            for g in node.generators:
                walk(g.iter, fn, depth)
            return
        if isinstance(node, ast.Starred):
            walk(node.value, fn, depth)
            return
        if isinstance(node, ast.BinOp):
            opn = type(node.op).__name__
            for this, other in ((node.left, node.right), (node.right, node.left)):
                if isinstance(other, ast.Name) and other.id in exact_names and opn == "Mult":
                    walk(this, fn, depth)
                    return
                if isinstance(other, ast.Call) and isinstance(other.func, ast.Attribute) and isinstance(other.func.value, ast.Name) and other.func.value.id in exact_names and opn == "Mult":
                    walk(this, fn, depth)  # signs.reshape(-1, 1)
                    return
            for this, other in ((node.left, node.right), (node.right, node.left)):
                if isinstance(other, ast.Name) and other.id in units and opn in ("Mult", "Div"):
                    if opn == "Div" and other is node.left:
                        break
                    org.factors.append((opn, other.id, "unit"))
                    walk(this, fn, depth)
                    return
            if opn in ("Add", "Sub") and all(isinstance(x, ast.Constant) and isinstance(x.value, int) for x in (node.right,)):
                walk(node.left, fn, depth)  # integer offsets (index + 1)
                return
            org.factors.append((opn, src(node), "other"))
            return
        if isinstance(node, ast.Call):
            f = node.func
            name = f.id if isinstance(f, ast.Name) else (f.attr if isinstance(f, ast.Attribute) else "")
            if name in PASS_FUNCS or name in PASS_METHODS:
                if isinstance(f, ast.Attribute) and name in PASS_METHODS:
                    walk(f.value, fn, depth)
                else:
                    for a in node.args:
                        walk(a, fn, depth)
                return
            org.factors.append(("Call", src(node), "other"))
            return
        org.unknown.append(type(node).__name__ + ": " + src(node)[:60])

    walk(fld.node, fld.fn, 0)
    return org


def reader_unit_ops(modname):
    """{(op, unit name)} over the functions of the format module that are not writers."""
    tree, _ = source.module_ast(modname)
    units = _unit_names(modname)
    writers = {id(fn) for _m, fn in writer_functions(modname)}
    out = set()

    def scan(t, skip_ids):
        for node in t.body:
            if isinstance(node, ast.FunctionDef) and id(node) in skip_ids:
                continue
            for sub in ast.walk(node):
                if isinstance(sub, ast.BinOp) and type(sub.op).__name__ in ("Mult", "Div"):
                    for side in (sub.left, sub.right):
                        if isinstance(side, ast.Name) and side.id in units:
                            out.add((type(sub.op).__name__, side.id))
                if isinstance(sub, ast.AugAssign) and type(sub.op).__name__ in ("Mult", "Div"):
                    for n in ast.walk(sub.value):
                        if isinstance(n, ast.Name) and n.id in units:
                            out.add((type(sub.op).__name__, n.id))

    scan(tree, writers)
    # readers shared with sibling modules (poscar -> chgcar._load_vasp_header)
    for node in tree.body:
        if isinstance(node, ast.ImportFrom) and node.level == 1 and node.module and not node.module.startswith("."):
            sib = modname.rsplit(".", 1)[0] + "." + node.module
            if sib.startswith("iodata.formats.") and any(a.name.startswith(("_load", "load", "_read")) for a in node.names):
                t2, _ = source.module_ast(sib)
                units |= _unit_names(sib)
                scan(t2, set())
    return out
