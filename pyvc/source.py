"""Access to the real source of /repo: every run re-parses the files on disk."""

from __future__ import annotations

import ast
import hashlib
import importlib
import os
import sys

REPO = os.environ.get("PYVC_REPO", "/repo")

_cache: dict[str, tuple[ast.Module, str]] = {}
used_targets: dict[str, str] = {}  # qualified name -> sha256 of the source segment that was executed


def ensure_repo_on_path():
    if REPO not in sys.path:
        sys.path.insert(0, REPO)
    mod = sys.modules.get("iodata")
    if mod is not None and not os.path.abspath(mod.__file__).startswith(os.path.abspath(REPO) + os.sep):
        raise RuntimeError(f"iodata imported from {mod.__file__}, expected under {REPO}")


def import_repo(modname):
    ensure_repo_on_path()
    mod = importlib.import_module(modname)
    f = os.path.abspath(mod.__file__)
    if not f.startswith(os.path.abspath(REPO) + os.sep):
        raise RuntimeError(f"{modname} imported from {f}, expected under {REPO}")
    return mod


def module_file(modname):
    rel = modname.replace(".", "/")
    p = os.path.join(REPO, rel + ".py")
    if os.path.exists(p):
        return p
    return os.path.join(REPO, rel, "__init__.py")


def module_ast(modname):
    hit = _cache.get(modname)
    if hit is None:
        path = module_file(modname)
        with open(path) as fh:
            text = fh.read()
        hit = _cache[modname] = (ast.parse(text, filename=path), text)
        for node in ast.walk(hit[0]):
            for child in ast.iter_child_nodes(node):
                child._parent = node  # type: ignore[attr-defined]
    return hit


def segment_sha(modname, node):
    tree, text = module_ast(modname)
    seg = ast.get_source_segment(text, node) or ""
    return hashlib.sha256(seg.encode()).hexdigest()[:16], seg


_fn_cache = {}


def function_node(fn):
    """AST node (FunctionDef / Lambda) of a host function object defined in /repo (memoised per code object)."""
    code = fn.__code__
    hit = _fn_cache.get(code)
    if hit is None:
        hit = _fn_cache[code] = _function_node(fn)
    return hit


def _function_node(fn):
    code = fn.__code__
    modname = fn.__module__
    tree, _ = module_ast(modname)
    first = code.co_firstlineno
    best = None
    for node in ast.walk(tree):
        if isinstance(node, (ast.FunctionDef, ast.AsyncFunctionDef)) and node.name == code.co_name:
            lines = {node.lineno} | {d.lineno for d in node.decorator_list}
            if first in lines:
                best = node
                break
        elif isinstance(node, ast.Lambda) and code.co_name == "<lambda>" and node.lineno == first:
            best = node
            break
    if best is None:
        raise LookupError(f"missing-target: no definition of {modname}.{fn.__qualname__} at line {first}")
    sha, _ = segment_sha(modname, best)
    used_targets[f"{modname}.{fn.__qualname__}@{first}"] = sha
    return best


def find_def(modname, qualname):
    """Find a definition by qualified name, e.g. 'IOData.charge', 'IOData.charge.setter',
    'dump_many.checking_iterator', 'validate_shape.validator'."""
    tree, _ = module_ast(modname)
    parts = [p for p in qualname.split(".") if p != "<locals>"]
    want_setter = parts[-1] == "setter"
    if want_setter:
        parts = parts[:-1]
    body = tree.body
    node = None
    for k, part in enumerate(parts):
        cands = [n for n in body if isinstance(n, (ast.FunctionDef, ast.ClassDef)) and n.name == part]
        if not cands:
            # search nested statements (e.g. defs inside if/try)
            cands = [n for st in body for n in ast.walk(st) if isinstance(n, (ast.FunctionDef, ast.ClassDef)) and n.name == part]
        if not cands:
            raise LookupError(f"missing-target: {modname}.{qualname}")
        if k == len(parts) - 1 and len(cands) > 1:
            def is_setter(n):
                return any(isinstance(d, ast.Attribute) and d.attr == "setter" for d in getattr(n, "decorator_list", []))
            cands = [n for n in cands if is_setter(n) == want_setter]
        node = cands[0]
        body = node.body
    sha, _ = segment_sha(modname, node)
    used_targets[f"{modname}.{qualname}"] = sha
    return node


def loops_of(node):
    """For/While loops of a function in source order, not descending into nested defs."""
    out = []

    def visit(n):
        for child in ast.iter_child_nodes(n):
            if isinstance(child, (ast.FunctionDef, ast.AsyncFunctionDef, ast.Lambda, ast.ClassDef)):
                continue
            if isinstance(child, (ast.For, ast.While)):
                out.append(child)
            visit(child)

    visit(node)
    return out


def is_generator_def(node):
    for n in _walk_no_nested(node):
        if isinstance(n, (ast.Yield, ast.YieldFrom)):
            return True
    return False


def _walk_no_nested(node):
    stack = list(ast.iter_child_nodes(node))
    while stack:
        n = stack.pop()
        yield n
        if isinstance(n, (ast.FunctionDef, ast.AsyncFunctionDef, ast.Lambda, ast.ClassDef)):
            continue
        stack.extend(ast.iter_child_nodes(n))


# --------------------------------------------------------------------------------------------------
# Roles of local variables in loop contracts.  A loop invariant has to talk about the loop's state; it finds the
# variables that hold that state by the role they play in the function (what is returned, what the loop updates, what
# the loop binds), not by their names: renaming a local does not invalidate a contract.
# --------------------------------------------------------------------------------------------------
def returned_names(node):
    """Names appearing in the last `return` of a function, in source order (`return np.array(a), np.array(b)` -> [a, b])."""
    rets = [n for n in _walk_no_nested(node) if isinstance(n, ast.Return) and n.value is not None]
    if not rets:
        return []
    last = max(rets, key=lambda r: r.lineno)
    names = [n for n in ast.walk(last.value) if isinstance(n, ast.Name)]
    names.sort(key=lambda n: (n.lineno, n.col_offset))
    out = []
    for n in names:
        if n.id not in out:
            out.append(n.id)
    return out


def loop_target_names(loop):
    """Names bound by the target of a `for` loop, in source order."""
    if not isinstance(loop, ast.For):
        return []
    names = [n for n in ast.walk(loop.target) if isinstance(n, ast.Name)]
    names.sort(key=lambda n: (n.lineno, n.col_offset))
    return [n.id for n in names]


def updated_names(loop):
    """Names the body of a loop rebinds or updates in place (assignment, augmented assignment, subscript store,
    .append / .extend / .insert), in order of first occurrence; loop targets of nested loops are not included."""
    out = []

    def add(nm):
        if nm not in out:
            out.append(nm)

    def base(t):
        while isinstance(t, (ast.Subscript, ast.Attribute)):
            t = t.value
        return t.id if isinstance(t, ast.Name) else None

    body = ast.Module(body=loop.body, type_ignores=[])
    nodes = sorted((n for n in ast.walk(body) if hasattr(n, "lineno")), key=lambda n: (n.lineno, n.col_offset))
    for n in nodes:
        if isinstance(n, ast.Assign):
            for t in n.targets:
                for e in t.elts if isinstance(t, ast.Tuple) else [t]:
                    nm = base(e)
                    if nm:
                        add(nm)
        elif isinstance(n, ast.AugAssign):
            nm = base(n.target)
            if nm:
                add(nm)
        elif isinstance(n, ast.Call) and isinstance(n.func, ast.Attribute) and n.func.attr in ("append", "extend", "insert"):
            nm = base(n.func.value)
            if nm:
                add(nm)
    return out


def carried_names(loop):
    """Updated names whose first occurrence in the loop body reads them: the state carried from one iteration to the next."""
    upd = updated_names(loop)
    body = ast.Module(body=loop.body, type_ignores=[])
    first = {}
    # evaluation order within a statement: the value of an assignment is evaluated before its target is bound
    def visit(n):
        if isinstance(n, ast.Assign):
            visit(n.value)
            for t in n.targets:
                visit(t)
            return
        if isinstance(n, ast.AugAssign):
            first.setdefault(getattr(n.target, "id", None), "read")
            visit(n.value)
            visit(n.target)
            return
        if isinstance(n, ast.Name):
            first.setdefault(n.id, "read" if isinstance(n.ctx, ast.Load) else "write")
            return
        for c in ast.iter_child_nodes(n):
            visit(c)

    visit(body)
    return [n for n in upd if first.get(n) == "read"]


def loop_roles(modname, qualname, ordinal=0):
    """(function node, loop node, returned names, loop-target names, updated names, carried names) of one loop."""
    node = find_def(modname, qualname)
    loops = loops_of(node)
    if ordinal >= len(loops):
        raise LookupError(f"loop contract does not apply: {modname}.{qualname} has no loop number {ordinal} (re-annotation needed)")
    lp = loops[ordinal]
    return node, lp, returned_names(node), loop_target_names(lp), updated_names(lp), carried_names(lp)


def constant_slices(modname, node, varname="line"):
    """Column ranges (lo, hi) a function cuts out of the string `varname`: `line[a:b]`, `line[k]`, and `line[NAME]` where
    NAME is a module-level constant `slice(a, b)` or an integer.  Returns (set of ranges, number of subscripts that could
    not be resolved to constants)."""
    tree, _ = module_ast(modname)
    consts = {}
    for st in tree.body:
        if isinstance(st, (ast.Assign, ast.AnnAssign)):
            tgt = st.targets[0] if isinstance(st, ast.Assign) and len(st.targets) == 1 else getattr(st, "target", None)
            val = st.value
            if isinstance(tgt, ast.Name) and val is not None:
                if isinstance(val, ast.Call) and isinstance(val.func, ast.Name) and val.func.id == "slice" and 1 <= len(val.args) <= 2 and all(isinstance(a, ast.Constant) and (a.value is None or isinstance(a.value, int)) for a in val.args):
                    lo, hi = (0, val.args[0].value) if len(val.args) == 1 else (val.args[0].value or 0, val.args[1].value)
                    if hi is not None:
                        consts[tgt.id] = (lo, hi)
                elif isinstance(val, ast.Constant) and isinstance(val.value, int) and not isinstance(val.value, bool):
                    consts[tgt.id] = (val.value, val.value + 1)
    out, unresolved = set(), 0
    for n in ast.walk(node):
        if isinstance(n, ast.Subscript) and isinstance(n.value, ast.Name) and n.value.id == varname:
            s = n.slice
            if isinstance(s, ast.Slice) and s.step is None and (s.lower is None or isinstance(s.lower, ast.Constant)) and isinstance(s.upper, ast.Constant):
                out.add((0 if s.lower is None else s.lower.value, s.upper.value))
            elif isinstance(s, ast.Constant) and isinstance(s.value, int):
                out.add((s.value, s.value + 1))
            elif isinstance(s, ast.Name) and s.id in consts:
                out.add(consts[s.id])
            else:
                unresolved += 1
    return out, unresolved
