"""Symbolic value domain of pyvc.

Concrete Python values are used as they are.  Symbolic values are small wrappers around z3 terms:

  SBool, SInt, SReal      scalars (mathematical integers / reals: assumption A-FP for floats)
  SU                      opaque value of an uninterpreted sort (only equality is known)
  Label                   a string abstracted *exactly* as (number of leading '-', remainder)
  SOpt                    `None` or a value, decided lazily by a branch
  SSeq / SList            immutable / mutable sequences with symbolic length: (length, index -> value)
  SArr                    numpy array: (shape, index tuple -> z3 term, dtype); views read through their base
  Obj                     instance of a class of /repo that is interpreted (attrs classes, LineIterator, errors)
  SDict                   finite map with symbolic keys (uninterpreted has/get)
  Opaque                  result of a havoc'ed call
"""

from __future__ import annotations

import itertools

import z3

from .core import OutsideSubset

U = z3.DeclareSort("U")

_ids = itertools.count()


class Value:
    """Base class of symbolic values."""


# ------------------------------------------------------------------------------------------------
# scalars
# ------------------------------------------------------------------------------------------------


def is_sym(v):
    return isinstance(v, Value)


def to_z3(v):
    """Convert a scalar (host or symbolic) into a z3 term."""
    if isinstance(v, (SBool, SInt, SReal, SU)):
        return v.t
    if isinstance(v, bool):
        return z3.BoolVal(v)
    if isinstance(v, int):
        return z3.IntVal(v)
    if isinstance(v, float):
        if v != v or v in (float("inf"), float("-inf")):
            raise OutsideSubset("nan/inf constant")
        return z3.RealVal(repr(v)) if "e" not in repr(v) and "E" not in repr(v) else z3.RealVal(str(__import__("fractions").Fraction(v)))
    if isinstance(v, str):
        return ustr(v)
    if z3.is_expr(v):
        return v
    try:
        import numpy as _np

        if isinstance(v, _np.generic):
            return to_z3(v.item())
    except ImportError:
        pass
    raise OutsideSubset(f"cannot convert {type(v).__name__} to a z3 term")


def wrap(t):
    """Wrap a z3 term into the matching scalar value (constants become host values)."""
    if not z3.is_expr(t):
        return t
    s = t.sort()
    if s == z3.BoolSort():
        t = z3.simplify(t)
        if z3.is_true(t):
            return True
        if z3.is_false(t):
            return False
        return SBool(t)
    if s == z3.IntSort():
        ts = z3.simplify(t)
        if z3.is_int_value(ts):
            return ts.as_long()
        return SInt(t)
    if s == z3.RealSort():
        return SReal(t)
    if s == U:
        return SU(t)
    raise OutsideSubset(f"cannot wrap term of sort {s}")


_USTR = {}


def ustr(s: str):
    """The U-constant standing for the concrete string `s` (distinct strings -> distinct constants)."""
    c = _USTR.get(s)
    if c is None:
        c = _USTR[s] = z3.Const("str:" + s, U)
    return c


def ustr_axioms():
    """Pairwise distinctness of all string constants used so far."""
    cs = list(_USTR.values())
    return [z3.Distinct(*cs)] if len(cs) > 1 else []


def _num(v):
    """z3 arithmetic term of a numeric value (bools as 0/1)."""
    if isinstance(v, SBool):
        return z3.If(v.t, z3.IntVal(1), z3.IntVal(0))
    if isinstance(v, bool):
        return z3.IntVal(int(v))
    t = to_z3(v)
    if t.sort() == z3.BoolSort():
        return z3.If(t, z3.IntVal(1), z3.IntVal(0))
    return t


def _is_real(t):
    return t.sort() == z3.RealSort()


class _Scalar(Value):
    __slots__ = ("t",)

    def __init__(self, t):
        self.t = t

    def __repr__(self):
        return f"{type(self).__name__}({self.t})"

    def __hash__(self):
        return hash(self.t)

    # arithmetic -------------------------------------------------------------------------
    def __add__(self, o):
        return binop("+", self, o)

    def __radd__(self, o):
        return binop("+", o, self)

    def __sub__(self, o):
        return binop("-", self, o)

    def __rsub__(self, o):
        return binop("-", o, self)

    def __mul__(self, o):
        return binop("*", self, o)

    def __rmul__(self, o):
        return binop("*", o, self)

    def __truediv__(self, o):
        return binop("/", self, o)

    def __rtruediv__(self, o):
        return binop("/", o, self)

    def __floordiv__(self, o):
        return binop("//", self, o)

    def __mod__(self, o):
        return binop("%", self, o)

    def __neg__(self):
        return binop("-", 0, self)

    def __abs__(self):
        t = _num(self)
        return wrap(z3.If(t >= 0, t, -t))

    # comparisons ------------------------------------------------------------------------
    def __eq__(self, o):  # type: ignore[override]
        return compare("==", self, o)

    def __ne__(self, o):  # type: ignore[override]
        return compare("!=", self, o)

    def __lt__(self, o):
        return compare("<", self, o)

    def __le__(self, o):
        return compare("<=", self, o)

    def __gt__(self, o):
        return compare(">", self, o)

    def __ge__(self, o):
        return compare(">=", self, o)

    def __bool__(self):
        raise OutsideSubset(f"host truth value of symbolic {self!r} requested (use ctx.branch)")


class SBool(_Scalar):
    def __and__(self, o):
        return wrap(z3.And(self.t, to_z3(o)))

    __rand__ = __and__

    def __or__(self, o):
        return wrap(z3.Or(self.t, to_z3(o)))

    __ror__ = __or__

    def __invert__(self):
        return wrap(z3.Not(self.t))


class SInt(_Scalar):
    pass


class SReal(_Scalar):
    pass


class SU(_Scalar):
    """Opaque value; `pytype` is the Python type it stands for (str by default)."""

    __slots__ = ("t", "pytype")

    def __init__(self, t, pytype=str):
        self.t = t
        self.pytype = pytype


# A job may ask for products of two non-constant integers to be abstracted by an uninterpreted function (sound: only
# congruence is kept), which keeps non-linear integer arithmetic out of queries that carry quantified hypotheses.
ABSTRACT_INT_PRODUCTS = [False]
IMUL = z3.Function("imul", z3.IntSort(), z3.IntSort(), z3.IntSort())


def binop(op, a, b):
    if isinstance(a, (SArr,)) or isinstance(b, (SArr,)):
        return SArr.elementwise(op, a, b)
    if not is_sym(a) and not is_sym(b):
        raise OutsideSubset("binop on host values should be done natively")
    if isinstance(a, (SU, Label)) or isinstance(b, (SU, Label)):
        raise OutsideSubset(f"arithmetic {op} on opaque values")
    ta, tb = _num(a), _num(b)
    real = _is_real(ta) or _is_real(tb)
    if op == "+":
        return wrap(ta + tb)
    if op == "-":
        return wrap(ta - tb)
    if op == "*":
        if ABSTRACT_INT_PRODUCTS[0] and not real and not z3.is_int_value(z3.simplify(ta)) and not z3.is_int_value(z3.simplify(tb)):
            return wrap(IMUL(ta, tb))
        return wrap(ta * tb)
    if op == "/":
        return wrap(z3.ToReal(ta) / z3.ToReal(tb) if not real else (z3.ToReal(ta) if not _is_real(ta) else ta) / (z3.ToReal(tb) if not _is_real(tb) else tb))
    if op in ("//", "%"):
        if real:
            raise OutsideSubset("floor division of reals")
        tbs = z3.simplify(tb)
        if not (z3.is_int_value(tbs) and tbs.as_long() > 0):
            raise OutsideSubset("floor division by a non-constant or non-positive divisor")
        return wrap(ta / tb) if op == "//" else wrap(ta % tb)
    raise OutsideSubset(f"binary operator {op}")


def compare(op, a, b):
    """Python comparison on (possibly) symbolic scalars; returns host bool or SBool."""
    if isinstance(a, SArr) or isinstance(b, SArr):
        return SArr.elementwise(op, a, b)
    if isinstance(a, Label) or isinstance(b, Label):
        la, lb = Label.of(a), Label.of(b)
        if la is None or lb is None:
            return op == "!="
        eq = z3.And(la.nminus == lb.nminus, la.base == lb.base)
        if op == "==":
            return wrap(eq)
        if op == "!=":
            return wrap(z3.Not(eq))
        raise OutsideSubset("ordering of labels")
    if isinstance(a, SU) or isinstance(b, SU):
        try:
            ta, tb = to_z3(a), to_z3(b)
        except OutsideSubset:
            return op == "!="
        if ta.sort() != tb.sort():
            return op == "!="
        if op == "==":
            return wrap(ta == tb)
        if op == "!=":
            return wrap(ta != tb)
        raise OutsideSubset("ordering of opaque values")
    if a is None or b is None:
        if op == "==":
            return a is None and b is None
        if op == "!=":
            return not (a is None and b is None)
        raise OutsideSubset("ordering with None")
    if isinstance(a, (SBool,)) and isinstance(b, (SBool, bool)) and op in ("==", "!="):
        e = to_z3(a) == to_z3(b)
        return wrap(e if op == "==" else z3.Not(e))
    if isinstance(a, str) or isinstance(b, str):
        # a string against a number
        return op == "!="
    ta, tb = _num(a), _num(b)
    if _is_real(ta) != _is_real(tb):
        ta = ta if _is_real(ta) else z3.ToReal(ta)
        tb = tb if _is_real(tb) else z3.ToReal(tb)
    r = {"==": ta == tb, "!=": ta != tb, "<": ta < tb, "<=": ta <= tb, ">": ta > tb, ">=": ta >= tb}[op]
    return wrap(r)


# ------------------------------------------------------------------------------------------------
# optional values
# ------------------------------------------------------------------------------------------------


class SOpt(Value):
    """None (when `isnone`) or `val`.  Resolved by a branch when it is loaded."""

    __slots__ = ("isnone", "val")

    def __init__(self, isnone, val):
        self.isnone = isnone
        self.val = val

    def __repr__(self):
        return f"SOpt({self.isnone}, {self.val!r})"


# ------------------------------------------------------------------------------------------------
# labels (strings of the conventions tables)
# ------------------------------------------------------------------------------------------------


class Label(Value):
    """A string s = '-' * nminus + rest, `rest` not starting with '-': an exact representation of any str."""

    __slots__ = ("nminus", "base")

    def __init__(self, nminus, base):
        self.nminus = nminus
        self.base = base

    @staticmethod
    def of(v):
        if isinstance(v, Label):
            return v
        if isinstance(v, str):
            k = len(v) - len(v.lstrip("-"))
            return Label(z3.IntVal(k), ustr(v[k:]))
        return None

    def __repr__(self):
        return f"Label({self.nminus}, {self.base})"

    # str methods used by the code under verification
    def m_startswith(self, ctx, prefix):
        if prefix == "-":
            return wrap(self.nminus > 0)
        raise OutsideSubset(f"Label.startswith({prefix!r})")

    def m_lstrip(self, ctx, chars):
        if chars == "-":
            return Label(z3.IntVal(0), self.base)
        raise OutsideSubset(f"Label.lstrip({chars!r})")

    def __eq__(self, o):  # type: ignore[override]
        return compare("==", self, o)

    def __ne__(self, o):  # type: ignore[override]
        return compare("!=", self, o)

    def __hash__(self):
        return id(self)


# ------------------------------------------------------------------------------------------------
# sequences
# ------------------------------------------------------------------------------------------------


def _len_term(n):
    return z3.IntVal(n) if isinstance(n, int) else n


class SSeq(Value):
    """Immutable sequence (list contents or tuple) with a possibly symbolic length."""

    def __init__(self, length, elem, pytype=list, tag=None):
        self.length = length  # int or z3 Int term
        self.elem = elem  # callable: z3 Int term -> value
        self.pytype = pytype
        self.tag = tag or f"seq{next(_ids)}"

    def __repr__(self):
        return f"SSeq(len={self.length}, tag={self.tag})"

    @property
    def n(self):
        return _len_term(self.length)

    def at(self, i):
        return self.elem(_len_term(i) if isinstance(i, int) else i)

    def inrange(self, i):
        i = _len_term(i) if isinstance(i, int) else i
        return z3.And(i >= 0, i < self.n)

    @staticmethod
    def from_host(xs, pytype=list):
        xs = list(xs)

        def elem(i, xs=xs):
            i = z3.simplify(i)
            if z3.is_int_value(i):
                return xs[i.as_long()]
            # symbolic index into concrete list: build an If-chain over z3-convertible entries
            if not xs:
                return 0  # no index is in range; the value is irrelevant
            ts = [to_z3(x) for x in xs]
            r = ts[-1]
            for k in range(len(ts) - 2, -1, -1):
                r = z3.If(i == k, ts[k], r)
            return wrap(r)

        return SSeq(len(xs), elem, pytype)

    def map(self, f, pytype=list):
        return SSeq(self.length, lambda i: f(self.elem(i), i), pytype)


class SList(Value):
    """Mutable list whose content is an SSeq replaced on mutation."""

    def __init__(self, seq: SSeq):
        self.seq = seq
        self.ident = next(_ids)
        self.prov = "fresh"

    def __repr__(self):
        return f"SList({self.seq!r})"


def seq_of(v):
    """View lists / tuples / SList / SSeq / 1-D SArr as an SSeq, else None."""
    if isinstance(v, SSeq):
        return v
    if isinstance(v, SList):
        return v.seq
    if isinstance(v, (list, tuple)):
        return SSeq.from_host(v, type(v))
    if isinstance(v, SArr):
        if len(v.shape) == 1:
            return SSeq(v.shape[0], lambda i: wrap(v.get((i,))), list)
        return SSeq(v.shape[0], lambda i: v.row(i), list)
    return None


# ------------------------------------------------------------------------------------------------
# numpy arrays
# ------------------------------------------------------------------------------------------------

_SORT = {"float": z3.RealSort(), "int": z3.IntSort(), "bool": z3.BoolSort(), "str": U, "obj": U}


class SArr(Value):
    """numpy.ndarray model.  Storage is a Python callable from an index tuple to a z3 term;
    in-place writes replace the callable of the *base* array, so views observe them."""

    def __init__(self, shape, elem, dtype="float", base=None, to_base=None, tag=None):
        self.shape = tuple(shape)
        self._elem = elem
        self.dtype = dtype
        self.base = base  # SArr this is a view of (or None)
        self.to_base = to_base  # index tuple of the view -> index tuple of the base
        self.ident = next(_ids)
        self.tag = tag or f"arr{self.ident}"
        self.writeable = True
        self.prov = "fresh"

    def __repr__(self):
        return f"SArr({self.tag}, shape={self.shape}, {self.dtype})"

    __hash__ = object.__hash__

    @property
    def ndim(self):
        return len(self.shape)

    def root(self):
        a = self
        while a.base is not None:
            a = a.base
        return a

    def get(self, idx):
        idx = tuple(_len_term(i) if isinstance(i, int) else i for i in idx)
        if self.base is not None:
            return self.base.get(self.to_base(idx))
        return self._elem(idx)

    def set_all(self, newelem):
        """Replace the contents (in the coordinates of this array / view)."""
        if self.base is not None:
            raise OutsideSubset("write through a view")
        self._elem = newelem

    def n0(self):
        return _len_term(self.shape[0])

    def size_term(self):
        t = z3.IntVal(1)
        for s in self.shape:
            t = t * _len_term(s)
        return z3.simplify(t)

    def row(self, i):
        if self.ndim == 1:
            return wrap(self.get((i,)))
        return SArr(self.shape[1:], None, self.dtype, base=self, to_base=lambda idx, i=i: (i, *idx))

    def as_z3_array(self):
        """1-D array as a z3 array term (lambda)."""
        if self.ndim != 1:
            raise OutsideSubset("z3 array of a non 1-D array")
        i = z3.Int("k!lam")  # fixed name: alpha-equivalent lambdas become syntactically identical
        body = self.get((i,))
        if self.dtype == "int":
            body = z3.ToReal(body)
        return z3.Lambda([i], body)

    # -- constructors --------------------------------------------------------------------
    @staticmethod
    def fresh(name, shape, dtype="float"):
        sort = _SORT[dtype]
        f = z3.Function(name, *([z3.IntSort()] * len(shape)), sort)
        a = SArr(shape, lambda idx: f(*idx), dtype, tag=name)
        a.prov = "arg"  # made by a harness: belongs to the caller of the target
        return a

    @staticmethod
    def from_seq(seq: SSeq, dtype):
        def elem(idx):
            v = seq.elem(idx[0])
            t = _num(v) if dtype in ("float", "int") else to_z3(v)
            return _coerce(t, dtype)

        return SArr((seq.length,), elem, dtype)

    def astype(self, dtype):
        return SArr(self.shape, lambda idx: _coerce(self.get(idx), dtype), dtype)

    def copy(self):
        snapshot = self._freeze()
        return SArr(self.shape, snapshot, self.dtype)

    def _freeze(self):
        """Current contents as a callable that later writes to self do not affect."""
        if self.base is not None:
            b = self.base._freeze()
            tb = self.to_base
            return lambda idx: b(tb(idx))
        return self._elem

    # -- operations ----------------------------------------------------------------------
    @staticmethod
    def elementwise(op, a, b):
        aa, bb = _as_arr(a), _as_arr(b)
        shape = _broadcast_shape(aa, bb)

        def elem(idx, fa=_getter(aa, shape), fb=_getter(bb, shape)):
            x, y = wrap(fa(idx)), wrap(fb(idx))
            if not is_sym(x) and not is_sym(y):
                import operator as _o

                ops = {"+": _o.add, "-": _o.sub, "*": _o.mul, "/": _o.truediv, "==": _o.eq, "!=": _o.ne, "<": _o.lt, "<=": _o.le, ">": _o.gt, ">=": _o.ge}
                return to_z3(ops[op](x, y))
            r = compare(op, x, y) if op in ("==", "!=", "<", "<=", ">", ">=") else binop(op, x, y)
            return to_z3(r)

        if op in ("==", "!=", "<", "<=", ">", ">="):
            dtype = "bool"
        elif op == "/" or "float" in (getattr(aa, "dtype", None), getattr(bb, "dtype", None)) or isinstance(a, float) or isinstance(b, float) or isinstance(a, SReal) or isinstance(b, SReal):
            dtype = "float"
        else:
            dtype = "int"
        return SArr(shape, elem, dtype)

    def map1(self, f, dtype=None):
        fz = self._freeze()
        return SArr(self.shape, lambda idx: f(fz(tuple(_len_term(i) if isinstance(i, int) else i for i in idx))), dtype or self.dtype)

    def all_term(self):
        idx = [z3.Int(f"q!all{k}") for k, _ in enumerate(self.shape)]
        rng = z3.And(*[z3.And(i >= 0, i < _len_term(s)) for i, s in zip(idx, self.shape)])
        body = self.get(tuple(idx))
        if body.sort() != z3.BoolSort():
            body = body != 0
        return z3.ForAll(idx, z3.Implies(rng, body))

    def any_term(self):
        idx = [z3.Int(f"q!any{k}") for k, _ in enumerate(self.shape)]
        rng = z3.And(*[z3.And(i >= 0, i < _len_term(s)) for i, s in zip(idx, self.shape)])
        body = self.get(tuple(idx))
        if body.sort() != z3.BoolSort():
            body = body != 0
        return z3.Exists(idx, z3.And(rng, body))

    def sum_term(self):
        return asum(self.as_z3_array(), self.n0())

    # python-level sugar for contracts
    def __getitem__(self, i):
        if isinstance(i, tuple):
            return wrap(self.get(tuple(to_z3(k) for k in i)))
        return wrap(self.get((to_z3(i),)))


def _coerce(t, dtype):
    if dtype == "float":
        if t.sort() == z3.IntSort():
            return z3.ToReal(t)
        if t.sort() == z3.BoolSort():
            return z3.If(t, z3.RealVal(1), z3.RealVal(0))
        return t
    if dtype == "int":
        if t.sort() == z3.RealSort():
            return trunc(t)
        if t.sort() == z3.BoolSort():
            return z3.If(t, z3.IntVal(1), z3.IntVal(0))
        return t
    if dtype == "bool":
        if t.sort() == z3.BoolSort():
            return t
        return t != 0
    return t


def trunc(t):
    """C-style truncation toward zero of a real term (numpy astype(int), Python int())."""
    return z3.If(t >= 0, z3.ToInt(t), -z3.ToInt(-t))


def _as_arr(v):
    if isinstance(v, SArr):
        return v
    s = seq_of(v) if isinstance(v, (list, tuple, SSeq, SList)) else None
    if s is not None:
        return SArr.from_seq(s, "float" if any(isinstance(x, float) for x in (v if isinstance(v, (list, tuple)) else [])) else "int")
    return v  # scalar


def _broadcast_shape(a, b):
    sa = a.shape if isinstance(a, SArr) else ()
    sb = b.shape if isinstance(b, SArr) else ()
    if not sa:
        return sb
    if not sb:
        return sa
    if len(sa) != len(sb):
        raise OutsideSubset(f"broadcast of shapes {sa} and {sb}")
    return sa  # equality of extents is the caller's obligation (see Interp._same_shape)


def _getter(a, shape):
    if isinstance(a, SArr):
        # the result of an elementwise operation is a new array: it must not see later writes to its operands
        fz = a._freeze()
        return lambda idx: fz(tuple(_len_term(i) if isinstance(i, int) else i for i in idx))
    t = _num(a)
    return lambda idx: t


# recursive sum over a z3 array ------------------------------------------------------------------
_A = z3.ArraySort(z3.IntSort(), z3.RealSort())
# `asum(a, n)` = a[0] + ... + a[n-1].  It is an *uninterpreted* function for the solver (z3 answers `unknown` on
# recursive functions over lambda terms); its defining equations asum(a,0)=0, asum(a,n+1)=asum(a,n)+a[n] are used
# only in the induction proofs of the summation lemmas (pyvc.lemmas), whose instances harnesses add explicitly.
asum = z3.Function("asum", _A, z3.IntSort(), z3.RealSort())


def asum_definition(a):
    """Defining equations of asum for the array term `a` (for induction proofs of lemmas)."""
    m = z3.Int("m!sumdef")
    return [asum(a, 0) == 0, z3.ForAll([m], z3.Implies(m >= 0, asum(a, m + 1) == asum(a, m) + a[m]))]


# ------------------------------------------------------------------------------------------------
# objects, dicts, opaque
# ------------------------------------------------------------------------------------------------


class Obj(Value):
    """Instance of an interpreted class."""

    def __init__(self, cls, fields=None, tag=None):
        self.cls = cls
        self.fields = fields if fields is not None else {}
        self.ident = next(_ids)
        self.tag = tag or f"{cls.__name__}#{self.ident}"
        self.prov = "fresh"

    def __repr__(self):
        return f"Obj({self.tag})"

    __hash__ = object.__hash__


class SDict(Value):
    """Finite map with symbolic keys: `has(key)` and `get(key)` are supplied by the harness."""

    def __init__(self, has, get, tag="dict"):
        self.has = has
        self.get = get
        self.tag = tag

    def __repr__(self):
        return f"SDict({self.tag})"


class Opaque(Value):
    """An unknown object (e.g. the result of a havoc'ed call)."""

    def __init__(self, tag, attrs=None, pytype=object):
        self.tag = tag
        self.attrs = attrs or {}
        self.ident = next(_ids)
        self.pytype = pytype

    def __repr__(self):
        return f"Opaque({self.tag})"

    __hash__ = object.__hash__


class SymExcClass(Value):
    """An unknown exception class (subclass of Exception unless stated otherwise)."""

    def __init__(self, name, base=Exception):
        self.name = name
        self.base = base
        self._preds = {}

    def sub_pred(self, cls):
        """z3 Bool: this class is a subclass of the concrete class `cls`."""
        if issubclass(self.base, cls):
            return z3.BoolVal(True)
        p = self._preds.get(cls)
        if p is None:
            p = self._preds[cls] = z3.Bool(f"{self.name}<:{cls.__name__}")
        return p

    def hierarchy_axioms(self):
        ax = []
        items = list(self._preds.items())
        for c1, p1 in items:
            for c2, p2 in items:
                if c1 is not c2 and issubclass(c1, c2):
                    ax.append(z3.Implies(p1, p2))
            if not issubclass(c1, self.base) and not issubclass(self.base, c1):
                # c1 unrelated to base: being a subclass of both is possible with multiple inheritance
                pass
        return ax

    def __repr__(self):
        return f"SymExcClass({self.name})"


class SymExc(Value):
    """Instance of an unknown exception class."""

    def __init__(self, cls: SymExcClass, origin=""):
        self.cls = cls
        self.origin = origin
        self.ident = next(_ids)

    def __repr__(self):
        return f"SymExc({self.cls.name} from {self.origin})"
