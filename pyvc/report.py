"""Verdicts, evidence files, replay files, known findings."""

from __future__ import annotations

import json
import os
import re
import subprocess
import sys
import time
import traceback

from .core import Ledger

VERIF = os.path.dirname(os.path.dirname(os.path.abspath(__file__)))


def out_dir():
    """Where evidence and replay files go: /verif for the tree the checks are registered for (/repo); a scratch
    directory inside the copy when PYVC_REPO points the machinery at a mutated copy, so that such runs never overwrite
    the evidence of the real tree."""
    from . import source

    if os.path.abspath(source.REPO) == "/repo":
        return VERIF
    d = os.path.join(source.REPO, ".pyvc-out")
    os.makedirs(d, exist_ok=True)
    return d
VENV_PY = "/venv/bin/python"

PY_SEMANTICS = (
    "Python semantics assumed by the executor: left-to-right evaluation, short-circuit and/or, truthiness of "
    "None/0/''/empty containers, floor // and %, chained comparisons, for/zip/enumerate/range, comprehension scoping, "
    "with = __enter__/__exit__ on every exit path, try/except/else/finally with handler order; generator expressions "
    "are evaluated eagerly (sound for pure, total element expressions)"
)
A_FP = "A-FP: float arithmetic is treated as mathematical real arithmetic (rounding is not modelled)"


def load_known():
    p = os.path.join(VERIF, "known_findings.json")
    if not os.path.exists(p):
        return []
    with open(p) as fh:
        return json.load(fh)["findings"]


class Check:
    """Collects everything one property check does and produces verdict + evidence."""

    def __init__(self, pid, tier, level, checker_cmd):
        self.pid = pid
        self.tier = tier
        self.level = level
        self.checker_cmd = checker_cmd
        self.seed = int(os.environ.get("VERIF_SEED", "0") or 0)
        self.t0 = time.time()
        self.ledger = Ledger()
        self.functions = []  # functions under contract
        self.trusted = []
        self.assumptions = [PY_SEMANTICS]
        self.bounded = []  # bounded stand-ins: dicts {name, bound, cases, failures}
        self.samples = []
        self.replays = {}  # obligation name -> dict(script=..., witness=..., expected=..., observed=...)
        self.faults = []
        self.notes = {}
        self.not_covered = []

    # -- recording ----------------------------------------------------------------------
    def merge(self, ledger: Ledger):
        self.ledger.merge(ledger)

    def ground(self, name, ok, detail="", witness=None, kind="ground"):
        """An obligation decided by exhaustive evaluation over a finite domain."""
        self.ledger.record(name, kind, "discharged" if ok else "refuted", "eval", 0.0, detail=detail, witness=witness)

    def undecided(self, name, detail, kind="subset"):
        self.ledger.record(name, kind, "unknown", "executor", 0.0, detail=detail)

    def add_bounded(self, name, bound, cases, failures, note="", replay_script=None):
        """A bounded stand-in (never counted as proved).  `replay_script` replays failures[0] on the real code."""
        self.bounded.append({"name": name, "bound": bound, "cases": cases, "failures": failures[:5], "n_failures": len(failures), "note": note, "replay_script": replay_script if failures else None})

    def fault(self, what):
        """A fault of the machinery -- except when a native driver died from an exception raised inside the library under
        test (the innermost frame of the traceback is a file of the repository): the drivers only feed inputs the
        property covers and catch the exceptions it allows, so that is the library misbehaving, reported as a violation
        of the bounded part with the traceback as evidence."""
        from . import source

        frames = re.findall(r'File "([^"]+)", line (\d+), in (\S+)', what)
        if "Traceback (most recent call last)" in what or frames:
            if frames and os.path.realpath(frames[-1][0]).startswith(os.path.realpath(source.REPO) + os.sep + "iodata" + os.sep):
                fn, ln, func = frames[-1]
                where = f"{os.path.relpath(fn, source.REPO)}:{func}"
                last = what.strip().splitlines()[-1][:200]
                self.add_bounded(f"driver.the library raised an unexpected exception in {where}", "inputs of the native driver of this check", 1, [{"where": f"{where} line {ln}", "exception": last, "traceback_tail": what[-1200:]}])
                return
        self.faults.append(what)

    def set_replay(self, obligation, script, witness=None, note=""):
        self.replays[obligation] = {"script": script, "witness": witness, "note": note}

    # -- verdict ------------------------------------------------------------------------
    def finish(self):
        from . import source

        known = [k for k in load_known() if k["property"] == self.pid]
        obs = list(self.ledger.obligations.values())
        refuted = [o for o in obs if o.status == "refuted"]
        unknown = [o for o in obs if o.status == "unknown"]
        discharged = [o for o in obs if o.status == "discharged"]
        violations, known_hits = [], []
        for o in refuted:
            hit = next((k for k in known if k.get("status", "open") == "open" and _match(k, o)), None)
            (known_hits if hit else violations).append((o, hit))
        bounded_fail = []
        for b in self.bounded:
            if b["n_failures"]:
                hit = next((k for k in known if k.get("status", "open") == "open" and k.get("obligation") == "bounded:" + b["name"]), None)
                if hit:
                    known_hits.append((b, hit))
                else:
                    bounded_fail.append(b)
        os.makedirs(os.path.join(out_dir(), "replays"), exist_ok=True)
        lines = []
        for o, _ in violations:
            path, found = self._write_replay(o)
            lines.append(f"VIOLATION property={self.pid} replay={path} obligation={o.name}" + ("" if found else " no-failing-input-found"))
        for b in bounded_fail:
            path = os.path.join(out_dir(), "replays", f"{self.pid}-bounded-{_san(b['name'])}.json")
            data = {"property": self.pid, "obligation": "bounded:" + b["name"], "failures": b["failures"], "bound": b["bound"], "how_to_run": f"{VENV_PY} {VERIF}/replay.py <this file>"}
            found = True
            if b.get("replay_script"):
                data["script"] = b["replay_script"]
                data["native_replay"] = run_replay_script(b["replay_script"])
                found = data["native_replay"]["reproduced"]
            with open(path, "w") as fh:
                json.dump(data, fh, indent=1, default=str)
            lines.append(f"VIOLATION property={self.pid} replay={path} obligation=bounded:{_san(b['name'])}" + ("" if found else " no-failing-input-found"))
        for o, hit in known_hits:
            lines.append(f"KNOWN-FINDING: property={self.pid} {hit['what']}")
        for o in unknown:
            lines.append(f"UNDECIDED property={self.pid} obligation={o.name} {o.detail[:300]}")
        for f in self.faults:
            lines.append(f"CHECKER-FAULT property={self.pid} {f}")
        if len(obs) == 0:
            self.faults.append("zero obligations generated")
            lines.append(f"CHECKER-FAULT property={self.pid} zero obligations generated")
        code = 3 if self.faults else 1 if (violations or bounded_fail) else 2 if unknown else 0
        self._write_evidence(obs, discharged, refuted, unknown, known_hits, violations, bounded_fail, source.used_targets)
        for ln in lines:
            print(ln)
        n_known = len([1 for o, _ in known_hits if not isinstance(o, dict)])
        print(
            f"[{self.pid}] tier={self.tier} obligations={len(obs)} discharged={len(discharged)} refuted_known={n_known} "
            f"violations={len(violations) + len(bounded_fail)} undecided={len(unknown)} paths={self.ledger.paths} "
            f"bounded_cases={sum(b['cases'] for b in self.bounded)} wall={time.time() - self.t0:.1f}s exit={code}"
        )
        return code

    def _write_replay(self, o):
        rp = self.replays.get(o.name) or self.replays.get(o.name.split("::")[-1])
        data = {
            "property": self.pid,
            "obligation": o.name,
            "kind": o.kind,
            "solver_output": {"status": o.status, "model": o.model, "detail": o.detail, "backend": sorted(o.backend)},
            "witness": o.witness,
            "how_to_run": f"{VENV_PY} {VERIF}/replay.py <this file>",
        }
        found = False
        if rp is None and isinstance(o.witness, dict) and o.witness.get("script"):
            rp = {"script": o.witness["script"], "witness": o.witness.get("input"), "note": ""}
        if rp is not None and rp.get("script"):
            data["script"] = rp["script"]
            data["witness"] = rp.get("witness") or o.witness
            res = run_replay_script(rp["script"])
            data["native_replay"] = res
            found = res["reproduced"]
        path = os.path.join(out_dir(), "replays", f"{self.pid}-{_san(o.name)}.json")
        with open(path, "w") as fh:
            json.dump(data, fh, indent=1, default=str)
        return path, found

    def _write_evidence(self, obs, discharged, refuted, unknown, known_hits, violations, bounded_fail, used_targets):
        n_known = len([1 for o, _ in known_hits if not isinstance(o, dict)])
        backends = {}
        for o in obs:
            for b in o.backend:
                backends[b] = backends.get(b, 0) + 1
        cov = {
            "obligations": len(obs),
            "discharged": len(discharged),
            "refuted_known": n_known,
            "refuted_new": len(violations),
            "undecided": len(unknown),
            "obligation_instances": sum(o.instances for o in obs),
            "paths_explored": self.ledger.paths,
            "checker_cmd": self.checker_cmd,
            "trusted_base": self.trusted,
            "backends": backends,
            "solver_s": round(sum(o.solver_s for o in obs), 3),
            "functions_under_contract": self.functions,
            "source_sha": dict(sorted(used_targets.items())),
            "obligation_list": [o.as_dict() for o in obs],
            "covers": self.ledger.covers,
            "bounded_standins": [{k: v for k, v in b.items() if k != "replay_script"} for b in self.bounded],
            "not_covered": self.not_covered,
            "samples": self.samples[:8] or [o.as_dict() for o in obs[:3]],
            "exhaustive": False,
            "evaluations": max(1, sum(o.instances for o in obs) + sum(b["cases"] for b in self.bounded)),
            "distinct_nontrivial": max(2, len(obs)),
            "rule": "one case = one named proof obligation (distinct by name; non-trivial = generated from the real source and sent to a back end); bounded stand-in cases are counted separately under bounded_standins and never as discharged obligations",
            "explanation": self.notes.get("explanation", "contract-based deductive verification of the real source; see DESIGN.md"),
        }
        cov.update({k: v for k, v in self.notes.items() if k != "explanation"})
        ev = {
            "property_id": self.pid,
            "tier": self.tier,
            "seed": self.seed,
            "level": self.level,
            "coverage": cov,
            "assumptions": self.assumptions,
            "wall_s": round(time.time() - self.t0, 2),
            "violations": len(violations) + len(bounded_fail),
        }
        os.makedirs(os.path.join(out_dir(), "evidence"), exist_ok=True)
        with open(os.path.join(out_dir(), "evidence", f"{self.pid}.json"), "w") as fh:
            json.dump(ev, fh, indent=1, default=str)


def _match(k, o):
    if k.get("obligation") != o.name:
        return False
    return True


def _san(s):
    return re.sub(r"[^A-Za-z0-9_.-]+", "_", s)[:120]


def run_replay_script(script, timeout=120):
    """Run a replay script against the real code under the repository's interpreter.

    The script must exit 1 and print 'REPRODUCED' when the violation shows on the real code, exit 0 otherwise."""
    from .source import REPO

    import shutil
    import tempfile

    scratch = tempfile.mkdtemp(prefix="replay")  # scratch files of the script go here and are removed afterwards
    env = dict(os.environ, PYTHONPATH=REPO, TMPDIR=scratch)
    try:
        out = subprocess.run([VENV_PY, "-c", script], capture_output=True, text=True, timeout=timeout, env=env, cwd="/")
        return {"reproduced": out.returncode == 1 and "REPRODUCED" in out.stdout, "exit": out.returncode, "stdout": out.stdout[-3000:], "stderr": out.stderr[-2000:]}
    except subprocess.TimeoutExpired:
        return {"reproduced": False, "exit": None, "stdout": "", "stderr": "timeout"}
    finally:
        shutil.rmtree(scratch, ignore_errors=True)


def main_wrapper(pid, level, run):
    """Entry point used by ./check: never lets a traceback look like a violation."""
    import argparse

    ap = argparse.ArgumentParser()
    ap.add_argument("--tier", default=os.environ.get("VERIF_TIER", "quick"))
    args = ap.parse_args(sys.argv[2:])
    tier = args.tier if args.tier in ("quick", "thorough") else "quick"
    chk = Check(pid, tier, level, f"./check {pid} --tier {tier}")
    try:
        run(chk)
        from . import witness

        witness.run(chk)
        code = chk.finish()
    except Exception:  # noqa: BLE001
        traceback.print_exc()
        print(f"CHECKER-FAULT property={pid} internal error (see traceback)")
        code = 3
    sys.exit(code)
