"""Glue between contracts and the executor: run a target on all paths and check its contract."""

from __future__ import annotations

import importlib

from . import source
from .core import Explorer, Ledger, OutsideSubset
from .interp import Config, Interp, PyRaise
from .values import ustr_axioms


class Outcome:
    """Result of one path: kind in {'return', 'raise'}."""

    def __init__(self, kind, value, ctx, interp):
        self.kind = kind
        self.value = value
        self.ctx = ctx
        self.interp = interp

    @property
    def exc_class(self):
        from .values import Obj, SymExc

        e = self.value
        if isinstance(e, Obj):
            return e.cls
        if isinstance(e, SymExc):
            return e.cls
        return type(e)


def get_target(dotted):
    """'iodata.convert:_convert_convention_shell' or 'iodata.iodata:IOData.charge' -> host object."""
    modname, qual = dotted.split(":")
    mod = source.import_repo(modname)
    obj = mod
    for part in qual.split("."):
        if part == "fget":
            obj = obj.fget
        elif part == "fset":
            obj = obj.fset
        else:
            obj = obj.__dict__[part] if isinstance(obj, type) and part in obj.__dict__ else getattr(obj, part)
    return obj


def verify(target_name, setup, post, config=None, ledger=None, max_paths=2000, call=None, quant_feas=False):
    """Explore all paths of a target.

    setup(ctx, interp) -> (fn, args, kwargs, env)    builds symbolic arguments, adds assumptions
    post(outcome, env)                               proves the contract clauses with ctx.prove(...)
    """
    ledger = ledger if ledger is not None else Ledger()
    ex = Explorer(target_name, ledger, max_paths=max_paths, quant_feas=quant_feas)
    cfg = config or Config()

    def run(ctx):
        interp = Interp(ctx, cfg)
        fn, args, kwargs, env = setup(ctx, interp)
        for ax in ustr_axioms():
            ctx.assume(ax)
        try:
            val = call(interp, fn, args, kwargs) if call else interp.call(fn, args, kwargs)
            out = Outcome("return", val, ctx, interp)
        except PyRaise as pr:
            out = Outcome("raise", pr.exc, ctx, interp)
            out.cause = pr.cause
        for ax in ustr_axioms():
            ctx.assume(ax)
        ledger.cover(f"{target_name}::cover.{out.kind}", True)
        post(out, env)

    try:
        ex.explore(run)
    except OutsideSubset as exc:
        if __import__("os").environ.get("PYVC_TRACE"):
            raise
        ledger.record(f"{target_name}::subset", "subset", "unknown", "executor", 0.0, detail=f"outside subset: {exc}")
    if not getattr(cfg, "modifies_args", False) and ex.paths:
        # frame: no path wrote into an array of the caller (a violating path records `refuted` under the same name)
        ledger.record(f"{target_name}::frame.no-write-to-caller-arrays", "frame", "discharged", "provenance", 0.0)
    if ex.paths == 0:
        ledger.record(f"{target_name}::cover.any-path", "cover", "unknown", "executor", 0.0, detail="no feasible path: vacuous")
    return ledger
