"""Run the real readers / writers with one unit constant of the format module scaled by 2 and report, per
(format, attribute), the power with which each unit constant enters the loaded / written numbers.

usage: /venv/bin/python units_probe.py <maxsize> ; prints one JSON document.
The constant is an indeterminate: the loaded value is c * u^k * (number in the file); scaling u by 2 scales the
value by 2^k, so k = log2(ratio), which must be the same integer for every non-zero element."""

import glob
import importlib
import json
import math
import os
import sys
import tempfile
import warnings

import numpy as np

warnings.simplefilter("ignore")
import iodata  # noqa: E402
from iodata import IOData, dump_one, load_many, load_one  # noqa: E402
from iodata.api import FORMAT_MODULES, _select_format_module  # noqa: E402
from iodata.utils import FileFormatError  # noqa: E402

EXTRA_FMT = {"water_hf_ccpvtz_freq_qchem.out": "qchemlog", "h2o_dimer_eda_qchem5.3.out": "qchemlog", "PCGamess_PUNCH.dat": "gamess", "LiCl_STO4G_Gaussian_input.json": "json_qcschema", "LiCl_molecule.json": "json_qcschema"}
EXTRAS = ("nh3_molden_cart.molden", "al_fcc.xyz", "mgo.xyz", *EXTRA_FMT)  # always visited, whatever the per-format quota
UNITS = ("angstrom", "electronvolt", "nanometer", "picosecond", "amu", "kcalmol", "calmol", "kjmol", "meter", "second")
maxsize = int(sys.argv[1]) if len(sys.argv) > 1 else 300000
data_dir = os.path.join(os.path.dirname(iodata.__file__), "test", "data")
tmp = tempfile.mkdtemp()
__import__("atexit").register(__import__("shutil").rmtree, tmp, True)


def numeric_leaves(obj, prefix=""):
    """(path, float array) of every numeric datum reachable from an IOData object."""
    import attrs

    out = {}

    def visit(x, path, depth=0):
        if x is None or depth > 4:
            return
        if isinstance(x, (bool, str)):
            return
        if isinstance(x, (int, float, np.integer, np.floating)):
            if isinstance(x, (float, np.floating)):
                out[path] = np.array([float(x)])
            return
        if isinstance(x, np.ndarray):
            if x.dtype.kind == "f":
                out[path] = x.astype(float).ravel()
            return
        if isinstance(x, dict):
            for k, v in x.items():
                visit(v, f"{path}[{k!r}]", depth + 1)
            return
        if isinstance(x, (list, tuple)):
            return
        if hasattr(x, "__attrs_attrs__"):
            if type(x).__name__ in ("MolecularBasis", "MolecularOrbitals", "Shell"):
                return  # dimensionless by definition here (exponents are in bohr^-2 in every format we read)
            for a in x.__attrs_attrs__:
                name = a.name.lstrip("_")
                try:
                    visit(getattr(x, name), f"{path}.{name}" if path else name, depth + 1)
                except Exception:
                    pass

    visit(obj, prefix)
    return out


EPS = 1e-5


def exponent(base, pert, factor=1.0 + EPS, tol=0.05, floor=1e-9):
    """k with pert == factor^k * base on all non-zero elements, or 'mixed' / None (no information)."""
    if base.shape != pert.shape:
        return "shape-changed"
    mask = np.abs(base) > floor
    if not mask.any():
        return None
    r = pert[mask] / base[mask]
    if (r <= 0).any():
        return "mixed"
    k = np.log(r) / math.log(factor)
    k0 = np.round(np.median(k))
    if np.abs(k - k0).max() > tol:
        return "mixed"
    return int(k0)


def load_any(path, fmt, many):
    if many:
        return next(iter(load_many(path, fmt=fmt)))
    return load_one(path, fmt=fmt)


report = {"readers": {}, "writers": {}, "sites": {}, "files": 0, "count": {}}
maxfiles = int(sys.argv[2]) if len(sys.argv) > 2 else 1000
for path in sorted(glob.glob(os.path.join(data_dir, "*")), key=os.path.getsize):
    if not os.path.isfile(path) or (os.path.getsize(path) > maxsize and os.path.basename(path) not in EXTRAS):
        continue
    import fnmatch

    cands = [k for k, m in FORMAT_MODULES.items() if hasattr(m, "load_one") and any(fnmatch.fnmatch(os.path.basename(path), p) for p in m.PATTERNS)]
    if os.path.basename(path).endswith(".xyz") and "extxyz" not in cands:
        cands.append("extxyz")
    if os.path.basename(path) in EXTRA_FMT and EXTRA_FMT[os.path.basename(path)] not in cands:
        cands.append(EXTRA_FMT[os.path.basename(path)])
    for name in cands:
        mod = FORMAT_MODULES[name]
        if sum(report["count"].get(name, {}).values()) >= maxfiles and name in report["count"] and os.path.basename(path) not in EXTRAS:
            continue
        units_here = [u for u in UNITS if hasattr(mod, u)]
        try:
            base = numeric_leaves(load_any(path, name, False))
        except Exception:
            continue
        report["files"] += 1
        report.setdefault("attrs_seen", {}).setdefault(name, {})
        for a in base:
            if np.any(np.abs(base[a]) > 1e-9):  # an all-zero datum carries no information about a factor
                report["attrs_seen"][name][a] = report["attrs_seen"][name].get(a, 0) + 1
        report["count"].setdefault(name, {})[os.path.basename(path)] = 1
        units_here = [u for u in UNITS if any(hasattr(m, u) for m in FORMAT_MODULES.values())]
        for u in units_here:
            holders = [m for m in FORMAT_MODULES.values() if hasattr(m, u)]
            true = getattr(holders[0], u)
            for m in holders:
                setattr(m, u, true * (1.0 + EPS))
            try:
                pert = numeric_leaves(load_any(path, name, False))
            except Exception:
                pert = None
            finally:
                for m in holders:
                    setattr(m, u, true)
            if pert is None:
                continue
            for attr, arr in base.items():
                if attr not in pert:
                    continue
                k = exponent(arr, pert[attr])
                if k is None:
                    continue
                slot = report["readers"].setdefault(name, {}).setdefault(attr.split("[")[0] if attr.startswith(("extra", "atffparams")) is False else attr, {}).setdefault(u, {})
                slot[str(k)] = slot.get(str(k), 0) + 1
                if k not in (0, None):
                    report["sites"].setdefault(name, {})[u] = True
        for u in units_here:
            report["sites"].setdefault(name, {}).setdefault(u, False)

# extended XYZ with a masses column (the corpus has none)
p = os.path.join(tmp, "masses.xyz")
open(p, "w").write('2\nProperties=species:S:1:pos:R:3:masses:R:1:force:R:3 energy=-1.0 pbc="F F F"\nO 0.0 0.0 0.1 15.999 0.25 -0.5 0.125\nH 0.0 0.7 -0.4 1.008 -0.25 0.5 -0.125\n')
try:
    mod = FORMAT_MODULES["extxyz"]
    base = numeric_leaves(load_one(p, fmt="extxyz"))
    report.setdefault("attrs_seen", {}).setdefault("extxyz", {})
    for a in base:
        report["attrs_seen"]["extxyz"][a] = report["attrs_seen"]["extxyz"].get(a, 0) + 1
    for u in ("angstrom", "amu"):
        true = getattr(mod, u)
        setattr(mod, u, true * (1.0 + EPS))
        try:
            pert = numeric_leaves(load_one(p, fmt="extxyz"))
        finally:
            setattr(mod, u, true)
        for attr, arr in base.items():
            k = exponent(arr, pert[attr])
            if k is not None:
                slot = report["readers"].setdefault("extxyz", {}).setdefault(attr, {}).setdefault(u, {})
                slot[str(k)] = slot.get(str(k), 0) + 1
                if k != 0:
                    report["sites"].setdefault("extxyz", {})[u] = True
    d = load_one(p, fmt="extxyz")
    report.setdefault("masses_crafted", {})["extxyz"] = [float(d.atmasses[0] / 15.999), float(d.atmasses[1] / 1.008)]
except Exception as exc:
    report["extxyz_crafted_error"] = repr(exc)[:300]

# triclinic GROMACS box (9 numbers: xx yy zz xy xz yx yz zx zy) -- the corpus boxes are rectangular
src = os.path.join(data_dir, "water.gro")
if os.path.exists(src):
    try:
        lines = open(src).read().splitlines()
        natom = int(lines[1])
        lines[natom + 2] = "   1.82060   1.72060   1.62060   0.00000   0.00000   0.41000   0.00000   0.32000   0.23000"
        p = os.path.join(tmp, "triclinic.gro")
        open(p, "w").write("\n".join(lines[: natom + 3]) + "\n")
        mod = FORMAT_MODULES["gromacs"]
        base = load_one(p, fmt="gromacs").cellvecs.ravel()
        true = mod.nanometer
        mod.nanometer = true * (1.0 + EPS)
        try:
            pert = load_one(p, fmt="gromacs").cellvecs.ravel()
        finally:
            mod.nanometer = true
        k = exponent(base, pert)
        slot = report["readers"].setdefault("gromacs", {}).setdefault("cellvecs", {}).setdefault("nanometer", {})
        slot[str(k)] = slot.get(str(k), 0) + 1
        report["gro_triclinic_nonzero"] = int((np.abs(base) > 1e-9).sum())
    except Exception as exc:
        report["gro_crafted_error"] = repr(exc)[:300]

# CHGCAR with a non-orthogonal cell and a constant value: the file stores density * cell volume
try:
    cell = np.array([[3.0, 0.0, 0.0], [-1.5, 2.598076211, 0.0], [0.3, 0.2, 4.0]])
    p = os.path.join(tmp, "CHGCAR.hex")
    with open(p, "w") as fh:
        fh.write("hexagonal test\n   1.0\n")
        for r in cell:
            fh.write("  %12.6f %12.6f %12.6f\n" % tuple(r))
        fh.write("   O\n   1\nDirect\n  0.000000  0.000000  0.000000\n\n   2   2   2\n")
        fh.write(" ".join(["0.5000000000E+01"] * 8) + "\n")
    d = load_one(p, fmt="chgcar")
    vol = abs(np.linalg.det(cell * iodata.utils.angstrom))
    report["chgcar_abs"] = {"density_times_volume": float(d.cube.data.ravel()[0] * vol), "expected": 5.0}
except Exception as exc:
    report["chgcar_crafted_error"] = repr(exc)[:300]

# VASP: a negative scaling factor is the cell volume in cubic angstrom (same crystal as scale 3.57 here)
try:
    p = os.path.join(tmp, "POSCAR.negscale")
    open(p, "w").write("negative scale\n  -45.499293\n 1.0 0.0 0.0\n 0.0 1.0 0.0\n 0.0 0.0 1.0\n O\n 1\nDirect\n 0.25 0.25 0.25\n")
    d = load_one(p, fmt="poscar")
    report["poscar_negative_scale"] = {"cell_edge_in_angstrom": float(d.cellvecs[0, 0] / iodata.utils.angstrom), "expected": 45.499293 ** (1.0 / 3.0)}
except Exception as exc:
    report["poscar_negative_scale"] = {"error": repr(exc)[:200]}
# Gaussian input: units=au (or units=bohr) in the route section means the coordinates are in bohr
try:
    p = os.path.join(tmp, "au.com")
    open(p, "w").write("#p hf/sto-3g units=au\n\ntitle\n\n0 1\nH 0.0 0.0 0.0\nH 0.0 0.0 1.4\n\n")
    d = load_one(p, fmt="gaussianinput")
    report["gaussianinput_units_au"] = {"bond_in_bohr": float(d.atcoords[1, 2] - d.atcoords[0, 2]), "expected": 1.4}
except Exception as exc:
    report["gaussianinput_units_au"] = {"error": repr(exc)[:200]}

# QCSchema molecule with a `masses` entry (unified atomic mass units by the schema); none in the corpus
src = os.path.join(data_dir, "LiCl_molecule.json")
if os.path.exists(src):
    try:
        mol = json.load(open(src))
        tgt = mol["molecule"] if "molecule" in mol and "symbols" not in mol else mol
        tgt["masses"] = [6.94, 35.45][: len(tgt["symbols"])]
        p = os.path.join(tmp, "masses.json")
        json.dump(mol, open(p, "w"))
        d = load_one(p, fmt="json_qcschema")
        if d.atmasses is not None:
            report.setdefault("masses_crafted", {})["json_qcschema"] = [float(d.atmasses[0] / 6.94), float(d.atmasses[1] / 35.45)]
    except Exception as exc:
        report["json_crafted_error"] = repr(exc)[:300]

# Molden files with coordinates in angstrom: the corpus has them in a.u.; a variant is derived from a corpus file
src = os.path.join(data_dir, "nh3_molden_cart.molden")
if os.path.exists(src):
    text = open(src).read()
    import re as _re

    m = _re.search(r"\[Atoms\]\s*(AU|au|Au)", text)
    if m:
        # same numbers, declared as angstrom: loaded coordinates must scale by the angstrom factor
        p = os.path.join(tmp, "angs.molden")
        open(p, "w").write(text[: m.start()] + "[Atoms] Angs" + text[m.end():])
        mod = FORMAT_MODULES["molden"]
        try:
            a0 = load_one(src).atcoords
            true = mod.angstrom
            mod.angstrom = true * (1.0 + EPS)
            try:
                a1 = load_one(p, norm_threshold=1e10).atcoords
            finally:
                mod.angstrom = true
            a2 = load_one(p, norm_threshold=1e10).atcoords
            k = exponent(a2.ravel(), a1.ravel())
            report["readers"].setdefault("molden", {}).setdefault("atcoords(Angs)", {}).setdefault("angstrom", {})[str(k)] = 1
            report["readers"]["molden"]["atcoords(Angs)"]["_factor"] = float(np.median(a2[np.abs(a0) > 1e-6] / a0[np.abs(a0) > 1e-6]))
            report["sites"].setdefault("molden", {})["angstrom"] = True
        except Exception as exc:
            report["readers"].setdefault("molden", {})["atcoords(Angs)"] = {"error": repr(exc)[:200]}

# writers: dump with a scaled constant, read back with the true one
def sample_objects():
    out = {}
    for fn in ("water_sto3g_hf_g03.fchk", "h2o_sto3g.wfn", "water.xyz", "ch5plus.pdb", "caffeine.mol2", "example.sdf", "POSCAR.water", "cubegen_ch4_6_gen.cube", "peroxide_opt.fchk", "nh3_molden_cart.molden"):
        p = os.path.join(data_dir, fn)
        if os.path.exists(p):
            try:
                out[fn] = load_one(p)
            except Exception:
                pass
    o = out.get("water_sto3g_hf_g03.fchk")
    if o is not None:
        o.atmasses = np.array([15.99, 1.008, 1.008]) * iodata.utils.amu
        o.cellvecs = np.eye(3) * 9.0
        o.atgradient = np.ones((3, 3)) * 0.01
    return out


for fn, obj in sample_objects().items():
    for name, mod in sorted(FORMAT_MODULES.items()):
        if not (hasattr(mod, "dump_one") and hasattr(mod, "load_one")):
            continue
        units_here = [u for u in UNITS if hasattr(mod, u)]
        f0 = os.path.join(tmp, "w0." + name)
        try:
            dump_one(obj, f0, fmt=name, allow_changes=True)
            base = numeric_leaves(load_one(f0, fmt=name))
        except Exception:
            continue
        units_all = [u for u in UNITS if any(hasattr(m, u) for m in FORMAT_MODULES.values())]
        for u in units_all:
            holders = [m for m in FORMAT_MODULES.values() if hasattr(m, u)]
            true = getattr(holders[0], u)
            for m in holders:
                setattr(m, u, true * 2.0)
            try:
                f1 = os.path.join(tmp, "w1." + name)
                dump_one(obj, f1, fmt=name, allow_changes=True)
                pert = numeric_leaves(load_one(f1, fmt=name))
            except Exception:
                pert = None
            finally:
                for m in holders:
                    setattr(m, u, true)
            if pert is None:
                continue
            for attr, arr in base.items():
                if attr in pert:
                    k = exponent(arr, pert[attr], factor=2.0, tol=0.03, floor=0.5)
                    if k is None:
                        continue
                    slot = report["writers"].setdefault(name, {}).setdefault(attr, {}).setdefault(u, {})
                    slot[str(k)] = slot.get(str(k), 0) + 1

# input writers
import io  # noqa: E402
import re  # noqa: E402

from iodata.inputs import gaussian, orca  # noqa: E402

obj = IOData(atnums=[8, 1, 1], atcoords=np.array([[0.1, 0.2, 0.3], [1.0, 0.5, -0.7], [-1.2, 0.4, 0.9]]))
for prog, mod in (("gaussian", gaussian), ("orca", orca)):
    def coords(text):
        return np.array([[float(x) for x in m.groups()] for m in re.finditer(r"^[A-Z][a-z]?\s+(-?\d+\.\d+)\s+(-?\d+\.\d+)\s+(-?\d+\.\d+)\s*$", text, re.M)]).ravel()

    buf = io.StringIO()
    mod.write_input(buf, obj)
    base = coords(buf.getvalue())
    true = mod.angstrom
    mod.angstrom = true * 2.0
    try:
        buf = io.StringIO()
        mod.write_input(buf, obj)
        pert = coords(buf.getvalue())
    finally:
        mod.angstrom = true
    report["writers"].setdefault("input:" + prog, {}).setdefault("atcoords", {}).setdefault("angstrom", {})[str(exponent(base, pert, factor=2.0, tol=0.01))] = 1
    report["writers"]["input:" + prog]["atcoords"]["_abs"] = float(np.abs(base - obj.atcoords.ravel() / 1.8897261246257702).max())

# absolute probes ------------------------------------------------------------------------------------------
# masses: loaded mass / (standard atomic weight in unified atomic mass units) must be the amu -> a.u. factor (1822.888...)
WEIGHTS = {1: 1.008, 2: 4.0026, 3: 6.94, 6: 12.011, 7: 14.007, 8: 15.999, 9: 18.998, 16: 32.06, 17: 35.45, 18: 39.948, 29: 63.546}
MASS_FILES = [("water_sto3g_hf_g03.fchk", "fchk"), ("peroxide_opt.fchk", "fchk"), ("PCGamess_PUNCH.dat", "gamess"), ("water_hf_ccpvtz_freq_qchem.out", "qchemlog"), ("LiCl_STO4G_Gaussian_input.json", "json_qcschema"), ("LiCl_molecule.json", "json_qcschema"), ("CuSCN_molecule.json", "json_qcschema"), ("water_element.xyz", "extxyz"), ("al_fcc.xyz", "extxyz"), ("brushytail.crd", "charmm")]
report["masses"] = {}
for fn, fmt in MASS_FILES:
    p = os.path.join(data_dir, fn)
    if not os.path.exists(p):
        continue
    try:
        d = load_one(p, fmt=fmt)
    except Exception:
        continue
    if d.atmasses is None or d.atnums is None:
        continue
    ratios = [float(m / WEIGHTS[int(z)]) for m, z in zip(d.atmasses, d.atnums) if int(z) in WEIGHTS and m > 0]
    if ratios:
        report["masses"].setdefault(fmt, []).append({"file": fn, "ratio_min": min(ratios), "ratio_max": max(ratios)})
# Q-Chem multipoles are printed in Debye (Debye-Ang): 1 a.u. of dipole = 2.541746 Debye
report["qchem_dipole"] = None
p = os.path.join(data_dir, "water_hf_ccpvtz_freq_qchem.out")
if os.path.exists(p):
    import re as _re2

    text = open(p).read()
    m = None
    for m in _re2.finditer(r"Dipole Moment \(Debye\)\s*\n\s*X\s+(-?[\d.]+)\s+Y\s+(-?[\d.]+)\s+Z\s+(-?[\d.]+)", text):
        pass
    try:
        d = load_one(p, fmt="qchemlog")
        if m is not None and d.moments and (1, "c") in d.moments:
            printed = np.array([float(x) for x in m.groups()])
            loaded = np.asarray(d.moments[(1, "c")], float)
            report["qchem_dipole"] = {"printed_debye": printed.tolist(), "loaded": loaded.tolist(), "ratio": float(np.median(loaded[np.abs(printed) > 1e-6] / printed[np.abs(printed) > 1e-6]))}
    except Exception as exc:
        report["qchem_dipole"] = {"error": repr(exc)[:200]}
# coordinates: absolute factor of the angstrom-based readers on a file with known numbers
p = os.path.join(data_dir, "water.xyz")
if os.path.exists(p):
    first = open(p).read().splitlines()[2].split()
    d = load_one(p)
    report["xyz_abs_factor"] = float(d.atcoords[0][np.argmax(np.abs(d.atcoords[0]))] / float(first[1 + int(np.argmax(np.abs(d.atcoords[0])))]))
report["constants"] = {u: getattr(iodata.utils, u) for u in UNITS}
print(json.dumps(report))
