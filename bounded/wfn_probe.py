"""Wavefunction conversion probe (bounded stand-in for C01).

usage: /venv/bin/python wfn_probe.py <seed> <quick|thorough>
Random wavefunction objects (shell order, conventions, contraction scheme, orbital kind, virtuals, ghost/ECP centres
are *features* of a case) are written with every wavefunction writer and read back.  The written and the reloaded
wavefunction are compared as functions of space by an evaluator that is independent of iodata
(bounded/overlap_oracle.py: Cartesian Gaussians, solid harmonics from the Legendre definition), plus occupations,
energies, spin and density matrices.  A failing case is minimised feature by feature towards the baseline (shells
grouped by atom, the target format's own conventions, segmented contractions, closed-shell restricted orbitals with
virtuals); the remaining features name the group the failure is reported under."""

import json
import os
import sys
import tempfile
import warnings

import numpy as np

sys.path.insert(0, os.path.dirname(os.path.abspath(__file__)))
import overlap_oracle as oo  # noqa: E402

warnings.simplefilter("ignore")
from iodata import IOData, dump_one, load_one  # noqa: E402
from iodata.basis import MolecularBasis, Shell  # noqa: E402
from iodata.convert import CCA_CONVENTIONS, HORTON2_CONVENTIONS  # noqa: E402
from iodata.formats import fchk, molden, wfn  # noqa: E402
from iodata.orbitals import MolecularOrbitals  # noqa: E402
from iodata.overlap import compute_overlap  # noqa: E402

seed = int(sys.argv[1]) if len(sys.argv) > 1 else 0
tier = sys.argv[2] if len(sys.argv) > 2 else "quick"
only = sys.argv[3] if len(sys.argv) > 3 else None
tmp = tempfile.mkdtemp()
__import__("atexit").register(__import__("shutil").rmtree, tmp, True)

FORMATS = ["fchk", "molden", "molekel", "wfn", "wfx"]
OWN = {"fchk": fchk.CONVENTIONS, "molden": molden.CONVENTIONS, "molekel": molden.CONVENTIONS, "wfn": wfn.CONVENTIONS, "wfx": wfn.CONVENTIONS}
LMAX = {"fchk": 4, "molden": 4, "molekel": 4, "wfn": 4, "wfx": 4}
TOL = {"fchk": 2e-6, "molden": 1e-8, "molekel": 2e-6, "wfn": 2e-6, "wfx": 1e-9}  # molekel: coordinates have 6 decimals
BASE = {"order": "grouped", "conv": "own", "contraction": "segmented", "kind": "restricted", "virtuals": True, "centres": "plain", "purecart": "c"}
CHOICES = {
    "order": ["grouped", "shuffled", "reversed"],
    "conv": ["own", "fchk", "molden", "wfn", "horton2", "cca", "random"],
    "contraction": ["segmented", "sp", "generalized"],
    "kind": ["restricted", "rohf", "aminusb", "aminusb-zero", "unrestricted"],
    "virtuals": [True, False],
    "centres": ["plain", "ghost", "ecp"],
    "purecart": ["c", "p", "mixed"],
}


def full_conventions(base):
    """A complete conventions dict (all angular momenta, both kinds) starting from `base`."""
    out = dict(HORTON2_CONVENTIONS)
    out.update(base)
    return {k: list(v) for k, v in out.items()}


def conventions_for(name, fmt, rng):
    if name == "own":
        return full_conventions(OWN[fmt])
    if name in ("fchk", "molden", "wfn"):
        return full_conventions({"fchk": fchk.CONVENTIONS, "molden": molden.CONVENTIONS, "wfn": wfn.CONVENTIONS}[name])
    if name == "horton2":
        return full_conventions({})
    if name == "cca":
        return full_conventions(CCA_CONVENTIONS)
    conv = full_conventions({})
    for key, labels in conv.items():
        if key[0] == 0:
            continue
        perm = rng.permutation(len(labels))
        conv[key] = [("-" if rng.random() < 0.4 else "") + labels[i] for i in perm]
    return conv


def make_case(case_seed, fmt, feat):
    """Deterministic in (case_seed, fmt, feat): the same molecule/basis skeleton under different features."""
    rng = np.random.default_rng(case_seed)
    natom = int(rng.integers(1, 4 if tier == "quick" else 6))
    atnums = rng.choice([1, 3, 6, 8, 9], size=natom)
    atcoords = rng.uniform(-1.5, 1.5, size=(natom, 3)) + np.arange(natom)[:, None] * np.array([1.3, 0.4, -0.2])
    atcorenums = atnums.astype(float)
    if feat["centres"] == "ghost" and natom > 1:
        atcorenums[-1] = 0.0
    if feat["centres"] == "ecp":
        atcorenums[0] = max(atcorenums[0] - 2.0, 1.0)
    lmax = min(LMAX[fmt], 2 if tier == "quick" and case_seed % 3 else 3 if case_seed % 5 else 4)
    crng = np.random.default_rng(case_seed + 7)
    shells = []
    for iatom in range(natom):
        ls = [0] + [int(x) for x in rng.integers(0, lmax + 1, size=int(rng.integers(1, 3)))]
        exps_pool = np.exp(rng.uniform(np.log(0.15), np.log(6.0), size=8))
        for k, l in enumerate(ls):
            nexp = int(rng.integers(1, 4))
            exps = np.sort(rng.choice(exps_pool, size=nexp, replace=False))[::-1] * (1 + 0.1 * k)
            if feat["purecart"] == "c" or l < 2:
                kind = "c"
            elif feat["purecart"] == "p":
                kind = "p"
            else:
                kind = "p" if crng.random() < 0.5 else "c"
            coeffs = rng.uniform(0.2, 1.0, size=(nexp, 1)) * rng.choice([-1, 1], size=(nexp, 1))
            if feat["contraction"] == "sp" and l == 0 and k == 0:
                shells.append(Shell(iatom, [0, 1], ["c", "c"], exps, np.hstack([coeffs, rng.uniform(0.2, 1.0, size=(nexp, 1))])))
            elif feat["contraction"] == "generalized" and k == 0:
                l2 = int(rng.integers(0, min(lmax, 2) + 1))
                kind2 = "c" if (feat["purecart"] == "c" or l2 < 2) else "p"
                # deliberately not in ascending order of angular momentum
                shells.append(Shell(iatom, [max(l, 1), 0, l2], [("c" if max(l, 1) < 2 else kind), "c", kind2], exps, np.hstack([coeffs, rng.uniform(0.2, 1.0, size=(nexp, 2))])))
            else:
                shells.append(Shell(iatom, [l], [kind], exps, coeffs))
    if feat["order"] == "shuffled":
        shells = [shells[i] for i in np.random.default_rng(case_seed + 1).permutation(len(shells))]
    elif feat["order"] == "reversed":
        shells = shells[::-1]
    conv = conventions_for(feat["conv"], fmt, np.random.default_rng(case_seed + 2))
    obasis = MolecularBasis(shells, conv, "L2")
    nb = obasis.nbasis
    # orthonormal orbitals: C = S^-1/2 Q
    s = compute_overlap(obasis, atcoords)
    w, v = np.linalg.eigh(s)
    if w.min() < 1e-3:
        return None  # nearly dependent functions: orbital coefficients of 1e3 and more, whose printed digits (8 in FCHK/WFN) no longer resolve the orbitals
    q, _ = np.linalg.qr(np.random.default_rng(case_seed + 3).normal(size=(nb, nb)))
    c = (v / np.sqrt(w)) @ v.T @ q
    nelec_max = 2 * nb
    nocc = int(np.clip(rng.integers(1, max(2, nb // 2 + 1)), 1, nb))
    norb = nb if feat["virtuals"] else None
    ergs = np.sort(rng.uniform(-20, 2, size=nb))
    kind = feat["kind"]
    if kind == "restricted":
        n = norb or nocc
        occs = np.array([2.0] * nocc + [0.0] * (n - nocc))
        mo = MolecularOrbitals("restricted", n, n, occs, c[:, :n], ergs[:n])
    elif kind in ("rohf", "aminusb", "aminusb-zero"):
        nsingle = 1 if nocc < nb else 0
        if kind == "aminusb-zero" and nocc + 2 <= nb:
            nsingle = 2  # two half-filled orbitals (half an alpha and half a beta electron each): no spin polarisation
        n = norb or min(nocc + nsingle, nb)
        occs = np.array(([2.0] * nocc + [1.0] * nsingle + [0.0] * nb)[:n])
        if kind == "rohf":
            mo = MolecularOrbitals("restricted", n, n, occs, c[:, :n], ergs[:n])
        elif kind == "aminusb-zero":
            mo = MolecularOrbitals("restricted", n, n, occs, c[:, :n], ergs[:n], occs_aminusb=np.zeros(n))
        else:
            amb = np.array(([0.0] * nocc + [1.0] * nsingle + [0.0] * nb)[:n])
            mo = MolecularOrbitals("restricted", n, n, occs, c[:, :n], ergs[:n], occs_aminusb=amb)
    else:
        na = nocc
        nbeta = max(nocc - 1, 0) if nocc > 1 else nocc
        q2, _ = np.linalg.qr(np.random.default_rng(case_seed + 4).normal(size=(nb, nb)))
        cb = (v / np.sqrt(w)) @ v.T @ q2
        n_a = norb or na
        n_b = norb or max(nbeta, 1)
        occs = np.array([1.0] * na + [0.0] * (n_a - na) + [1.0] * nbeta + [0.0] * (n_b - nbeta))
        mo = MolecularOrbitals("unrestricted", n_a, n_b, occs, np.hstack([c[:, :n_a], cb[:, :n_b]]), np.concatenate([ergs[:n_a], np.sort(rng.uniform(-20, 2, size=nb))[:n_b]]))
    del nelec_max
    data = IOData(atnums=atnums, atcoords=atcoords, atcorenums=atcorenums, obasis=obasis, mo=mo, energy=-1.2345678, title="probe", lot="hf", obasis_name="gen")
    if fmt == "fchk":
        # density matrices in the object's own conventions
        ca, cb_ = mo.coeffsa, mo.coeffsb
        pa = (ca * mo.occsa) @ ca.T
        pb = (cb_ * mo.occsb) @ cb_.T
        data.one_rdms = {"scf": pa + pb, "scf_spin": pa - pb}
    return data


# ---------------------------------------------------------------------------------------------------------------
# independent evaluator
def basis_values(obasis, atcoords, points):
    """(nbasis, npoint) values of the basis functions in the object's own conventions."""
    rows = []
    for sh in obasis.shells:
        r = points - np.asarray(atcoords)[sh.icenter]
        r2 = (r**2).sum(axis=1)
        for l, kind, col in zip(sh.angmoms, sh.kinds, np.asarray(sh.coeffs).T):
            l = int(l)
            powers = oo.cart_powers(l)
            cart = np.zeros((len(powers), len(points)))
            for a, ck in zip(sh.exponents, col):
                for i, p in enumerate(powers):
                    cart[i] += ck * oo.norm_cart(a, p) * r[:, 0] ** p[0] * r[:, 1] ** p[1] * r[:, 2] ** p[2] * np.exp(-a * r2)
            if kind == "c":
                std = ["x" * a + "y" * b + "z" * c if l else "1" for a, b, c in powers]
                vals = cart
            else:
                std = ["c0"] + [f"{t}{m}" for m in range(1, l + 1) for t in "cs"]
                vals = oo.tf_matrix(l) @ cart
            for lab in obasis.conventions[(l, str(kind))]:
                sgn = -1.0 if lab.startswith("-") else 1.0
                rows.append(sgn * vals[std.index(lab.lstrip("-"))])
    return np.array(rows)


def spin_orbitals(data, points):
    """[(spin, occ, energy, values)] for every spin orbital."""
    bv = basis_values(data.obasis, data.atcoords, points)
    mo = data.mo
    out = []
    for spin, coeffs, occs, ergs in (("a", mo.coeffsa, mo.occsa, mo.energiesa), ("b", mo.coeffsb, mo.occsb, mo.energiesb)):
        vals = coeffs.T @ bv
        for i in range(coeffs.shape[1]):
            out.append((spin, float(occs[i]), float(ergs[i]) if ergs is not None else None, vals[i]))
    return out, bv


def compare(a, b, fmt, points):
    """Symptoms by which b (reloaded) differs from a (written)."""
    tol = TOL[fmt]
    sym = []
    if len(a.atnums) != len(b.atnums) or not np.array_equal(a.atnums, b.atnums):
        sym.append("nuclei.atnums")
    elif not np.allclose(a.atcoords, b.atcoords, atol=1e-5):
        sym.append("nuclei.atcoords")
    elif b.atcorenums is not None and not np.allclose(a.atcorenums, b.atcorenums, atol=1e-5) and fmt != "molekel":
        sym.append("nuclei.atcorenums")
    if sym:
        return sym
    sa, bva = spin_orbitals(a, points)
    sb, bvb = spin_orbitals(b, points)
    scale = max(1.0, max(np.abs(v).max() for *_x, v in sa))
    drops_virtuals = fmt in ("wfn", "wfx")
    spins = "ab"
    if fmt == "wfn" and max(s[1] for s in sa) <= 1.0:
        # a WFN file without spin extension cannot express the spin of singly occupied orbitals (documented heuristic)
        spins = ["ab"]
    for spin in spins:
        la = [s for s in sa if s[0] in spin and (s[1] > 0 or not drops_virtuals)]
        lb = [s for s in sb if s[0] in spin and (s[1] > 0 or not drops_virtuals)]
        if len(la) != len(lb):
            sym.append(f"orbital-count.{spin}")
            continue
        for (_, oa, ea, va), (_, ob, eb, vb) in zip(la, lb):
            if abs(oa - ob) > 1e-6:
                sym.append("occupation-or-spin")
                break
            if ea is not None and eb is not None and abs(ea - eb) > 2e-5:
                sym.append("orbital-energy")
                break
            if np.abs(va - vb).max() > tol * scale * 50:
                sym.append("orbital-values")
                break
    if fmt == "fchk":
        for key in a.one_rdms:
            if key == "scf" and a.mo.kind == "restricted" and abs(a.mo.occsa.sum() - a.mo.occsb.sum()) > 1e-8:
                continue  # the FCHK reader discards the total SCF density of restricted open-shell files on purpose
            if key not in b.one_rdms:
                sym.append("density-lost." + key)
                continue
            da = np.einsum("ip,ij,jp->p", bva, a.one_rdms[key], bva)
            db = np.einsum("ip,ij,jp->p", bvb, b.one_rdms[key], bvb)
            if np.abs(da - db).max() > 1e-5 * max(1.0, np.abs(da).max()):
                sym.append("density-values." + key)
    return sorted(set(sym))


def run_case(case_seed, fmt, feat, allow):
    """None (skipped / writer refused with an error) or (symptoms list)."""
    try:
        data = make_case(case_seed, fmt, feat)
    except Exception as exc:  # noqa: BLE001
        return "gen-error", repr(exc)
    if data is None:
        return "skip", ""
    fn = os.path.join(tmp, f"c{case_seed}.{fmt}")
    try:
        dump_one(data, fn, fmt=fmt, allow_changes=allow)
    except Exception as exc:  # noqa: BLE001
        return "refused", repr(exc.__cause__ or exc)[:200]
    try:
        back = load_one(fn, fmt=fmt)
    except Exception as exc:  # noqa: BLE001
        return "fail", ["unreadable"], repr(exc.__cause__ or exc)[:200]
    points = np.random.default_rng(case_seed + 11).uniform(-2.5, 3.5, size=(12, 3))
    try:
        sym = compare(data, back, fmt, points)
    except Exception as exc:  # noqa: BLE001
        return "fail", ["compare-error"], repr(exc)[:200]
    if sym:
        return "fail", sym, ""
    return "ok", ""


def minimise(case_seed, fmt, feat, allow, symptom):
    """Reset features to the baseline one at a time while the same symptom persists."""
    feat = dict(feat)
    changed = True
    while changed:
        changed = False
        for k in sorted(feat):
            if feat[k] == BASE[k]:
                continue
            trial = dict(feat, **{k: BASE[k]})
            r = run_case(case_seed, fmt, trial, allow)
            if r[0] == "fail" and symptom in r[1]:
                feat = trial
                changed = True
    return feat


groups = {}
stats = {f: {"ok": 0, "refused": 0, "fail": 0, "skip": 0} for f in FORMATS}


def record(fmt, symptom, feat, case_seed, allow, detail):
    tags = ",".join(f"{k}={feat[k]}" for k in sorted(feat) if feat[k] != BASE[k]) or "baseline"
    name = f"{fmt}.{symptom}@{tags}"
    g = groups.setdefault(name, {"fails": [], "n": 0})
    g["n"] += 1
    if len(g["fails"]) < 3:
        g["fails"].append({"format": fmt, "case_seed": case_seed, "allow_changes": allow, "features": feat, "detail": detail})


master = np.random.default_rng(seed)
ncase = 0
plan = []
for fmt in FORMATS:
    # baseline, every single-feature variation, then random combinations
    plan.append((fmt, dict(BASE)))
    for k, vals in CHOICES.items():
        for v in vals:
            if v != BASE[k]:
                plan.append((fmt, dict(BASE, **{k: v})))
    for _ in range(25 if tier == "quick" else 250):
        plan.append((fmt, {k: vals[int(master.integers(len(vals)))] for k, vals in CHOICES.items()}))

for idx, (fmt, feat) in enumerate(plan):
    if only and fmt != only:
        continue
    for rep in range(2 if tier == "quick" else 4):
        case_seed = seed * 100003 + idx * 17 + rep
        for allow in (False, True):
            ncase += 1
            r = run_case(case_seed, fmt, feat, allow)
            stats[fmt][r[0] if r[0] in stats[fmt] else "skip"] += 1
            if r[0] == "gen-error":
                record(fmt, "generator-error", feat, case_seed, allow, r[1])
            if r[0] == "fail":
                for symptom in r[1]:
                    small = minimise(case_seed, fmt, feat, allow, symptom)
                    record(fmt, symptom, small, case_seed, allow, r[2])

# pure h shells (l = 5): Molden and Molekel can hold them; with and without a pure g shell next to them
for fmt in ("molden", "molekel"):
    if only and fmt != only:
        continue
    for with_g in (False, True):
        ncase += 1
        shells = [Shell(0, [0], ["c"], [1.3], [[1.0]]), Shell(0, [0], ["c"], [0.4], [[1.0]])]
        if with_g:
            shells.append(Shell(0, [4], ["p"], [0.9], [[1.0]]))
        shells.append(Shell(0, [5], ["p"], [0.7], [[1.0]]))
        obasis = MolecularBasis(shells, conventions_for("own", fmt, None), "L2")
        nb = obasis.nbasis
        coords = np.zeros((1, 3))
        sm = compute_overlap(obasis, coords)
        w_, v_ = np.linalg.eigh(sm)
        q_, _ = np.linalg.qr(np.random.default_rng(seed + 77).normal(size=(nb, nb)))
        cm = (v_ / np.sqrt(w_)) @ v_.T @ q_
        mo = MolecularOrbitals("restricted", nb, nb, np.array([2.0] + [0.0] * (nb - 1)), cm, np.arange(nb, dtype=float))
        data = IOData(atnums=[2], atcoords=coords, obasis=obasis, mo=mo, title="h shell")
        fn = os.path.join(tmp, f"hshell.{fmt}")
        feat = dict(BASE)
        tag = "pure-h-shell" + ("-next-to-pure-g" if with_g else "-without-g")
        try:
            dump_one(data, fn, fmt=fmt)
        except Exception:
            stats[fmt]["refused"] += 1
            continue
        try:
            back = load_one(fn, fmt=fmt)
            pts = np.random.default_rng(5).uniform(-2, 2, size=(6, 3))
            sym = compare(data, back, fmt, pts)
        except Exception as exc:  # noqa: BLE001
            sym = ["unreadable"]
            detail = repr(exc.__cause__ or exc)[:200]
        else:
            detail = ""
        if sym:
            stats[fmt]["fail"] += 1
            for sy in sym:
                g = groups.setdefault(f"{fmt}.{sy}@shells={tag}", {"fails": [], "n": 0})
                g["n"] += 1
                g["fails"].append({"format": fmt, "case_seed": -1, "allow_changes": False, "features": {"shells": tag}, "detail": detail})
        else:
            stats[fmt]["ok"] += 1

print(json.dumps({"groups": groups, "stats": stats, "cases": ncase}, default=str))
